package main

import (
	"fmt"
	"go/ast"
	"go/token"
	"go/types"
	"sort"
	"strings"

	"golang.org/x/tools/go/packages"
	"golang.org/x/tools/go/ssa"
)

func init() {
	register(ruleDef{ID: "R3.1", Prop: "C03", Tier: "quick", Floor: 10,
		Title: "gob writer/reader agreement: for every type with GobEncode and GobDecode the ordered types passed to Encode equal those passed to Decode (decoder may have a tolerant tail for legacy data)",
		Fn:    ruleR3_1})
	register(ruleDef{ID: "R3.3", Prop: "C03", Tier: "quick", Floor: 10,
		Title: "save-on-change: every function storing into a persisted field of repoT / nodeT / dagT / datastore.Data reaches the repo save on every success exit after the store, or all its callers do",
		Fn:    ruleR3_3})
	register(ruleDef{ID: "R3.5", Prop: "C03", Tier: "quick", Floor: 6,
		Title: "mapping log replay agreement: every live mapping change appends a record of a replayed type; every replayed type has a writer; accumulating record types are appended at most once per operation; replay attributes each version's log to that version",
		Fn:    ruleR3_5})
	register(ruleDef{ID: "R3.6", Prop: "C03", Tier: "quick", Floor: 3,
		Title: "rebuild hooks wired: types holding rebuilt state implement the start-up interfaces and the loader invokes them for every instance",
		Fn:    ruleR3_6})
	register(ruleDef{ID: "R3.7", Prop: "C03", Tier: "quick", Floor: 10,
		Title: "counters survive restart: id counters, label counters and the mutation-id reservation are persisted after every change (shared with C12 R12.1–R12.3)",
		Fn: func(r *Run) {
			checkCounterPersist(r)
			ruleR12_2(r)
			ruleR12_3(r)
		}})
}

// ---------------------------------------------------------------------------------------------
// R3.1

type gobSeq struct {
	Types  []types.Type
	Exprs  []string
	Strict []bool // decoder: error of this Decode leads to a return
}

func gobCalls(pkg *packages.Package, fd *ast.FuncDecl, method string) gobSeq {
	var seq gobSeq
	// walk statements in source order
	ast.Inspect(fd.Body, func(n ast.Node) bool {
		call, ok := n.(*ast.CallExpr)
		if !ok {
			return true
		}
		sel, ok := call.Fun.(*ast.SelectorExpr)
		if !ok || sel.Sel.Name != method || len(call.Args) != 1 {
			return true
		}
		// receiver must be *gob.Encoder / *gob.Decoder
		rt := pkg.TypesInfo.TypeOf(sel.X)
		if rt == nil || !strings.Contains(rt.String(), "encoding/gob.") {
			return true
		}
		arg := ast.Unparen(call.Args[0])
		t := pkg.TypesInfo.TypeOf(arg)
		if method == "Decode" {
			if u, ok := arg.(*ast.UnaryExpr); ok {
				arg = ast.Unparen(u.X)
				t = pkg.TypesInfo.TypeOf(arg)
			} else if p, ok := t.(*types.Pointer); ok {
				t = p.Elem()
			}
		}
		seq.Types = append(seq.Types, t)
		seq.Exprs = append(seq.Exprs, types.ExprString(arg))
		return true
	})
	return seq
}

// strictDecodes: for each Decode call (in order) whether its enclosing if-statement body returns.
func strictDecodes(pkg *packages.Package, fd *ast.FuncDecl) []bool {
	var out []bool
	var visit func(n ast.Node) bool
	visit = func(n ast.Node) bool {
		ifs, ok := n.(*ast.IfStmt)
		if ok && ifs.Init != nil {
			hasDecode := false
			ast.Inspect(ifs.Init, func(m ast.Node) bool {
				if c, ok := m.(*ast.CallExpr); ok {
					if s, ok := c.Fun.(*ast.SelectorExpr); ok && s.Sel.Name == "Decode" {
						hasDecode = true
					}
				}
				return true
			})
			if hasDecode {
				ret := false
				for _, st := range ifs.Body.List {
					if _, ok := st.(*ast.ReturnStmt); ok {
						ret = true
					}
				}
				out = append(out, ret)
				// continue into body for nested decodes
				ast.Inspect(ifs.Body, visit)
				if ifs.Else != nil {
					ast.Inspect(ifs.Else, visit)
				}
				return false
			}
		}
		if c, ok := n.(*ast.CallExpr); ok {
			if s, ok := c.Fun.(*ast.SelectorExpr); ok && s.Sel.Name == "Decode" && len(c.Args) == 1 {
				// a bare Decode (not in if-init): strict only if its error is returned; treat as strict
				_ = s
			}
		}
		return true
	}
	ast.Inspect(fd.Body, visit)
	return out
}

func findMethodDecl(pkg *packages.Package, recv, name string) *ast.FuncDecl {
	for _, f := range pkg.Syntax {
		for _, d := range f.Decls {
			fd, ok := d.(*ast.FuncDecl)
			if !ok || fd.Recv == nil || fd.Name.Name != name || fd.Body == nil {
				continue
			}
			t := fd.Recv.List[0].Type
			if s, ok := t.(*ast.StarExpr); ok {
				t = s.X
			}
			if id, ok := t.(*ast.Ident); ok && id.Name == recv {
				return fd
			}
		}
	}
	return nil
}

func ruleR3_1(r *Run) {
	w := r.W
	n := 0
	var paths []string
	for p := range w.ByPath {
		if strings.HasPrefix(p, modPath) {
			paths = append(paths, p)
		}
	}
	sort.Strings(paths)
	for _, p := range paths {
		pkg := w.ByPath[p]
		if pkg.Types == nil {
			continue
		}
		sc := pkg.Types.Scope()
		for _, nm := range sc.Names() {
			tn, ok := sc.Lookup(nm).(*types.TypeName)
			if !ok {
				continue
			}
			enc := findMethodDecl(pkg, tn.Name(), "GobEncode")
			dec := findMethodDecl(pkg, tn.Name(), "GobDecode")
			if enc == nil && dec == nil {
				continue
			}
			name := relPkg(p) + "." + tn.Name()
			if enc == nil || dec == nil {
				r.violation(name+":gob-pair", fmt.Sprintf("type has GobEncode=%v GobDecode=%v: one side of the codec is missing", enc != nil, dec != nil), w.pos(tn.Pos()))
				continue
			}
			n++
			es := gobCalls(pkg, enc, "Encode")
			ds := gobCalls(pkg, dec, "Decode")
			strict := strictDecodes(pkg, dec)
			var problems []string
			for i := 0; i < len(es.Types) && i < len(ds.Types); i++ {
				if !types.Identical(es.Types[i], ds.Types[i]) {
					problems = append(problems, fmt.Sprintf("position %d: encoder writes %s (%s) but decoder reads %s (%s)", i, es.Exprs[i], es.Types[i], ds.Exprs[i], ds.Types[i]))
				}
			}
			if len(es.Types) > len(ds.Types) {
				problems = append(problems, fmt.Sprintf("encoder writes %d values, decoder reads only %d: %v are lost on reload", len(es.Types), len(ds.Types), es.Exprs[len(ds.Types):]))
			}
			if len(es.Types) < len(ds.Types) {
				// allowed only if the extra decodes are tolerant (legacy tail)
				for i := len(es.Types); i < len(ds.Types); i++ {
					if i < len(strict) && strict[i] {
						problems = append(problems, fmt.Sprintf("decoder requires value %d (%s) that the encoder never writes: every reload fails", i, ds.Exprs[i]))
					}
				}
			}
			// same place: the field decoded at position i is the field encoded at position i
			for i := 0; i < len(es.Exprs) && i < len(ds.Exprs); i++ {
				if lastSel(es.Exprs[i]) != lastSel(ds.Exprs[i]) && types.Identical(es.Types[i], ds.Types[i]) && isFieldExpr(es.Exprs[i]) && isFieldExpr(ds.Exprs[i]) {
					problems = append(problems, fmt.Sprintf("position %d: encoder writes field %s but decoder stores it into %s", i, es.Exprs[i], ds.Exprs[i]))
				}
			}
			if len(es.Types) == 0 {
				problems = append(problems, "no Encode calls found in GobEncode")
			}
			r.check(len(problems) == 0, name+":gob-sequence", fmt.Sprintf("%d values encoded, %d decoded, types and fields agree", len(es.Types), len(ds.Types)),
				"gob encoder and decoder disagree: "+strings.Join(problems, "; "), w.pos(enc.Pos()))
		}
	}
	if n < 15 {
		r.undecided("gob-pairs", fmt.Sprintf("only %d GobEncode/GobDecode pairs found (≥15 confirmed by hand)", n))
	}
}

func lastSel(e string) string {
	if i := strings.LastIndex(e, "."); i >= 0 {
		return e[i+1:]
	}
	return e
}
func isFieldExpr(e string) bool { return strings.Contains(e, ".") && !strings.ContainsAny(e, "([") }

// ---------------------------------------------------------------------------------------------
// R3.3

// persistedFields: names of the receiver's fields passed to enc.Encode in T.GobEncode.
func persistedFields(w *World, pkgRel, typ string) map[string]bool {
	out := map[string]bool{}
	pkg := w.ByPath[full(pkgRel)]
	if pkg == nil {
		return out
	}
	fd := findMethodDecl(pkg, typ, "GobEncode")
	if fd == nil {
		return out
	}
	recv := ""
	if len(fd.Recv.List[0].Names) > 0 {
		recv = fd.Recv.List[0].Names[0].Name
	}
	ast.Inspect(fd.Body, func(n ast.Node) bool {
		call, ok := n.(*ast.CallExpr)
		if !ok {
			return true
		}
		sel, ok := call.Fun.(*ast.SelectorExpr)
		if !ok || sel.Sel.Name != "Encode" || len(call.Args) != 1 {
			return true
		}
		arg := ast.Unparen(call.Args[0])
		if u, ok := arg.(*ast.UnaryExpr); ok && u.Op == token.AND {
			arg = ast.Unparen(u.X)
		}
		if s, ok := arg.(*ast.SelectorExpr); ok {
			if id, ok := s.X.(*ast.Ident); ok && id.Name == recv {
				out[s.Sel.Name] = true
			}
		}
		return true
	})
	return out
}

// timestampFields are bookkeeping that always accompanies another (saved) change; a store to them
// alone is not a change of an observable that C03 lists.
var timestampFields = map[string]bool{"updated": true, "created": true}

func ruleR3_3(r *Run) {
	w := r.W
	save := w.method("datastore", "repoT", "save")
	if save == nil {
		r.violation("repoT.save", "datastore.repoT.save not found", "-")
		return
	}
	saveToStore := w.method("datastore", "repoT", "saveToStore")
	saveFns = map[*ssa.Function]bool{save: true}
	if saveToStore != nil {
		saveFns[saveToStore] = true
	}
	saves := w.newReach(func(c ssa.CallInstruction) bool { return saveFns[c.Common().StaticCallee()] }, nil)
	isSaving := func(in ssa.Instruction) bool {
		c, ok := in.(ssa.CallInstruction)
		if !ok {
			return false
		}
		if saveFns[c.Common().StaticCallee()] {
			return true
		}
		for _, callee := range w.Callees(c) {
			if inRepo(callee) && saves.From(callee) && mustSave(w, callee, save, saves, 0) {
				return true
			}
		}
		return false
	}
	dataSetterMemo = map[*ssa.Function][2]string{}
	mustSaveMemo = map[*ssa.Function]int{}
	types_ := []string{"repoT", "nodeT", "dagT", "Data"}
	fields := map[string]map[string]bool{}
	for _, t := range types_ {
		fields[t] = persistedFields(w, "datastore", t)
		if len(fields[t]) == 0 {
			r.undecided("persisted-fields:"+t, "no encoded fields found for datastore."+t)
		}
	}
	// callers index
	callers := map[*ssa.Function][]ssa.CallInstruction{}
	for _, f := range w.RepoFuncs {
		for _, c := range calls(f) {
			if callee := c.Common().StaticCallee(); callee != nil && inRepo(callee) {
				callers[callee] = append(callers[callee], c)
			} else if c.Common().IsInvoke() {
				for _, callee := range w.Callees(c) {
					callee = unwrapSynthetic(callee)
					if inRepo(callee) && relPkg(pkgPathOf(callee)) == "datastore" {
						callers[callee] = append(callers[callee], c)
					}
				}
			}
		}
	}
	succ := func(in ssa.Instruction) bool {
		ret, ok := in.(*ssa.Return)
		return ok && !isErrorExit(ret) && !isErrorReplyExit(ret)
	}
	var coveredFrom func(f *ssa.Function, from ssa.Instruction, depth int, seen map[*ssa.Function]bool) (bool, string)
	coveredFrom = func(f *ssa.Function, from ssa.Instruction, depth int, seen map[*ssa.Function]bool) (bool, string) {
		p := findPath(f, from, isSaving, succ, nil)
		if p == nil {
			return true, ""
		}
		if depth >= 4 || seen[f] {
			return false, fname(f) + " @ " + w.pos(from.Pos())
		}
		seen[f] = true
		cs := callers[f]
		if len(cs) == 0 {
			return false, fname(f) + " (no callers) @ " + w.pos(from.Pos())
		}
		for _, c := range cs {
			if ok, where := coveredFrom(c.Parent(), c, depth+1, seen); !ok {
				return false, where
			}
		}
		return true, ""
	}
	n := 0
	for _, f := range w.RepoFuncs {
		if relPkg(pkgPathOf(f)) != "datastore" || len(f.Blocks) == 0 {
			continue
		}
		fn := f.Name()
		if fn == "GobDecode" || fn == "GobEncode" || strings.HasPrefix(fn, "init") {
			continue
		}
		for _, b := range f.Blocks {
			for _, in := range b.Instrs {
				typ, fld, base := persistedStore(in, fields)
				if typ == "" {
					// a call of a datastore.Data setter counts as a store at the call site
					if c, ok := in.(ssa.CallInstruction); ok {
						if st, sf := dataSetterCall(w, c, fields); st != "" {
							typ, fld = st, sf
							base = c.Common().Value
							if !c.Common().IsInvoke() && len(c.Common().Args) > 0 {
								base = c.Common().Args[0]
							}
						}
					}
				} else if typ == "Data" {
					continue // inside a setter of datastore.Data: charged to the call sites instead
				}
				if typ == "" || timestampFields[fld] {
					continue
				}
				// fresh object (constructor / loader building a new value): base is allocated here
				if isFreshObject(base, f) {
					continue
				}
				construct := fmt.Sprintf("%s:%s.%s", fname(f), typ, fld)
				if reason, ok := r.exceptionFor("R3.3", construct); ok {
					r.ok(construct, "exception: "+reason, w.pos(in.Pos()))
					continue
				}
				n++
				ok, where := coveredFrom(f, in, 0, map[*ssa.Function]bool{})
				r.check(ok, construct+":saved-after-change",
					"after the store every success exit (of this function or of every caller chain) passes through repoT.save",
					fmt.Sprintf("the persisted field %s.%s is changed but a success exit is reachable without saving the repo (%s): the change is acknowledged and lost at the next restart", typ, fld, where), w.pos(in.Pos()))
			}
		}
	}
	if n < 10 {
		r.undecided("persisted-stores", fmt.Sprintf("only %d stores into persisted metadata fields found", n))
	}
}

// mustSave: every success exit of callee passes through a saving call.
var mustSaveMemo = map[*ssa.Function]int{}
var saveFns = map[*ssa.Function]bool{}

func mustSave(w *World, f *ssa.Function, save *ssa.Function, saves *Reach, depth int) bool {
	if v, ok := mustSaveMemo[f]; ok {
		return v == 1
	}
	if depth > 5 || len(f.Blocks) == 0 {
		return false
	}
	mustSaveMemo[f] = 0
	isSaving := func(in ssa.Instruction) bool {
		c, ok := in.(ssa.CallInstruction)
		if !ok {
			return false
		}
		callee := c.Common().StaticCallee()
		if saveFns[callee] {
			return true
		}
		if callee != nil {
			return inRepo(callee) && saves.From(callee) && mustSave(w, callee, save, saves, depth+1)
		}
		if c.Common().IsInvoke() {
			for _, cal := range w.Callees(c) {
				cal = unwrapSynthetic(cal)
				if inRepo(cal) && saves.From(cal) && mustSave(w, cal, save, saves, depth+1) {
					return true
				}
			}
		}
		return false
	}
	succ := func(in ssa.Instruction) bool {
		ret, ok := in.(*ssa.Return)
		return ok && !isErrorExit(ret)
	}
	if findPath(f, nil, isSaving, succ, nil) == nil {
		mustSaveMemo[f] = 1
		return true
	}
	return false
}

// persistedStore classifies an instruction as a change of a persisted field: a store to the field,
// a map update / delete on the field's map.  Returns (type, field, base object value).
func persistedStore(in ssa.Instruction, fields map[string]map[string]bool) (string, string, ssa.Value) {
	var fa *ssa.FieldAddr
	switch x := in.(type) {
	case *ssa.Store:
		fa, _ = x.Addr.(*ssa.FieldAddr)
	case *ssa.MapUpdate:
		if u, ok := x.Map.(*ssa.UnOp); ok {
			fa, _ = u.X.(*ssa.FieldAddr)
		}
	case *ssa.Call:
		if bi, ok := x.Call.Value.(*ssa.Builtin); ok && bi.Name() == "delete" {
			if u, ok := x.Call.Args[0].(*ssa.UnOp); ok {
				fa, _ = u.X.(*ssa.FieldAddr)
			}
		}
	}
	if fa == nil {
		return "", "", nil
	}
	n := namedOf(fa.X.Type())
	if n == nil || n.Obj().Pkg() == nil || relPkg(n.Obj().Pkg().Path()) != "datastore" {
		return "", "", nil
	}
	name, _, _ := fieldName(fa)
	if fs, ok := fields[n.Obj().Name()]; ok && fs[name] {
		return n.Obj().Name(), name, fa.X
	}
	return "", "", nil
}

// isFreshObject: the struct written is allocated in this function (new / composite literal), or
// is a value the function is in the middle of constructing and returns.
func isFreshObject(base ssa.Value, f *ssa.Function) bool {
	return isFreshObjectD(base, f, 0)
}

func isFreshObjectD(base ssa.Value, f *ssa.Function, depth int) bool {
	if depth > 6 {
		return false
	}
	rs := roots(base, f)
	if len(rs) == 0 {
		return false
	}
	for _, rv := range rs {
		switch x := rv.V.(type) {
		case *ssa.Alloc:
			continue
		case *ssa.Extract:
			// element of a map held by a fresh object
			if lk, ok := x.Tuple.(*ssa.Lookup); ok && containerFresh(lk.X, rv.Fn, depth) {
				continue
			}
			if nx, ok := x.Tuple.(*ssa.Next); ok {
				if rg, ok := nx.Iter.(*ssa.Range); ok && containerFresh(rg.X, rv.Fn, depth) {
					continue
				}
			}
			if c, ok := x.Tuple.(*ssa.Call); ok {
				if callee := c.Call.StaticCallee(); callee != nil && inRepo(callee) && returnsFresh(callee) {
					continue
				}
			}
			return false
		case *ssa.Lookup:
			if containerFresh(x.X, rv.Fn, depth) {
				continue
			}
			return false
		case *ssa.UnOp:
			// load of a field of a fresh object (e.g. fresh.dag)
			if fa, ok := x.X.(*ssa.FieldAddr); ok && isFreshObjectD(fa.X, rv.Fn, depth+1) {
				continue
			}
			return false
		case *ssa.Call:
			// result of a constructor of the same package returning a fresh object
			if callee := x.Call.StaticCallee(); callee != nil && inRepo(callee) && returnsFresh(callee) {
				continue
			}
			return false
		default:
			return false
		}
	}
	return true
}

// containerFresh: the map/slice value is a field of a fresh object.
func containerFresh(m ssa.Value, f *ssa.Function, depth int) bool {
	if u, ok := m.(*ssa.UnOp); ok {
		if fa, ok := u.X.(*ssa.FieldAddr); ok {
			return isFreshObjectD(fa.X, f, depth+1)
		}
	}
	return false
}

// isErrorReplyExit: a return of a function without error result that follows an error reply
// (server.BadRequest / http.Error) in the same block.
func isErrorReplyExit(ret *ssa.Return) bool {
	if errResultIndex(ret.Parent()) >= 0 {
		return false
	}
	for _, in := range ret.Block().Instrs {
		if c, ok := in.(ssa.CallInstruction); ok && isRefusalCall(c) {
			return true
		}
	}
	return false
}

func returnsFresh(f *ssa.Function) bool {
	if len(f.Blocks) == 0 {
		return false
	}
	for _, b := range f.Blocks {
		if ret, ok := b.Instrs[len(b.Instrs)-1].(*ssa.Return); ok && len(ret.Results) > 0 {
			if isNilConst(ret.Results[0]) {
				continue
			}
			if _, ok := stripConv(ret.Results[0]).(*ssa.Alloc); !ok {
				return false
			}
		}
	}
	return true
}

// ---------------------------------------------------------------------------------------------
// R3.5 / R3.6 are in rules_c03b.go

// unwrapSynthetic resolves promoted-method / bound-method wrappers to the declared method.
func unwrapSynthetic(f *ssa.Function) *ssa.Function {
	for i := 0; i < 3 && f != nil && f.Synthetic != ""; i++ {
		var next *ssa.Function
		for _, c := range calls(f) {
			if callee := c.Common().StaticCallee(); callee != nil && callee.Name() == f.Name() {
				next = callee
			}
		}
		if next == nil {
			return f
		}
		f = next
	}
	return f
}

var dataSetterMemo = map[*ssa.Function][2]string{}

// dataSetterCall: c calls (statically or through an interface) a method of datastore.Data that
// directly stores a persisted field; returns ("Data", field).
func dataSetterCall(w *World, c ssa.CallInstruction, fields map[string]map[string]bool) (string, string) {
	name := ""
	if c.Common().IsInvoke() {
		name = c.Common().Method.Name()
	} else if callee := c.Common().StaticCallee(); callee != nil {
		name = callee.Name()
	}
	if !strings.HasPrefix(name, "Set") && name != "ModifyConfig" {
		return "", ""
	}
	for _, callee := range w.Callees(c) {
		callee = unwrapSynthetic(callee)
		if callee == nil || callee.Signature.Recv() == nil || !typeIs(callee.Signature.Recv().Type(), "datastore", "Data") {
			continue
		}
		if v, ok := dataSetterMemo[callee]; ok {
			if v[0] != "" {
				return v[0], v[1]
			}
			continue
		}
		res := [2]string{}
		for _, b := range callee.Blocks {
			for _, in := range b.Instrs {
				if t, f, _ := persistedStore(in, fields); t == "Data" {
					res = [2]string{t, f}
				}
			}
		}
		dataSetterMemo[callee] = res
		if res[0] != "" {
			return res[0], res[1]
		}
	}
	return "", ""
}
