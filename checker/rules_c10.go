package main

// C10 — operations on compressed label blocks equal the voxel-wise reference.
//
// The equivalence itself is a statement about values and is not decided.  What is decided are the
// structural conditions without which it cannot hold given that several slots of a block's label table
// may hold the same label: every table scan of the table-level edits is complete, every edit of a slot
// or of a voxel lies behind the test that selects it, the reported counts change exactly where the edit
// is made, the run loops of the voxel-level splits advance on every pass, and the down-sampling clauses
// shared with C14.

import (
	"fmt"
	"go/token"
	"go/types"
	"sort"
	"strings"

	"golang.org/x/tools/go/ssa"
)

func init() {
	register(ruleDef{ID: "R10.1", Prop: "C10", Tier: "quick", Floor: 4,
		Title: "the table-level edits look at every slot: in Block.MergeLabels, ReplaceLabel and ReplaceLabels every loop over the block's label table or over its sub-block index list is left only when the list is exhausted (several slots may hold the same label after earlier merges and replacements: stopping at the first match leaves voxels of the edited label behind)",
		Fn:    ruleTableScansComplete})
	register(ruleDef{ID: "R10.2", Prop: "C10", Tier: "quick", Floor: 4,
		Title: "a table slot is rewritten only behind the test that selects it, and what is reported changes with it: in MergeLabels, ReplaceLabel and ReplaceLabels every store into Labels[i] or SBIndices[i] inside a scan lies behind a comparison or lookup of that slot's current content; ReplaceLabel adds the slot's voxel count in the block that rewrites the slot, MergeLabels records the slot among the merged indices in the block that clears it, and ReplaceLabels raises its 'replaced' answer there",
		Fn:    ruleTableEditsGuarded})
	register(ruleDef{ID: "R10.3", Prop: "C10", Tier: "quick", Floor: 5,
		Title: "the voxel-level splits walk every voxel of every run: in the labels package, in each loop bounded by a run's Length() that indexes the expanded voxel array, the array index is advanced by one on every way round the loop",
		Fn:    ruleRunLoopsAdvance})
	register(ruleDef{ID: "R10.4", Prop: "C10", Tier: "quick", Floor: 5,
		Title: "a voxel is relabelled only after its current label was examined, and the counts follow the relabelling: in the split functions of the labels package every store into the expanded voxel array lies behind a test computed from the voxel it overwrites; where the function reports kept/split sizes or per-supervoxel voxel counts, each count changes in the block that holds the store (or, for SplitStats, the test) and nowhere else in the loop",
		Fn:    ruleRelabelGuardedAndCounted})
	register(ruleDef{ID: "R10.5", Prop: "C10", Tier: "quick", Floor: 1, Title: "(= R14.5) sibling agreement of the vote loops of the down-sampling implementations: ties go to the smaller label in every one", Fn: ruleR14_5})
	register(ruleDef{ID: "R10.6", Prop: "C10", Tier: "quick", Floor: 1, Title: "(= R14.7) absent octants mean 'unchanged' on every path of Block.Downres", Fn: ruleR14_7})
	register(ruleDef{ID: "R10.7", Prop: "C10", Tier: "quick", Floor: 1, Title: "(= R14.17) the down-sampled voxel is chosen over the complete vote in downresArray", Fn: ruleWinnerFromCompleteVote})
}

func c10TableEditFuncs(w *World) []*ssa.Function {
	var out []*ssa.Function
	for _, name := range []string{"MergeLabels", "ReplaceLabel", "ReplaceLabels"} {
		if f := w.method("datatype/common/labels", "Block", name); f != nil && len(f.Blocks) > 0 {
			out = append(out, f)
		}
	}
	return out
}

// tableOf says whether v is (a load of) the Labels or SBIndices field of a Block, and which.
func tableOf(v ssa.Value) string {
	for _, name := range []string{"Labels", "SBIndices"} {
		if isFieldLoad(v, "Block", name) {
			return name
		}
	}
	return ""
}

// scanLoops returns, per loop header, the table the loop walks: its bound is len() of the table or it
// reads table[i] with the loop's own index.
func scanLoops(f *ssa.Function) map[*ssa.BasicBlock]string {
	out := map[*ssa.BasicBlock]string{}
	for h, set := range naturalLoops(f) {
		if len(h.Instrs) == 0 {
			continue
		}
		ifi, ok := h.Instrs[len(h.Instrs)-1].(*ssa.If)
		if !ok {
			continue
		}
		for d := range dataDeps(ifi.Cond) {
			c, ok := d.(*ssa.Call)
			if !ok {
				continue
			}
			if bi, ok := c.Call.Value.(*ssa.Builtin); ok && bi.Name() == "len" {
				if t := tableOf(c.Call.Args[0]); t != "" {
					out[h] = t
				}
			}
		}
		_ = set
	}
	return out
}

func ruleTableScansComplete(r *Run) {
	w := r.W
	fs := c10TableEditFuncs(w)
	if len(fs) < 3 {
		r.undecided("labels.Block.{MergeLabels,ReplaceLabel,ReplaceLabels}", "anchor not found")
		return
	}
	n := 0
	for _, f := range fs {
		loops := naturalLoops(f)
		k := 0
		for h, table := range scanLoops(f) {
			_ = h
			_ = table
			k++
		}
		if k == 0 {
			r.violation(fname(f)+":table-scan", "no loop over the label table or the index list found: the edit cannot reach every slot", w.fpos(f))
			continue
		}
		// deterministic order
		for _, h := range f.Blocks {
			table, ok := scanLoops(f)[h]
			if !ok {
				continue
			}
			n++
			set := loops[h]
			bad := ""
			for _, b := range f.Blocks {
				if !set[b] || b == h {
					continue
				}
				for _, s := range b.Succs {
					if !set[s] {
						bad = w.pos(blockPos(b))
					}
				}
			}
			r.check(bad == "", fmt.Sprintf("%s:scan-of-%s#%d:complete", fname(f), table, n), "the scan ends only at the end of the list",
				"the scan of the block's "+table+" is left before the end of the list ("+bad+"): a label that occupies several slots — the normal state after a merge or a replacement — is edited in the first slot only, and the voxels behind the other slots keep the old label", w.pos(blockPos(h)))
		}
	}
	r.check(n >= 4, "labels:table-scans", fmt.Sprintf("%d", n), "too few scans found: rule needs review", "-")
}

func ruleTableEditsGuarded(r *Run) {
	w := r.W
	fs := c10TableEditFuncs(w)
	if len(fs) < 3 {
		r.undecided("labels.Block.{MergeLabels,ReplaceLabel,ReplaceLabels}", "anchor not found")
		return
	}
	n := 0
	for _, f := range fs {
		loops := naturalLoops(f)
		scans := scanLoops(f)
		k := 0
		for _, b := range f.Blocks {
			for _, in := range b.Instrs {
				st, ok := in.(*ssa.Store)
				if !ok {
					continue
				}
				ia, ok := st.Addr.(*ssa.IndexAddr)
				if !ok {
					continue
				}
				table := tableOf(ia.X)
				if table == "" {
					continue
				}
				// inside a scan?
				inScan := false
				for h := range scans {
					if loops[h][b] {
						inScan = true
					}
				}
				if !inScan {
					continue
				}
				k++
				n++
				// the guard: an If that dominates the store by one edge and whose condition is computed from
				// table[idx] with the store's own index, or from a lookup keyed by it
				guarded := false
				for _, gb := range f.Blocks {
					ifi, ok := gb.Instrs[len(gb.Instrs)-1].(*ssa.If)
					if !ok || !gb.Dominates(b) || gb == b {
						continue
					}
					if !(guardedByEdge(ifi, 0, st) || guardedByEdge(ifi, 1, st)) {
						continue
					}
					for d := range dataDeps(ifi.Cond) {
						u, ok := d.(*ssa.UnOp)
						if !ok || u.Op != token.MUL {
							continue
						}
						ia2, ok := u.X.(*ssa.IndexAddr)
						if !ok {
							continue
						}
						if tableOf(ia2.X) != "" && stripConv(ia2.Index) == stripConv(ia.Index) {
							guarded = true
						}
					}
				}
				construct := fmt.Sprintf("%s:store-into-%s#%d", fname(f), table, k)
				r.check(guarded, construct+":behind-its-test", "the slot is rewritten behind a test of its own content",
					"a slot of the block's "+table+" is rewritten without a test of that slot's current content on the way: slots of other labels are edited too, and the block differs from the voxel-wise result", w.pos(st.Pos()))
				// the companion of the store in the same block
				switch f.Name() {
				case "ReplaceLabel":
					has := false
					for _, x := range b.Instrs {
						if c, ok := x.(*ssa.Call); ok && methodNameOf(c) == "getNumVoxels" {
							has = true
						}
					}
					r.check(has, construct+":count-with-the-rewrite", "the slot's voxel count is added where the slot is rewritten",
						"the slot is rewritten in a block that does not add the slot's voxel count: the reported size of the replacement differs from the number of voxels replaced", w.pos(st.Pos()))
				case "MergeLabels":
					if table == "Labels" {
						if k0, ok := st.Val.(*ssa.Const); ok && k0.Value != nil && k0.Value.String() == "0" {
							has := false
							for _, x := range b.Instrs {
								if mu, ok := x.(*ssa.MapUpdate); ok {
									if mt, ok := mu.Map.Type().Underlying().(*types.Map); ok && mt.Key().String() == "uint32" {
										has = true
									}
								}
							}
							r.check(has, construct+":recorded-with-the-clearing", "the cleared slot is recorded among the merged indices",
								"a slot is cleared in a block that does not record it among the merged indices: the sub-block indices that point at it are not redirected to the target, and those voxels become label 0", w.pos(st.Pos()))
						}
					}
				}
			}
		}
	}
	r.check(n >= 4, "labels:table-stores", fmt.Sprintf("%d", n), "too few stores found: rule needs review", "-")
}

// runLoop describes a loop whose bound is a run's Length() and that indexes a []uint64 voxel array.
type runLoop struct {
	f      *ssa.Function
	header *ssa.BasicBlock
	set    map[*ssa.BasicBlock]bool
	idx    *ssa.Phi    // the array index carried round the loop
	arrays []ssa.Value // the voxel arrays indexed by idx
}

func c10RunLoops(w *World) []runLoop {
	var out []runLoop
	for _, f := range w.RepoFuncs {
		if len(f.Blocks) == 0 || relPkg(pkgPathOf(f)) != "datatype/common/labels" || isTestFunc(w, f) {
			continue
		}
		loops := naturalLoops(f)
		for _, h := range f.Blocks {
			set := loops[h]
			if set == nil || len(h.Instrs) == 0 {
				continue
			}
			ifi, ok := h.Instrs[len(h.Instrs)-1].(*ssa.If)
			if !ok {
				continue
			}
			byLength := false
			for d := range dataDeps(ifi.Cond) {
				if c, ok := d.(*ssa.Call); ok && methodNameOf(c) == "Length" {
					byLength = true
				}
			}
			if !byLength {
				continue
			}
			// the phi of the header, other than the loop counter compared in the condition, that indexes a []uint64
			var rl *runLoop
			for _, in := range h.Instrs {
				phi, ok := in.(*ssa.Phi)
				if !ok {
					continue
				}
				var arrays []ssa.Value
				for b := range set {
					for _, x := range b.Instrs {
						ia, ok := x.(*ssa.IndexAddr)
						if !ok || stripConv(ia.Index) != ssa.Value(phi) {
							continue
						}
						if sl, ok := ia.X.Type().Underlying().(*types.Slice); ok && sl.Elem().String() == "uint64" {
							arrays = append(arrays, ia.X)
						}
					}
				}
				if len(arrays) > 0 {
					rl = &runLoop{f, h, set, phi, arrays}
				}
			}
			if rl != nil {
				out = append(out, *rl)
			}
		}
	}
	return out
}

func ruleRunLoopsAdvance(r *Run) {
	w := r.W
	n := 0
	for _, rl := range c10RunLoops(w) {
		n++
		bad := ""
		for i, e := range rl.idx.Edges {
			pred := rl.header.Preds[i]
			if !rl.set[pred] {
				continue // the entry edge
			}
			bo, ok := e.(*ssa.BinOp)
			one := false
			if ok && bo.Op == token.ADD && bo.X == ssa.Value(rl.idx) {
				if k, ok := constInt(bo.Y); ok && k == 1 {
					one = true
				}
			}
			if !one {
				bad = "from " + w.pos(blockPos(pred))
			}
		}
		r.check(bad == "", fmt.Sprintf("%s:run-loop#%d:index-advances", fname(rl.f), n), "the array index grows by one on every way round",
			"a way round the loop over a run's voxels leaves the array index where it was ("+bad+"): the rest of the run is applied to the wrong voxels", w.pos(blockPos(rl.header)))
	}
	r.check(n >= 5, "labels:run-loops", fmt.Sprintf("%d", n), "too few run loops found: rule needs review", "-")
}

func ruleRelabelGuardedAndCounted(r *Run) {
	w := r.W
	n := 0
	for li, rl := range c10RunLoops(w) {
		f := rl.f
		// stores into the voxel array at the loop's index
		var stores []*ssa.Store
		for _, b := range f.Blocks {
			if !rl.set[b] {
				continue
			}
			for _, in := range b.Instrs {
				st, ok := in.(*ssa.Store)
				if !ok {
					continue
				}
				ia, ok := st.Addr.(*ssa.IndexAddr)
				if !ok || stripConv(ia.Index) != ssa.Value(rl.idx) {
					continue
				}
				if sl, ok := ia.X.Type().Underlying().(*types.Slice); ok && sl.Elem().String() == "uint64" {
					stores = append(stores, st)
				}
			}
		}
		fromVoxel := func(cond ssa.Value) bool {
			for d := range dataDeps(cond) {
				u, ok := d.(*ssa.UnOp)
				if !ok || u.Op != token.MUL {
					continue
				}
				if ia, ok := u.X.(*ssa.IndexAddr); ok && stripConv(ia.Index) == ssa.Value(rl.idx) {
					return true
				}
			}
			return false
		}
		// the blocks that are entered by a test of the voxel
		tested := map[*ssa.BasicBlock]bool{}
		for b := range rl.set {
			if len(b.Instrs) == 0 {
				continue
			}
			ifi, ok := b.Instrs[len(b.Instrs)-1].(*ssa.If)
			if !ok || !fromVoxel(ifi.Cond) {
				continue
			}
			for _, tb := range f.Blocks {
				if !rl.set[tb] || len(tb.Instrs) == 0 {
					continue
				}
				first := tb.Instrs[0]
				if guardedByEdge(ifi, 0, first) || guardedByEdge(ifi, 1, first) {
					tested[tb] = true
				}
			}
		}
		for k, st := range stores {
			n++
			r.check(tested[st.Block()], fmt.Sprintf("%s:run-loop#%d:relabel#%d:behind-a-test-of-the-voxel", fname(f), li+1, k+1), "the voxel is overwritten behind a test of its current label",
				"a voxel under a run is overwritten without its current label having been tested: voxels of other labels under the split volume are relabelled too, and the result differs from the voxel-wise split", w.pos(st.Pos()))
		}
		// counters: additions of a constant one to a value carried round the loop (other than the index and the
		// loop counter of the condition), or a field named Voxels
		ifi := rl.header.Instrs[len(rl.header.Instrs)-1].(*ssa.If)
		condDeps := dataDeps(ifi.Cond)
		for _, b := range f.Blocks {
			if !rl.set[b] {
				continue
			}
			for _, in := range b.Instrs {
				bo, ok := in.(*ssa.BinOp)
				if !ok || (bo.Op != token.ADD && bo.Op != token.SUB) {
					continue
				}
				if k, ok := constInt(bo.Y); !ok || k != 1 {
					continue
				}
				if bo.X == ssa.Value(rl.idx) || condDeps[bo] {
					continue
				}
				if !strings.HasPrefix(bo.Type().String(), "uint") {
					continue
				}
				n++
				hasStore := false
				for _, st := range stores {
					if st.Block() == b {
						hasStore = true
					}
				}
				ok2 := hasStore || (len(stores) == 0 && tested[b])
				r.check(ok2, fmt.Sprintf("%s:run-loop#%d:count@%s", fname(f), li+1, bo.Name()), "the count changes where the voxel is relabelled (or, without relabelling, where it is tested)",
					"a reported count changes in a block of the run loop that does not relabel the voxel (or, in the statistics-only variant, is not entered by the test of the voxel): the reported kept/split sizes differ from the voxels actually moved", w.pos(bo.Pos()))
			}
		}
	}
	r.check(n >= 5, "labels:relabels-and-counts", fmt.Sprintf("%d", n), "too few found: rule needs review", "-")
}

func init() {
	register(ruleDef{ID: "R10.8", Prop: "C10", Tier: "quick", Floor: 2,
		Title: "a replacement is simultaneous: in MergeLabels, ReplaceLabel and ReplaceLabels a store into a table slot that sits inside two or more nested loops is guarded by a test that reads the slot from a different block object than the one written (a slot rewritten by one pass over the same table is examined again by the next pass, so chains and swaps of a mapping collapse)",
		Fn:    ruleRewriteIsSimultaneous})
	register(ruleDef{ID: "R10.9", Prop: "C10", Tier: "quick", Floor: 2,
		Title: "a split supervoxel disappears from every block it is in: in PositionedBlock.SplitSupervoxel and SplitSupervoxels every success return lies behind the loop over the whole voxel array that writes the remainder label (a block the split volume does not touch still has to be relabelled to the remainder, and its kept size reported)",
		Fn:    ruleRemainderLoopOnEverySuccess})
}

func ruleRewriteIsSimultaneous(r *Run) {
	w := r.W
	fs := c10TableEditFuncs(w)
	if len(fs) < 3 {
		r.undecided("labels.Block.{MergeLabels,ReplaceLabel,ReplaceLabels}", "anchor not found")
		return
	}
	n := 0
	for _, f := range fs {
		loops := naturalLoops(f)
		k := 0
		for _, b := range f.Blocks {
			for _, in := range b.Instrs {
				st, ok := in.(*ssa.Store)
				if !ok {
					continue
				}
				ia, ok := st.Addr.(*ssa.IndexAddr)
				if !ok || tableOf(ia.X) == "" {
					continue
				}
				depth := 0
				for _, set := range loops {
					if set[b] {
						depth++
					}
				}
				if depth == 0 {
					continue
				}
				k++
				n++
				construct := fmt.Sprintf("%s:store-into-%s#%d:simultaneous", fname(f), tableOf(ia.X), k)
				if depth == 1 {
					r.check(true, construct, "the store sits in a single pass over the table", "", w.pos(st.Pos()))
					continue
				}
				// nested: every guarding test that reads a table slot reads it from another object
				written := blockObjectOf(ia.X)
				bad := ""
				for _, gb := range f.Blocks {
					if len(gb.Instrs) == 0 {
						continue
					}
					ifi, ok := gb.Instrs[len(gb.Instrs)-1].(*ssa.If)
					if !ok || !(guardedByEdge(ifi, 0, st) || guardedByEdge(ifi, 1, st)) {
						continue
					}
					for d := range dataDeps(ifi.Cond) {
						u, ok := d.(*ssa.UnOp)
						if !ok || u.Op != token.MUL {
							continue
						}
						ia2, ok := u.X.(*ssa.IndexAddr)
						if !ok || tableOf(ia2.X) == "" {
							continue
						}
						if blockObjectOf(ia2.X) == written {
							bad = w.pos(u.Pos())
						}
					}
				}
				r.check(bad == "", construct, "the nested rewrite tests slots of another block object than the one it writes",
					"a slot of the table is rewritten inside nested loops and the test that selects it reads the same table ("+bad+"): a slot rewritten for one entry of the mapping is examined again for the next entry, so a mapping with chains or swaps (a→b, b→c) sends a's voxels to c — the replacement is sequential, the voxel-wise reference is simultaneous", w.pos(st.Pos()))
			}
		}
	}
	r.check(n >= 4, "labels:table-stores-in-loops", fmt.Sprintf("%d", n), "too few stores found: rule needs review", "-")
}

// blockObjectOf: the value (parameter, allocation, ...) whose Labels/SBIndices field v is a load of.
func blockObjectOf(v ssa.Value) ssa.Value {
	u, ok := v.(*ssa.UnOp)
	if !ok {
		return v
	}
	fa, ok := u.X.(*ssa.FieldAddr)
	if !ok {
		return v
	}
	x := fa.X
	for i := 0; i < 6; i++ {
		if u2, ok := x.(*ssa.UnOp); ok && u2.Op == token.MUL {
			x = u2.X
			continue
		}
		break
	}
	return x
}

func ruleRemainderLoopOnEverySuccess(r *Run) {
	w := r.W
	n := 0
	for _, name := range []string{"SplitSupervoxel", "SplitSupervoxels"} {
		f := w.method("datatype/common/labels", "PositionedBlock", name)
		if f == nil || len(f.Blocks) == 0 {
			r.undecided("labels.PositionedBlock."+name, "anchor not found")
			continue
		}
		// the remainder loop: a loop that stores into a []uint64 a value read from a field whose name starts with Remain
		var header *ssa.BasicBlock
		for _, b := range f.Blocks {
			for _, in := range b.Instrs {
				st, ok := in.(*ssa.Store)
				if !ok {
					continue
				}
				ia, ok := st.Addr.(*ssa.IndexAddr)
				if !ok {
					continue
				}
				if sl, ok := ia.X.Type().Underlying().(*types.Slice); !ok || sl.Elem().String() != "uint64" {
					continue
				}
				fromRemain := false
				for d := range dataDeps(st.Val) {
					switch x := d.(type) {
					case *ssa.FieldAddr:
						if nm, _, _ := fieldName(x); strings.HasPrefix(nm, "Remain") {
							fromRemain = true
						}
					case *ssa.Field:
						if sty, ok := x.X.Type().Underlying().(*types.Struct); ok && strings.HasPrefix(sty.Field(x.Field).Name(), "Remain") {
							fromRemain = true
						}
					}
				}
				if !fromRemain {
					continue
				}
				if h, _, _ := innermostLoop(f, b); h != nil {
					header = h
				}
			}
		}
		if header == nil {
			r.violation(fname(f)+":remainder-loop", "no loop that writes the remainder label into the voxel array was found: voxels of the split supervoxel outside the split volume keep the retired id", w.fpos(f))
			continue
		}
		n++
		first := header.Instrs[0]
		pth := findPath(f, nil, func(x ssa.Instruction) bool { return x == first }, successExit, nil)
		r.check(pth == nil, fname(f)+":success-behind-the-remainder-loop", "every success return lies behind the remainder loop",
			"a success return can be reached without running the loop that relabels the rest of the supervoxel to its remainder id: in a block the split volume does not touch the retired supervoxel id stays in the voxels (and the kept size is reported as 0) while the index and the mapping say it is gone", w.fpos(f), w.renderPath(pth)...)
	}
	r.check(n >= 2, "labels:remainder-loops", fmt.Sprintf("%d", n), "too few found: rule needs review", "-")
}

func init() {
	register(ruleDef{ID: "R10.10", Prop: "C10", Tier: "quick", Floor: 2,
		Title: "the voxel count of a table slot counts every position that refers to it: in labels.Block.getNumVoxels (the count ReplaceLabel reports) the per-voxel decision in a multi-label sub-block is a lookup in a per-position table filled by the scan of the sub-block's index list — not a comparison of the packed value with one remembered position, which loses all but the last of several positions that name the same slot after a merge",
		Fn:    ruleSlotCountUsesPositionTable})
}

func ruleSlotCountUsesPositionTable(r *Run) {
	w := r.W
	f := w.method("datatype/common/labels", "Block", "getNumVoxels")
	if f == nil || len(f.Blocks) == 0 {
		r.undecided("labels.Block.getNumVoxels", "anchor not found")
		return
	}
	loops := naturalLoops(f)
	depthOf := func(b *ssa.BasicBlock) int {
		d := 0
		for _, set := range loops {
			if set[b] {
				d++
			}
		}
		return d
	}
	n := 0
	for _, b := range f.Blocks {
		for _, in := range b.Instrs {
			bo, ok := in.(*ssa.BinOp)
			if !ok || bo.Op != token.ADD || bo.Type().String() != "uint64" {
				continue
			}
			if k, ok := constInt(bo.Y); !ok || k != 1 {
				continue
			}
			if depthOf(b) < 5 {
				continue // not the per-voxel walk
			}
			n++
			// the nearest test that guards the increment
			viaTable := false
			scalarCompare := ""
			for _, gb := range f.Blocks {
				if len(gb.Instrs) == 0 {
					continue
				}
				ifi, ok := gb.Instrs[len(gb.Instrs)-1].(*ssa.If)
				if !ok || depthOf(gb) < 5 || !(guardedByEdge(ifi, 0, bo) || guardedByEdge(ifi, 1, bo)) {
					continue
				}
				for d := range dataDeps(ifi.Cond) {
					u, ok := d.(*ssa.UnOp)
					if !ok || u.Op != token.MUL {
						continue
					}
					ia, ok := u.X.(*ssa.IndexAddr)
					if !ok {
						continue
					}
					if tableOf(ia.X) != "" || isFieldLoad(ia.X, "Block", "SBValues") || isFieldLoad(ia.X, "Block", "NumSBLabels") {
						continue
					}
					if _, isK := constInt(ia.Index); isK {
						continue
					}
					switch ia.X.(type) {
					case *ssa.Alloc, *ssa.MakeSlice:
						viaTable = true
					}
				}
				if cmp, ok := ifi.Cond.(*ssa.BinOp); ok && cmp.Op == token.EQL {
					if _, isPhi := stripConv(cmp.Y).(*ssa.Phi); isPhi {
						scalarCompare = w.pos(cmp.Pos())
					}
				}
			}
			r.check(viaTable, fmt.Sprintf("getNumVoxels:per-voxel-count#%d:position-table", n), "the per-voxel decision is a lookup in a per-position table",
				"the per-voxel decision compares the packed value with a single remembered position ("+scalarCompare+"): when a sub-block's index list names the slot at two positions — the normal state after a merge — the voxels stored under the first position are not counted, and ReplaceLabel reports fewer voxels than it replaces", w.pos(bo.Pos()))
		}
	}
	r.check(n >= 1, "getNumVoxels:per-voxel-counts", fmt.Sprintf("%d", n), "none found: rule needs review", w.fpos(f))
}

func init() {
	register(ruleDef{ID: "R10.11", Prop: "C10", Tier: "quick", Floor: 1,
		Title: "a merge that cleared a slot redirects the sub-block indices: in Block.MergeLabels every success return that can follow the clearing of a label-table slot lies behind the scan that rewrites the sub-block index list (a cleared slot whose positions are not redirected turns its voxels into label 0); the early return for 'nothing merged' is recognised by its test of the counter that the clearing increments",
		Fn:    ruleMergeRedirectsIndices})
	register(ruleDef{ID: "R10.12", Prop: "C10", Tier: "quick", Floor: 4,
		Title: "reported sizes are counted voxel by voxel: in the split functions of the labels package that return kept/split sizes, every addition or subtraction that feeds a returned size changes it by one and sits in a block entered by a test computed from a voxel of the expanded array (a size credited by run length counts voxels of other labels under the split volume)",
		Fn:    ruleSizesCountedPerVoxel})
}

func ruleMergeRedirectsIndices(r *Run) {
	w := r.W
	f := w.method("datatype/common/labels", "Block", "MergeLabels")
	if f == nil || len(f.Blocks) == 0 {
		r.undecided("labels.Block.MergeLabels", "anchor not found")
		return
	}
	loops := naturalLoops(f)
	// the scan that rewrites SBIndices
	var rewriteHeader *ssa.BasicBlock
	for _, b := range f.Blocks {
		for _, in := range b.Instrs {
			st, ok := in.(*ssa.Store)
			if !ok {
				continue
			}
			if ia, ok := st.Addr.(*ssa.IndexAddr); ok && tableOf(ia.X) == "SBIndices" {
				if h, _, _ := innermostLoop(f, b); h != nil {
					rewriteHeader = h
				}
			}
		}
	}
	if rewriteHeader == nil {
		r.violation("MergeLabels:index-rewrite", "no loop that rewrites the sub-block index list was found: the positions of merged slots are never redirected to the target", w.fpos(f))
		return
	}
	n := 0
	for _, b := range f.Blocks {
		for _, in := range b.Instrs {
			st, ok := in.(*ssa.Store)
			if !ok {
				continue
			}
			ia, ok := st.Addr.(*ssa.IndexAddr)
			if !ok || tableOf(ia.X) != "Labels" {
				continue
			}
			if k, ok := st.Val.(*ssa.Const); !ok || k.Value == nil || k.Value.String() != "0" {
				continue
			}
			n++
			// counters incremented in the clearing block: a later test "counter == 0" is false
			counters := map[ssa.Value]bool{}
			for _, x := range b.Instrs {
				if bo, ok := x.(*ssa.BinOp); ok && bo.Op == token.ADD {
					if k, ok := constInt(bo.Y); ok && k == 1 && strings.HasPrefix(bo.Type().String(), "uint") {
						counters[bo] = true
						counters[bo.X] = true
					}
				}
			}
			isCounter := func(v ssa.Value) bool {
				if counters[v] {
					return true
				}
				if phi, ok := v.(*ssa.Phi); ok {
					for _, e := range phi.Edges {
						if counters[e] {
							return true
						}
					}
				}
				return false
			}
			filter := func(bb *ssa.BasicBlock, i int) bool {
				ifi, ok := bb.Instrs[len(bb.Instrs)-1].(*ssa.If)
				if !ok {
					return true
				}
				bo, ok := ifi.Cond.(*ssa.BinOp)
				if !ok || !isCounter(stripConv(bo.X)) {
					return true
				}
				if k, ok := constInt(bo.Y); !ok || k != 0 {
					return true
				}
				switch bo.Op {
				case token.EQL:
					return i == 1
				case token.NEQ, token.GTR:
					return i == 0
				}
				return true
			}
			first := rewriteHeader.Instrs[0]
			pth := findPath(f, st, func(x ssa.Instruction) bool { return x == first }, successExit, filter)
			_ = loops
			r.check(pth == nil, fmt.Sprintf("MergeLabels:cleared-slot#%d:indices-redirected-before-success", n), "every success return behind the clearing lies behind the index rewrite",
				"a success return can be reached from the clearing of a label-table slot without running the scan that redirects the sub-block indices: the voxels stored under the cleared slot become label 0 instead of the target", w.pos(st.Pos()), w.renderPath(pth)...)
		}
	}
	r.check(n >= 1, "MergeLabels:cleared-slots", fmt.Sprintf("%d", n), "no clearing store found: rule needs review", w.fpos(f))
}

func ruleSizesCountedPerVoxel(r *Run) {
	w := r.W
	n := 0
	for _, f := range w.RepoFuncs {
		if len(f.Blocks) == 0 || relPkg(pkgPathOf(f)) != "datatype/common/labels" || isTestFunc(w, f) {
			continue
		}
		res := f.Signature.Results()
		var sizeIdx []int
		for i := 0; i < res.Len(); i++ {
			if res.At(i).Type().String() == "uint64" && strings.HasSuffix(res.At(i).Name(), "Size") {
				sizeIdx = append(sizeIdx, i)
			}
		}
		if len(sizeIdx) < 2 || !strings.Contains(strings.ToLower(f.Name()), "split") {
			continue
		}
		// an unexported variant that nothing calls (splitFast, "not working at this time") is not part of the build's behaviour
		if !f.Object().Exported() {
			called := false
			for _, cs := range callSitesOf(w)[f] {
				if !isTestFunc(w, cs.Parent()) {
					called = true
				}
			}
			if !called {
				r.check(true, fname(f)+":not-called", "excepted: no call site outside tests (dead code on this tree)", "", w.fpos(f))
				continue
			}
		}
		// the arithmetic that feeds the returned sizes
		feeding := map[*ssa.BinOp]bool{}
		seen := map[ssa.Value]bool{}
		var walk func(v ssa.Value)
		walk = func(v ssa.Value) {
			if v == nil || seen[v] {
				return
			}
			seen[v] = true
			switch x := v.(type) {
			case *ssa.Phi:
				for _, e := range x.Edges {
					walk(e)
				}
			case *ssa.BinOp:
				if x.Op == token.ADD || x.Op == token.SUB {
					feeding[x] = true
					walk(x.X)
				}
			case *ssa.UnOp:
				if al, ok := x.X.(*ssa.Alloc); ok && x.Op == token.MUL {
					for _, ref := range *al.Referrers() {
						if st, ok := ref.(*ssa.Store); ok && st.Addr == ssa.Value(al) {
							walk(st.Val)
						}
					}
				}
			}
		}
		for _, b := range f.Blocks {
			if ret, ok := b.Instrs[len(b.Instrs)-1].(*ssa.Return); ok {
				for _, i := range sizeIdx {
					if i < len(ret.Results) {
						walk(ret.Results[i])
					}
				}
			}
		}
		if len(feeding) == 0 {
			continue
		}
		var bos []*ssa.BinOp
		for bo := range feeding {
			bos = append(bos, bo)
		}
		sort.Slice(bos, func(i, j int) bool { return bos[i].Pos() < bos[j].Pos() })
		for k, bo := range bos {
			n++
			one := false
			if c, ok := constInt(bo.Y); ok && c == 1 {
				one = true
			}
			// entered by a test of a voxel
			tested := false
			for _, gb := range f.Blocks {
				if len(gb.Instrs) == 0 {
					continue
				}
				ifi, ok := gb.Instrs[len(gb.Instrs)-1].(*ssa.If)
				if !ok || !(guardedByEdge(ifi, 0, bo) || guardedByEdge(ifi, 1, bo)) {
					continue
				}
				for d := range dataDeps(ifi.Cond) {
					u, ok := d.(*ssa.UnOp)
					if !ok || u.Op != token.MUL {
						continue
					}
					if ia, ok := u.X.(*ssa.IndexAddr); ok {
						if sl, ok := ia.X.Type().Underlying().(*types.Slice); ok && sl.Elem().String() == "uint64" {
							tested = true
						}
					}
				}
			}
			r.check(one && tested, fmt.Sprintf("%s:size-arithmetic#%d:one-per-tested-voxel", fname(f), k+1), "the size changes by one behind a test of a voxel",
				"a returned size is changed by something other than one, or in a block that is not entered by a test of a voxel of the expanded array: voxels of other labels under the split volume are counted as split (and the kept size can underflow), so the reported sizes differ from the voxels moved", w.pos(bo.Pos()))
		}
	}
	r.check(n >= 4, "labels:size-arithmetic", fmt.Sprintf("%d", n), "too few found: rule needs review", "-")
}

func init() {
	register(ruleDef{ID: "R10.14", Prop: "C10", Tier: "quick", Floor: 4,
		Title: "a run starts at the voxel it names: in the split functions of the labels package the array index at which a run's loop starts is a sum of products of the run's start point and the block's Size in which the x term carries no size, the y term exactly Size[0] and the z term exactly Size[0] and Size[1] (a y stride of Size[1] relabels the wrong voxels of every non-cubic block, and the statistics pass and the split pass disagree)",
		Fn:    ruleRunStartStrides})
}

func ruleRunStartStrides(r *Run) {
	w := r.W
	n := 0
	for li, rl := range c10RunLoops(w) {
		f := rl.f
		// the value the index has on entering the loop
		var start ssa.Value
		for i, e := range rl.idx.Edges {
			if !rl.set[rl.header.Preds[i]] {
				start = e
			}
		}
		if start == nil {
			continue
		}
		classify := func(v ssa.Value) (string, int64) {
			v = stripConv(v)
			var base ssa.Value
			axis := int64(-1)
			switch x := v.(type) {
			case *ssa.Index:
				base = x.X
				if c, ok := constInt(x.Index); ok {
					axis = c
				}
			case *ssa.UnOp:
				if ia, ok := x.X.(*ssa.IndexAddr); ok {
					base = ia.X
					if c, ok := constInt(ia.Index); ok {
						axis = c
					}
				}
			}
			if base == nil || axis < 0 {
				return "other", -1
			}
			// the block's Size field?
			if fa, ok := base.(*ssa.FieldAddr); ok {
				if nm, _, _ := fieldName(fa); nm == "Size" {
					return "size", axis
				}
			}
			for d := range dataDeps(base) {
				switch x := d.(type) {
				case *ssa.FieldAddr:
					if nm, _, _ := fieldName(x); nm == "Size" {
						return "size", axis
					}
				case *ssa.Field:
					if st, ok := x.X.Type().Underlying().(*types.Struct); ok && st.Field(x.Field).Name() == "Size" {
						return "size", axis
					}
				case *ssa.Call:
					if methodNameOf(x) == "StartPt" {
						return "coord", axis
					}
				}
			}
			return "other", -1
		}
		var expand func(v ssa.Value, depth int) [][]ssa.Value
		expand = func(v ssa.Value, depth int) [][]ssa.Value {
			v = stripConv(v)
			if depth > 12 {
				return [][]ssa.Value{{v}}
			}
			if bo, ok := v.(*ssa.BinOp); ok {
				switch bo.Op {
				case token.ADD:
					return append(expand(bo.X, depth+1), expand(bo.Y, depth+1)...)
				case token.MUL:
					var out [][]ssa.Value
					for _, a := range expand(bo.X, depth+1) {
						for _, b := range expand(bo.Y, depth+1) {
							out = append(out, append(append([]ssa.Value{}, a...), b...))
						}
					}
					return out
				}
			}
			return [][]ssa.Value{{v}}
		}
		coords := 0
		bad := ""
		for _, m := range expand(start, 0) {
			caxis := int64(-1)
			var sizes []int64
			for _, a := range m {
				kind, ax := classify(a)
				switch kind {
				case "coord":
					caxis = ax
				case "size":
					sizes = append(sizes, ax)
				}
			}
			if caxis < 0 {
				continue
			}
			coords++
			sort.Slice(sizes, func(i, j int) bool { return sizes[i] < sizes[j] })
			var want []int64
			for a := int64(0); a < caxis; a++ {
				want = append(want, a)
			}
			if fmt.Sprint(sizes) != fmt.Sprint(want) {
				bad = fmt.Sprintf("the term of start component %d is multiplied by Size components %v, expected %v", caxis, sizes, want)
			}
		}
		if coords < 3 {
			continue
		}
		n++
		r.check(bad == "", fmt.Sprintf("%s:run-loop#%d:start-index-strides", fname(f), li+1), "x carries no size, y Size[0], z Size[0]·Size[1]",
			"the array index at which a run starts uses a wrong stride ("+bad+"): in a block whose x and y extents differ the run is applied to other voxels than the ones it names", w.pos(blockPos(rl.header)))
	}
	r.check(n >= 4, "labels:run-start-indices", fmt.Sprintf("%d", n), "too few found: rule needs review", "-")
}
