package main

import (
	"fmt"
	"go/token"
	"go/types"
	"sort"
	"strings"

	"golang.org/x/tools/go/ssa"
)

// E5 — guarded decode.  For a decoder of untrusted bytes, every slice expression x[lo:hi] and
// index expression x[i] on a byte buffer must be dominated by comparisons that imply hi ≤ len(x)
// (resp. i < len(x)).  Bounds and guards are compared as linear forms over SSA values
// (mathematical integers: machine-width wrap-around is not modelled, stated in the evidence).

type linForm struct {
	terms map[string]int64 // atom key → coefficient
	c     int64
	ok    bool
}

func (l linForm) String() string {
	var ks []string
	for k, v := range l.terms {
		ks = append(ks, fmt.Sprintf("%d*%s", v, k))
	}
	sort.Strings(ks)
	return fmt.Sprintf("%s + %d", strings.Join(ks, " + "), l.c)
}

func linConst(c int64) linForm { return linForm{terms: map[string]int64{}, c: c, ok: true} }
func linAtom(k string) linForm  { return linForm{terms: map[string]int64{k: 1}, ok: true} }
func (l linForm) add(o linForm, sign int64) linForm {
	if !l.ok || !o.ok {
		return linForm{}
	}
	r := linForm{terms: map[string]int64{}, c: l.c + sign*o.c, ok: true}
	for k, v := range l.terms {
		r.terms[k] += v
	}
	for k, v := range o.terms {
		r.terms[k] += sign * v
	}
	for k, v := range r.terms {
		if v == 0 {
			delete(r.terms, k)
		}
	}
	return r
}
func (l linForm) scale(k int64) linForm {
	if !l.ok {
		return l
	}
	r := linForm{terms: map[string]int64{}, c: l.c * k, ok: true}
	for a, v := range l.terms {
		if v*k != 0 {
			r.terms[a] = v * k
		}
	}
	return r
}
func (l linForm) sameVars(o linForm) bool {
	if len(l.terms) != len(o.terms) {
		return false
	}
	for k, v := range l.terms {
		if o.terms[k] != v {
			return false
		}
	}
	return true
}

// bufKey canonicalises a buffer value so that len(x) of two loads of the same variable agree.
func bufKey(v ssa.Value) string {
	v = stripConv(v)
	if u, ok := v.(*ssa.UnOp); ok && u.Op == token.MUL {
		return "load(" + addrKey(u.X) + ")"
	}
	return fmt.Sprintf("%s@%p", v.Name(), v)
}

// linBind: parameters of integer helpers lin has entered, bound to the arguments of the call it came through.
var linBind = map[*ssa.Parameter]ssa.Value{}

func lin(v ssa.Value, depth int) linForm {
	if depth > 12 {
		return linForm{}
	}
	switch x := v.(type) {
	case *ssa.Const:
		if k, ok := constInt(x); ok {
			return linConst(k)
		}
		return linForm{}
	case *ssa.Convert:
		if isIntType(x.Type()) && isIntType(x.X.Type()) {
			return lin(x.X, depth+1)
		}
	case *ssa.ChangeType:
		return lin(x.X, depth+1)
	case *ssa.BinOp:
		switch x.Op {
		case token.ADD:
			return lin(x.X, depth+1).add(lin(x.Y, depth+1), 1)
		case token.SUB:
			return lin(x.X, depth+1).add(lin(x.Y, depth+1), -1)
		case token.MUL:
			if k, ok := constInt(x.Y); ok {
				return lin(x.X, depth+1).scale(k)
			}
			if k, ok := constInt(x.X); ok {
				return lin(x.Y, depth+1).scale(k)
			}
		case token.SHL:
			if k, ok := constInt(x.Y); ok && k >= 0 && k < 32 {
				return lin(x.X, depth+1).scale(1 << uint(k))
			}
		}
	case *ssa.Call:
		if bi, ok := x.Call.Value.(*ssa.Builtin); ok && bi.Name() == "len" {
			arg := x.Call.Args[0]
			if prm, isP := stripConv(arg).(*ssa.Parameter); isP {
				if b, bound := linBind[prm]; bound {
					arg = b
				}
			}
			return linAtom("len(" + bufKey(arg) + ")")
		}
		// a one-block integer helper of the repository (versionOffset(k) = len(k) - 9): its returned expression with
		// the parameters bound to the arguments
		if g := x.Call.StaticCallee(); g != nil && inRepo(g) && len(g.Blocks) == 1 && isIntType(x.Type()) && len(g.Params) == len(x.Call.Args) {
			if ret, ok := g.Blocks[0].Instrs[len(g.Blocks[0].Instrs)-1].(*ssa.Return); ok && len(ret.Results) == 1 {
				for i, prm := range g.Params {
					linBind[prm] = x.Call.Args[i]
				}
				return lin(ret.Results[0], depth+1)
			}
		}
	case *ssa.Parameter:
		if b, bound := linBind[x]; bound && depth < 10 {
			return lin(b, depth+1)
		}
	case *ssa.UnOp:
		// load of a struct field: the value last stored to the same place on the straight-line
		// path to here, else the field's value at function entry
		if fa, ok := x.X.(*ssa.FieldAddr); ok && x.Op == token.MUL && isIntType(x.Type()) {
			if st := lastFieldStoreBefore(fa, x); st != nil {
				return lin(st, depth+1)
			}
			return linAtom("entry:" + addrKey(fa))
		}
	}
	return linAtom(fmt.Sprintf("%s@%p", v.Name(), v))
}

func isIntType(t types.Type) bool {
	b, ok := t.Underlying().(*types.Basic)
	return ok && b.Info()&types.IsInteger != 0
}

// fact: form ≤ 0 holds on the given edge.
type boundFact struct {
	form linForm
	ifi  *ssa.If
	succ int
}

// factsOf extracts, for each If on an integer comparison, the facts holding on its two edges.
func factsOf(f *ssa.Function) []boundFact {
	var out []boundFact
	for _, b := range f.Blocks {
		if len(b.Instrs) == 0 {
			continue
		}
		ifi, ok := b.Instrs[len(b.Instrs)-1].(*ssa.If)
		if !ok {
			continue
		}
		bo, ok := ifi.Cond.(*ssa.BinOp)
		if !ok || !isIntType(bo.X.Type()) {
			continue
		}
		x, y := lin(bo.X, 0), lin(bo.Y, 0)
		if !x.ok || !y.ok {
			continue
		}
		d := x.add(y, -1) // x - y
		le := func(form linForm, k int64) linForm { return form.add(linConst(k), 1) } // form + k ≤ 0
		neg := d.scale(-1)
		var t, fl []linForm
		switch bo.Op {
		case token.LSS: // x<y: x-y+1 ≤ 0 ; else y-x ≤ 0
			t, fl = []linForm{le(d, 1)}, []linForm{neg}
		case token.LEQ:
			t, fl = []linForm{d}, []linForm{le(neg, 1)}
		case token.GTR: // x>y: y-x+1 ≤ 0 ; else x-y ≤ 0
			t, fl = []linForm{le(neg, 1)}, []linForm{d}
		case token.GEQ:
			t, fl = []linForm{neg}, []linForm{le(d, 1)}
		case token.EQL:
			t = []linForm{d, neg}
		case token.NEQ:
			fl = []linForm{d, neg}
		}
		for _, ff := range t {
			out = append(out, boundFact{ff, ifi, 0})
		}
		for _, ff := range fl {
			out = append(out, boundFact{ff, ifi, 1})
		}
	}
	return out
}

// implied: obligation form ≤ 0 follows from a single dominating fact with the same variable part
// (or is a constant truth).
func implied(ob linForm, at ssa.Instruction, facts []boundFact) bool {
	if !ob.ok {
		return false
	}
	if len(ob.terms) == 0 {
		return ob.c <= 0
	}
	for _, ft := range facts {
		if ft.form.sameVars(ob) && ob.c <= ft.form.c && guardedByEdge(ft.ifi, ft.succ, at) {
			return true
		}
	}
	return false
}

type boundViolation struct {
	In     ssa.Instruction
	What   string
	Bound  string
	Buffer string
}

// checkBufferBounds checks every Slice / IndexAddr / string index on byte buffers in f.  only, if
// non-nil, restricts the buffers considered (by root).  It returns (sites examined, violations).
func checkBufferBounds(f *ssa.Function, only func(buf ssa.Value) bool) (int, []boundViolation) {
	facts := factsOf(f)
	var out []boundViolation
	n := 0
	isBytes := func(t types.Type) bool {
		if s, ok := t.Underlying().(*types.Slice); ok {
			if b, ok := s.Elem().Underlying().(*types.Basic); ok && (b.Kind() == types.Byte || b.Kind() == types.Uint8) {
				return true
			}
		}
		return false
	}
	for _, b := range f.Blocks {
		for _, in := range b.Instrs {
			switch x := in.(type) {
			case *ssa.Slice:
				if (only == nil && !isBytes(x.X.Type())) || (only != nil && !only(x.X)) {
					continue
				}
				lenX := lenOfBuffer(x.X)
				if x.High != nil {
					n++
					ob := lin(x.High, 0).add(lenX, -1) // hi - len ≤ 0
					// cap(x) ≥ len(x): slicing up to cap is legal but for decoded data len is the contract
					if !implied(ob, in, facts) {
						out = append(out, boundViolation{in, "slice high bound", lin(x.High, 0).String(), bufKey(x.X)})
					}
				} else if x.Low != nil {
					n++
					ob := lin(x.Low, 0).add(lenX, -1) // lo - len ≤ 0
					if !implied(ob, in, facts) {
						out = append(out, boundViolation{in, "slice low bound", lin(x.Low, 0).String(), bufKey(x.X)})
					}
				}
			case *ssa.IndexAddr:
				if (only == nil && !isBytes(x.X.Type())) || (only != nil && !only(x.X)) {
					continue
				}
				lenX := lenOfBuffer(x.X)
				if only == nil && len(lenX.terms) == 0 && !isDataDerived(x.Index, 0, map[ssa.Value]bool{}) {
					continue // fixed-size local buffer indexed by a counter: not an input-controlled access
				}
				n++
				ob := lin(x.Index, 0).add(lenX, -1).add(linConst(1), 1) // i - len + 1 ≤ 0
				if !implied(ob, in, facts) {
					out = append(out, boundViolation{in, "index", lin(x.Index, 0).String(), bufKey(x.X)})
				}
			}
		}
	}
	return n, out
}

// lastFieldStoreBefore finds the value most recently stored to the same field place (by access
// path) before `at`, walking back through single-predecessor blocks; nil if none.  A call in
// between is assumed not to write the field (the callers of this helper work inside one critical
// section on the field's own lock).
func lastFieldStoreBefore(fa *ssa.FieldAddr, at ssa.Instruction) ssa.Value {
	key := addrKey(fa)
	b := at.Block()
	idx := instrIndex(at)
	for hops := 0; hops < 12; hops++ {
		for i := idx - 1; i >= 0; i-- {
			if st, ok := b.Instrs[i].(*ssa.Store); ok {
				if fa2, ok := st.Addr.(*ssa.FieldAddr); ok && addrKey(fa2) == key {
					return st.Val
				}
			}
		}
		if len(b.Preds) != 1 {
			return nil
		}
		b = b.Preds[0]
		idx = len(b.Instrs)
	}
	return nil
}

// lenOfBuffer: the length of a buffer as a linear form: a constant for buffers allocated in the
// function with a constant size (make([]byte, 16), [N]byte arrays), else the atom len(buf).
func lenOfBuffer(v ssa.Value) linForm {
	x := stripConv(v)
	for i := 0; i < 4; i++ {
		switch b := x.(type) {
		case *ssa.MakeSlice:
			if k, ok := constInt(b.Len); ok {
				return linConst(k)
			}
		case *ssa.Slice:
			if al, ok := b.X.(*ssa.Alloc); ok && (b.Low == nil || isZeroConst(b.Low)) {
				if p, ok := al.Type().(*types.Pointer); ok {
					if arr, ok := p.Elem().Underlying().(*types.Array); ok {
						if b.High == nil {
							return linConst(arr.Len())
						}
						if k, ok := constInt(b.High); ok {
							return linConst(k)
						}
					}
				}
			}
		case *ssa.UnOp:
			// load of a local that holds such a buffer (unique store)
			if al, ok := b.X.(*ssa.Alloc); ok {
				var val ssa.Value
				n := 0
				for _, ref := range *al.Referrers() {
					if st, ok := ref.(*ssa.Store); ok && st.Addr == ssa.Value(al) {
						val = st.Val
						n++
					}
				}
				if n == 1 {
					x = stripConv(val)
					continue
				}
			}
		}
		break
	}
	return linAtom("len(" + bufKey(v) + ")")
}

// isDataDerived: v depends on bytes of an input (an integer decoded by encoding/binary, an element
// of a byte buffer, or a length of a parameter).
func isDataDerived(v ssa.Value, depth int, seen map[ssa.Value]bool) bool {
	if v == nil || depth > 10 || seen[v] {
		return false
	}
	seen[v] = true
	switch x := v.(type) {
	case *ssa.Const:
		return false
	case *ssa.BinOp:
		return isDataDerived(x.X, depth+1, seen) || isDataDerived(x.Y, depth+1, seen)
	case *ssa.Convert:
		return isDataDerived(x.X, depth+1, seen)
	case *ssa.ChangeType:
		return isDataDerived(x.X, depth+1, seen)
	case *ssa.Phi:
		for _, e := range x.Edges {
			if isDataDerived(e, depth+1, seen) {
				return true
			}
		}
		return false
	case *ssa.UnOp:
		if x.Op == token.MUL {
			if _, ok := x.X.(*ssa.IndexAddr); ok {
				return true // element of a buffer
			}
			if al, ok := x.X.(*ssa.Alloc); ok {
				for _, ref := range *al.Referrers() {
					if st, ok := ref.(*ssa.Store); ok && st.Addr == ssa.Value(al) && isDataDerived(st.Val, depth+1, seen) {
						return true
					}
				}
				return false
			}
			return true // field / pointer load: unknown provenance
		}
		return isDataDerived(x.X, depth+1, seen)
	case *ssa.Call:
		if bi, ok := x.Call.Value.(*ssa.Builtin); ok && bi.Name() == "len" {
			return true
		}
		return true
	case *ssa.Extract:
		return true
	case *ssa.Parameter:
		return true
	}
	return true
}
