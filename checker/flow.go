package main

import (
	"go/constant"
	"go/token"
	"go/types"
	"strings"

	"golang.org/x/tools/go/callgraph"
	"golang.org/x/tools/go/ssa"
)

// ---------------------------------------------------------------------------------------------
// call resolution

// staticCallee returns the statically known callee (function, method or closure) of a call.
func staticCallee(c ssa.CallInstruction) *ssa.Function {
	return c.Common().StaticCallee()
}

// calleeObj returns the *types.Func called (for invoke-mode calls the interface method; for
// static calls the function's object), or nil for calls through plain function values.
func calleeObj(c ssa.CallInstruction) *types.Func {
	cc := c.Common()
	if cc.IsInvoke() {
		return cc.Method
	}
	if f := cc.StaticCallee(); f != nil {
		if o, ok := f.Object().(*types.Func); ok {
			return o
		}
	}
	return nil
}

// isCallTo reports whether c is a call (static or interface-dispatched) of a function named name
// whose declaring package path ends in pkgSuffix ("" = any).  recv, when non-empty, must equal the
// receiver's named type (without pointer) or the interface's name.
func isCallTo(c ssa.CallInstruction, pkgSuffix, recv, name string) bool {
	o := calleeObj(c)
	if o == nil || o.Name() != name {
		return false
	}
	return objMatches(o, pkgSuffix, recv)
}

func objMatches(o *types.Func, pkgSuffix, recv string) bool {
	if pkgSuffix != "" {
		if o.Pkg() == nil {
			return false
		}
		p := o.Pkg().Path()
		if p != pkgSuffix && !strings.HasSuffix(p, "/"+pkgSuffix) {
			return false
		}
	}
	if recv == "*" {
		return true
	}
	sig := o.Type().(*types.Signature)
	if recv == "" {
		return sig.Recv() == nil
	}
	if sig.Recv() == nil {
		return false
	}
	return recvName(sig.Recv().Type()) == recv
}

func recvName(t types.Type) string {
	if p, ok := t.(*types.Pointer); ok {
		t = p.Elem()
	}
	if n, ok := t.(*types.Named); ok {
		return n.Obj().Name()
	}
	return ""
}

// funcValues returns function values syntactically passed as arguments of the call (closures,
// named functions, bound method values): the callback-argument device of DESIGN §1.2.
func funcValues(c ssa.CallInstruction) []*ssa.Function {
	var out []*ssa.Function
	for _, a := range c.Common().Args {
		out = append(out, funcsOfValue(a, 0)...)
	}
	return out
}

func funcsOfValue(v ssa.Value, depth int) []*ssa.Function {
	if depth > 4 {
		return nil
	}
	switch x := v.(type) {
	case *ssa.Function:
		return []*ssa.Function{x}
	case *ssa.MakeClosure:
		if f, ok := x.Fn.(*ssa.Function); ok {
			return []*ssa.Function{f}
		}
	case *ssa.ChangeType:
		return funcsOfValue(x.X, depth+1)
	case *ssa.MakeInterface:
		return funcsOfValue(x.X, depth+1)
	case *ssa.Phi:
		var out []*ssa.Function
		for _, e := range x.Edges {
			out = append(out, funcsOfValue(e, depth+1)...)
		}
		return out
	}
	return nil
}

// isFuncParamCall reports a dynamic call through a function-typed parameter or free variable of
// the enclosing function (its targets are charged to the enclosing function's call sites instead).
func isFuncParamCall(c ssa.CallInstruction) bool {
	cc := c.Common()
	if cc.IsInvoke() || cc.StaticCallee() != nil {
		return false
	}
	switch cc.Value.(type) {
	case *ssa.Parameter, *ssa.FreeVar:
		return true
	}
	return false
}

// Callees returns the possible callees of a call instruction: the static callee, or the VTA
// targets of a dynamic/interface call (except calls through function-typed parameters), plus the
// function values passed as arguments.
func (w *World) Callees(c ssa.CallInstruction) []*ssa.Function {
	var out []*ssa.Function
	if f := staticCallee(c); f != nil {
		out = append(out, f)
	} else if !isFuncParamCall(c) {
		if n := w.CG().Nodes[c.Parent()]; n != nil {
			for _, e := range n.Out {
				if e.Site == c {
					out = append(out, e.Callee.Func)
				}
			}
		}
	}
	out = append(out, funcValues(c)...)
	return out
}

var _ = callgraph.Edge{}

// calls lists the call instructions (call, go, defer) of f in block order.
func calls(f *ssa.Function) []ssa.CallInstruction {
	var out []ssa.CallInstruction
	for _, b := range f.Blocks {
		for _, in := range b.Instrs {
			if c, ok := in.(ssa.CallInstruction); ok {
				out = append(out, c)
			}
		}
	}
	return out
}

// Reach computes, with memoisation, whether a function can reach (through Callees, including its
// closures when they are created inside it) a call instruction satisfying sink.
type Reach struct {
	w     *World
	sink  func(c ssa.CallInstruction) bool
	skip  func(f *ssa.Function) bool // functions not entered
	memo  map[*ssa.Function]*reachRes
	Limit int
}
type reachRes struct {
	done  bool
	hit   bool
	via   ssa.CallInstruction // call site in this function leading to the sink
	next  *ssa.Function       // callee through which the sink is reached (nil if via is the sink)
}

func (w *World) newReach(sink func(c ssa.CallInstruction) bool, skip func(f *ssa.Function) bool) *Reach {
	return &Reach{w: w, sink: sink, skip: skip, memo: map[*ssa.Function]*reachRes{}}
}

// From reports whether f reaches a sink.  Recursion cycles are resolved by a worklist fixpoint.
func (r *Reach) From(f *ssa.Function) bool {
	if f == nil {
		return false
	}
	if m, ok := r.memo[f]; ok && m.done {
		return m.hit
	}
	// iterative DFS collecting the sub-graph, then propagate hits backwards
	type node struct {
		f     *ssa.Function
		succs []*ssa.Function
		sites []ssa.CallInstruction
	}
	nodes := map[*ssa.Function]*node{}
	var order []*ssa.Function
	var stack []*ssa.Function
	stack = append(stack, f)
	for len(stack) > 0 {
		g := stack[len(stack)-1]
		stack = stack[:len(stack)-1]
		if _, ok := nodes[g]; ok {
			continue
		}
		if m, ok := r.memo[g]; ok && m.done {
			continue
		}
		n := &node{f: g}
		nodes[g] = n
		order = append(order, g)
		res := &reachRes{}
		r.memo[g] = res
		if g.Blocks == nil || (r.skip != nil && r.skip(g)) {
			continue
		}
		for _, c := range calls(g) {
			if r.sink(c) {
				if !res.hit {
					res.hit, res.via, res.next = true, c, nil
				}
				continue
			}
			for _, callee := range r.w.Callees(c) {
				n.succs = append(n.succs, callee)
				n.sites = append(n.sites, c)
				stack = append(stack, callee)
			}
		}
	}
	changed := true
	for changed {
		changed = false
		for _, g := range order {
			res := r.memo[g]
			if res.hit {
				continue
			}
			n := nodes[g]
			for i, s := range n.succs {
				if m := r.memo[s]; m != nil && m.hit {
					res.hit, res.via, res.next = true, n.sites[i], s
					changed = true
					break
				}
			}
		}
	}
	for _, g := range order {
		r.memo[g].done = true
	}
	return r.memo[f].hit
}

// Path renders the witness call chain from f to the sink.
func (r *Reach) Path(f *ssa.Function) []string {
	var out []string
	seen := map[*ssa.Function]bool{}
	for f != nil && !seen[f] {
		seen[f] = true
		m := r.memo[f]
		if m == nil || !m.hit {
			break
		}
		out = append(out, fname(f)+" @ "+r.w.pos(m.via.Pos())+" → "+callDesc(m.via))
		f = m.next
	}
	return out
}

func callDesc(c ssa.CallInstruction) string {
	cc := c.Common()
	if cc.IsInvoke() {
		return "(" + types.TypeString(cc.Value.Type(), shortQual) + ")." + cc.Method.Name()
	}
	if f := cc.StaticCallee(); f != nil {
		return fname(f)
	}
	return "dynamic call " + cc.Value.Name()
}

func shortQual(p *types.Package) string { return p.Name() }

// ---------------------------------------------------------------------------------------------
// instruction positions & dominance

func instrIndex(in ssa.Instruction) int {
	for i, x := range in.Block().Instrs {
		if x == in {
			return i
		}
	}
	return -1
}

// domInstr reports whether instruction a dominates instruction b (same function).
func domInstr(a, b ssa.Instruction) bool {
	if a.Block() == b.Block() {
		return instrIndex(a) < instrIndex(b)
	}
	return a.Block().Dominates(b.Block())
}

// ---------------------------------------------------------------------------------------------
// path search inside one function

// edgeFilter decides whether the CFG edge from block b to its succ index i is feasible.
type edgeFilter func(b *ssa.BasicBlock, i int) bool

// findPath searches for a path of blocks starting at instruction `from` (nil = function entry)
// to an instruction satisfying target, not passing through any instruction satisfying barrier.
// It returns the witness as the list of instructions (barrier-free) leading to the target, or nil.
func findPath(f *ssa.Function, from ssa.Instruction, barrier, target func(ssa.Instruction) bool, feasible edgeFilter) []ssa.Instruction {
	return findPath2(f, from, barrier, target, feasible, nil)
}

// predFilter additionally sees the block through which b was entered (nil at the start).
type predFilter func(pred, b *ssa.BasicBlock, succIdx int) bool

// wrapperBarriers: a plain call of a function of the same package all of whose returns lie behind an instruction the
// barrier accepts is itself accepted as the barrier (the step was moved into a helper: putSavedID(store),
// logMappedSet(...), lockedNodeRequestAllowed(...)).  One level; the helper is searched with the caller's predicate.
var wrapperBarriers = true
var wrapDepth int

func findPath2(f *ssa.Function, from ssa.Instruction, barrier, target func(ssa.Instruction) bool, feasible edgeFilter, pf predFilter) []ssa.Instruction {
	if len(f.Blocks) == 0 {
		return nil
	}
	if barrier != nil && wrapperBarriers && wrapDepth == 0 {
		orig := barrier
		memo := map[*ssa.Function]bool{}
		barrier = func(in ssa.Instruction) bool {
			if orig(in) {
				return true
			}
			c, ok := in.(*ssa.Call)
			if !ok {
				return false
			}
			g := c.Call.StaticCallee()
			if g == nil || g == f || len(g.Blocks) == 0 || len(g.Blocks) > 80 || g.Pkg == nil || g.Pkg != f.Pkg || g.Parent() != nil {
				return false
			}
			if v, ok := memo[g]; ok {
				return v
			}
			memo[g] = false
			has := false
			for _, b := range g.Blocks {
				for _, x := range b.Instrs {
					if orig(x) {
						has = true
						break
					}
				}
				if has {
					break
				}
			}
			if !has {
				return false
			}
			wrapDepth++
			p := findPath2(g, nil, orig, func(x ssa.Instruction) bool { _, isRet := x.(*ssa.Return); return isRet }, nil, nil)
			wrapDepth--
			memo[g] = p == nil
			return memo[g]
		}
	}
	type item struct {
		b    *ssa.BasicBlock
		pred *ssa.BasicBlock
		idx  int
		prev *item
	}
	startB, startI := f.Blocks[0], 0
	if from != nil {
		startB, startI = from.Block(), instrIndex(from)+1
	}
	type key struct{ b, p *ssa.BasicBlock }
	visited := map[key]bool{}
	queue := []*item{{b: startB, idx: startI}}
	for len(queue) > 0 {
		it := queue[0]
		queue = queue[1:]
		blocked := false
		for i := it.idx; i < len(it.b.Instrs); i++ {
			in := it.b.Instrs[i]
			if barrier != nil && barrier(in) {
				blocked = true
				break
			}
			if target(in) {
				var rev []ssa.Instruction
				rev = append(rev, in)
				for p := it; p != nil; p = p.prev {
					if len(p.b.Instrs) > 0 {
						rev = append(rev, p.b.Instrs[len(p.b.Instrs)-1])
					}
				}
				var out []ssa.Instruction
				for i := len(rev) - 1; i >= 1; i-- {
					if rev[i].Block() != in.Block() {
						out = append(out, rev[i])
					}
				}
				out = append(out, in)
				return out
			}
		}
		if blocked {
			continue
		}
		for i, s := range it.b.Succs {
			if feasible != nil && !feasible(it.b, i) {
				continue
			}
			if pf != nil && !pf(it.pred, it.b, i) {
				continue
			}
			k := key{s, it.b}
			if pf == nil {
				k = key{s, nil}
			}
			if visited[k] {
				continue
			}
			visited[k] = true
			queue = append(queue, &item{b: s, pred: it.b, idx: 0, prev: it})
		}
	}
	return nil
}

// nonEmptyRangeFilter returns a predFilter that forbids leaving a `for range s` loop header
// straight from its preheader (zero iterations) when s is known non-empty: a dominating test
// `len(s) < K` (K ≥ 1) or `len(s) == 0` whose true edge does not reach the loop.
func nonEmptyRangeFilter(f *ssa.Function) predFilter {
	type hdr struct{ pre *ssa.BasicBlock }
	headers := map[*ssa.BasicBlock]*ssa.BasicBlock{}
	for _, b := range f.Blocks {
		if len(b.Instrs) == 0 {
			continue
		}
		ifi, ok := b.Instrs[len(b.Instrs)-1].(*ssa.If)
		if !ok {
			continue
		}
		bo, ok := ifi.Cond.(*ssa.BinOp)
		if !ok || bo.Op != token.LSS {
			continue
		}
		lenCall, ok := bo.Y.(*ssa.Call)
		if !ok {
			continue
		}
		bi, ok := lenCall.Call.Value.(*ssa.Builtin)
		if !ok || bi.Name() != "len" {
			continue
		}
		// bo.X = i+1 where i = phi(-1, ...)
		add, ok := bo.X.(*ssa.BinOp)
		if !ok || add.Op != token.ADD {
			continue
		}
		phi, ok := add.X.(*ssa.Phi)
		if !ok || phi.Block() != b {
			continue
		}
		var pre *ssa.BasicBlock
		for i, e := range phi.Edges {
			if k, ok := constInt(e); ok && k == -1 {
				pre = b.Preds[i]
			}
		}
		if pre == nil {
			continue
		}
		slice := lenCall.Call.Args[0]
		// dominating emptiness test
		for _, d := range f.Blocks {
			if !d.Dominates(b) || d == b || len(d.Instrs) == 0 {
				continue
			}
			dif, ok := d.Instrs[len(d.Instrs)-1].(*ssa.If)
			if !ok {
				continue
			}
			dbo, ok := dif.Cond.(*ssa.BinOp)
			if !ok {
				continue
			}
			lc, ok := dbo.X.(*ssa.Call)
			if !ok {
				continue
			}
			dbi, ok := lc.Call.Value.(*ssa.Builtin)
			if !ok || dbi.Name() != "len" || lc.Call.Args[0] != slice {
				continue
			}
			k, ok := constInt(dbo.Y)
			if !ok {
				continue
			}
			emptyOnTrue := (dbo.Op == token.LSS && k >= 1) || (dbo.Op == token.EQL && k == 0) || (dbo.Op == token.LEQ && k >= 0)
			if emptyOnTrue && d.Succs[1].Dominates(b) && len(d.Succs[1].Preds) == 1 {
				headers[b] = pre
			}
		}
	}
	return func(pred, b *ssa.BasicBlock, succIdx int) bool {
		if pre, ok := headers[b]; ok && pred == pre && succIdx == 1 {
			return false
		}
		return true
	}
}

func (w *World) renderPath(p []ssa.Instruction) []string {
	var out []string
	for _, in := range p {
		pos := in.Pos()
		if !pos.IsValid() {
			// terminators often have no position: use the block's first positioned instruction
			for _, x := range in.Block().Instrs {
				if x.Pos().IsValid() {
					pos = x.Pos()
					break
				}
			}
		}
		out = append(out, "block "+itoa(in.Block().Index)+" "+w.pos(pos)+": "+short(in.String(), 100))
	}
	return out
}

func itoa(i int) string {
	if i == 0 {
		return "0"
	}
	neg := i < 0
	if neg {
		i = -i
	}
	var b []byte
	for i > 0 {
		b = append([]byte{byte('0' + i%10)}, b...)
		i /= 10
	}
	if neg {
		b = append([]byte{'-'}, b...)
	}
	return string(b)
}

// ---------------------------------------------------------------------------------------------
// error / success exits (DESIGN §1.3)

var errorType = types.Universe.Lookup("error").Type()

func isErrorType(t types.Type) (res bool) {
	if t == nil {
		return false
	}
	if _, isTuple := t.(*types.Tuple); isTuple {
		return false
	}
	// values such as builtins carry placeholder types that go/types cannot compare
	defer func() {
		if recover() != nil {
			res = false
		}
	}()
	return types.Identical(t, errorType)
}

// errResultIndex returns the index of the (last) error result of f, or -1.
func errResultIndex(f *ssa.Function) int {
	res := f.Signature.Results()
	for i := res.Len() - 1; i >= 0; i-- {
		if isErrorType(res.At(i).Type()) {
			return i
		}
	}
	return -1
}

// retOperand returns the value returned at position idx, looking through the load of a named
// result that go/ssa emits when the function has defers (value stored last in the same block, or
// in the unique predecessor chain).
func retOperand(ret *ssa.Return, idx int) ssa.Value {
	if idx < 0 || idx >= len(ret.Results) {
		return nil
	}
	v := ret.Results[idx]
	if u, ok := v.(*ssa.UnOp); ok && u.Op == token.MUL {
		if a, ok := u.X.(*ssa.Alloc); ok {
			if s := lastStoreBefore(a, u); s != nil {
				return s
			}
		}
	}
	return v
}

// lastStoreBefore finds the value most recently stored to alloc before instruction `at`, walking
// back through single-predecessor blocks.  nil if ambiguous.
func lastStoreBefore(a *ssa.Alloc, at ssa.Instruction) ssa.Value {
	b := at.Block()
	idx := instrIndex(at)
	for hops := 0; hops < 8; hops++ {
		for i := idx - 1; i >= 0; i-- {
			if st, ok := b.Instrs[i].(*ssa.Store); ok && st.Addr == a {
				return st.Val
			}
		}
		if len(b.Preds) != 1 {
			return nil
		}
		b = b.Preds[0]
		idx = len(b.Instrs)
	}
	return nil
}

// isNilConst reports a nil constant.
func isNilConst(v ssa.Value) bool {
	c, ok := v.(*ssa.Const)
	return ok && c.Value == nil
}

// provablyNonNilErr: result of fmt.Errorf / errors.New / a call of a constructor, a global Err*
// variable load, a MakeInterface of a concrete value, or a value tested != nil on the dominating
// edge.
func provablyNonNilErr(v ssa.Value, at ssa.Instruction) bool {
	switch x := v.(type) {
	case *ssa.Call:
		if f := x.Call.StaticCallee(); f != nil {
			n := f.String()
			if n == "fmt.Errorf" || n == "errors.New" {
				return true
			}
		}
	case *ssa.MakeInterface:
		return true
	case *ssa.UnOp:
		if x.Op == token.MUL {
			if g, ok := x.X.(*ssa.Global); ok && strings.HasPrefix(g.Name(), "Err") {
				return true
			}
		}
	case *ssa.Phi:
		all := len(x.Edges) > 0
		for i, e := range x.Edges {
			if isNilConst(e) {
				all = false
				break
			}
			// the edge value must be non-nil when coming from pred i
			pred := x.Block().Preds[i]
			if !provablyNonNilErr(e, pred.Instrs[len(pred.Instrs)-1]) {
				all = false
				break
			}
		}
		if all {
			return true
		}
	}
	if at != nil && testedNonNil(v, at.Block()) {
		return true
	}
	return false
}

// testedNonNil: block b is dominated by the true edge of `v != nil` (or false edge of `v == nil`).
func testedNonNil(v ssa.Value, b *ssa.BasicBlock) bool {
	if v.Referrers() == nil {
		return false
	}
	// the value may have been spilled to a local (named result, captured variable) and the test
	// made on a reload of it in the same block as the store
	for _, ref := range *v.Referrers() {
		st, ok := ref.(*ssa.Store)
		if !ok || st.Val != v {
			continue
		}
		blk := st.Block()
		seen := false
		for _, in := range blk.Instrs {
			if in == ssa.Instruction(st) {
				seen = true
				continue
			}
			if !seen {
				continue
			}
			if s2, ok := in.(*ssa.Store); ok && s2.Addr == st.Addr {
				break
			}
			if ld, ok := in.(*ssa.UnOp); ok && ld.Op == token.MUL && ld.X == st.Addr {
				if testedNonNil(ld, b) {
					return true
				}
			}
		}
	}
	for _, ref := range *v.Referrers() {
		bo, ok := ref.(*ssa.BinOp)
		if !ok || (bo.Op != token.NEQ && bo.Op != token.EQL) {
			continue
		}
		if !(bo.X == v && isNilConst(bo.Y) || bo.Y == v && isNilConst(bo.X)) {
			continue
		}
		for _, r2 := range *bo.Referrers() {
			ifi, ok := r2.(*ssa.If)
			if !ok {
				continue
			}
			succ := ifi.Block().Succs[0]
			if bo.Op == token.EQL {
				succ = ifi.Block().Succs[1]
			}
			// succ must be entered only via this edge to count as "on the edge"
			if len(succ.Preds) == 1 && succ.Dominates(b) {
				return true
			}
		}
	}
	return false
}

// testedNil: block b is dominated by the edge on which v == nil.
func testedNil(v ssa.Value, b *ssa.BasicBlock) bool {
	if v.Referrers() == nil {
		return false
	}
	for _, ref := range *v.Referrers() {
		bo, ok := ref.(*ssa.BinOp)
		if !ok || (bo.Op != token.NEQ && bo.Op != token.EQL) {
			continue
		}
		if !(bo.X == v && isNilConst(bo.Y) || bo.Y == v && isNilConst(bo.X)) {
			continue
		}
		for _, r2 := range *bo.Referrers() {
			ifi, ok := r2.(*ssa.If)
			if !ok {
				continue
			}
			succ := ifi.Block().Succs[1]
			if bo.Op == token.EQL {
				succ = ifi.Block().Succs[0]
			}
			if len(succ.Preds) == 1 && succ.Dominates(b) {
				return true
			}
		}
	}
	return false
}

// isErrorExit: the return is provably an error return.
func isErrorExit(ret *ssa.Return) bool {
	f := ret.Parent()
	idx := errResultIndex(f)
	if idx < 0 {
		return false
	}
	v := retOperand(ret, idx)
	if v == nil {
		return false
	}
	return provablyNonNilErr(v, ret)
}

// isSuccessExit: a return that is not provably an error return.
func isSuccessExit(in ssa.Instruction) bool {
	ret, ok := in.(*ssa.Return)
	if !ok {
		return false
	}
	return !isErrorExit(ret)
}

func isReturn(in ssa.Instruction) bool {
	_, ok := in.(*ssa.Return)
	return ok
}

// errEdgeFilter prunes nothing (all edges feasible).
func allEdges(b *ssa.BasicBlock, i int) bool { return true }

// ---------------------------------------------------------------------------------------------
// constants and simple value helpers

func constString(v ssa.Value) (string, bool) {
	c, ok := v.(*ssa.Const)
	if !ok || c.Value == nil || c.Value.Kind() != constant.String {
		return "", false
	}
	return constant.StringVal(c.Value), true
}

func constInt(v ssa.Value) (int64, bool) {
	c, ok := v.(*ssa.Const)
	if !ok || c.Value == nil || c.Value.Kind() != constant.Int {
		return 0, false
	}
	i, ok := constant.Int64Val(c.Value)
	return i, ok
}

// stripConv removes conversions / type changes / interface wrapping.
func stripConv(v ssa.Value) ssa.Value {
	for {
		switch x := v.(type) {
		case *ssa.ChangeType:
			v = x.X
		case *ssa.Convert:
			v = x.X
		case *ssa.MakeInterface:
			v = x.X
		case *ssa.ChangeInterface:
			v = x.X
		default:
			return v
		}
	}
}

// fieldName returns the struct field name addressed/read by a FieldAddr or Field instruction.
func fieldName(v ssa.Value) (string, *types.Var, bool) {
	switch x := v.(type) {
	case *ssa.FieldAddr:
		st := derefStruct(x.X.Type())
		if st != nil {
			f := st.Field(x.Field)
			return f.Name(), f, true
		}
	case *ssa.Field:
		st := derefStruct(x.X.Type())
		if st != nil {
			f := st.Field(x.Field)
			return f.Name(), f, true
		}
	}
	return "", nil, false
}

func derefStruct(t types.Type) *types.Struct {
	if p, ok := t.Underlying().(*types.Pointer); ok {
		t = p.Elem()
	}
	s, _ := t.Underlying().(*types.Struct)
	return s
}

func namedOf(t types.Type) *types.Named {
	if p, ok := t.(*types.Pointer); ok {
		t = p.Elem()
	}
	n, _ := t.(*types.Named)
	return n
}

// typeIs reports whether t (possibly a pointer) is the named type pkgSuffix.name.
func typeIs(t types.Type, pkgSuffix, name string) bool {
	n := namedOf(t)
	if n == nil || n.Obj().Name() != name {
		return false
	}
	if pkgSuffix == "" {
		return true
	}
	if n.Obj().Pkg() == nil {
		return false
	}
	p := n.Obj().Pkg().Path()
	return p == pkgSuffix || strings.HasSuffix(p, "/"+pkgSuffix)
}

// ---------------------------------------------------------------------------------------------
// roots: resolve a value to the set of defining values, looking through conversions, phis, loads
// of locals spilled to Allocs (all stores), closure free variables (bound at the MakeClosure site
// in the parent) and by-reference captures.  Each root is paired with the function it lives in.

type rootVal struct {
	V  ssa.Value
	Fn *ssa.Function
}

func roots(v ssa.Value, fn *ssa.Function) []rootVal {
	var out []rootVal
	seen := map[ssa.Value]bool{}
	var rec func(v ssa.Value, fn *ssa.Function, depth int)
	allocStores := func(al *ssa.Alloc, fn *ssa.Function, depth int) bool {
		n := 0
		for _, ref := range *al.Referrers() {
			switch x := ref.(type) {
			case *ssa.Store:
				if x.Addr == al {
					rec(x.Val, fn, depth+1)
					n++
				}
			case *ssa.MakeClosure:
				// stores inside closures capturing the alloc by reference
				cl, _ := x.Fn.(*ssa.Function)
				for i, b := range x.Bindings {
					if b != ssa.Value(al) || cl == nil {
						continue
					}
					for _, r2 := range *cl.FreeVars[i].Referrers() {
						if st, ok := r2.(*ssa.Store); ok && st.Addr == ssa.Value(cl.FreeVars[i]) {
							rec(st.Val, cl, depth+1)
							n++
						}
					}
				}
			}
		}
		return n > 0
	}
	bindingOf := func(fv *ssa.FreeVar, fn *ssa.Function) (ssa.Value, *ssa.Function) {
		p := fn.Parent()
		if p == nil {
			return nil, nil
		}
		idx := -1
		for k, f2 := range fn.FreeVars {
			if f2 == fv {
				idx = k
			}
		}
		for _, blk := range p.Blocks {
			for _, in := range blk.Instrs {
				if mc, ok := in.(*ssa.MakeClosure); ok && mc.Fn == ssa.Value(fn) && idx >= 0 {
					return mc.Bindings[idx], p
				}
			}
		}
		return nil, nil
	}
	rec = func(v ssa.Value, fn *ssa.Function, depth int) {
		if v == nil || depth > 12 {
			return
		}
		v = stripConv(v)
		if seen[v] {
			return
		}
		seen[v] = true
		switch x := v.(type) {
		case *ssa.Phi:
			for _, e := range x.Edges {
				rec(e, fn, depth+1)
			}
			return
		case *ssa.FreeVar:
			if b, p := bindingOf(x, fn); b != nil {
				rec(b, p, depth+1)
				return
			}
		case *ssa.UnOp:
			if x.Op == token.MUL {
				switch a := x.X.(type) {
				case *ssa.Alloc:
					if allocStores(a, fn, depth) {
						return
					}
				case *ssa.FreeVar:
					if b, p := bindingOf(a, fn); b != nil {
						if al, ok := b.(*ssa.Alloc); ok && allocStores(al, p, depth) {
							return
						}
					}
				}
			}
		}
		out = append(out, rootVal{v, fn})
	}
	rec(v, fn, 0)
	return out
}

// guardedByEdge: every path from the function entry to `target` passes through the If `ifi` and
// leaves it by successor `succ` on its last visit: the If's block dominates the target and the
// target cannot be reached from the other successor without passing the If again.
func guardedByEdge(ifi *ssa.If, succ int, target ssa.Instruction) bool {
	b := ifi.Block()
	if !(b.Dominates(target.Block())) || b == target.Block() {
		return false
	}
	other := b.Succs[1-succ]
	// search from `other` to target avoiding b
	seen := map[*ssa.BasicBlock]bool{b: true}
	stack := []*ssa.BasicBlock{other}
	for len(stack) > 0 {
		x := stack[len(stack)-1]
		stack = stack[:len(stack)-1]
		if seen[x] {
			continue
		}
		seen[x] = true
		if x == target.Block() {
			return false
		}
		stack = append(stack, x.Succs...)
	}
	return true
}

// placeKey gives a canonical name to a value that is a load of a field path rooted at a local
// Alloc, parameter or global ("load(alloc#3.Branch)"), so that two separate loads of the same
// variable compare equal; other values are named by identity.
func placeKey(v ssa.Value) string {
	v = stripConv(v)
	switch x := v.(type) {
	case *ssa.UnOp:
		if x.Op == token.MUL {
			return "load(" + addrKey(x.X) + ")"
		}
	}
	return "val@" + v.Name() + "@" + fnKey(v)
}

func fnKey(v ssa.Value) string {
	if in, ok := v.(ssa.Instruction); ok && in.Parent() != nil {
		return in.Parent().String()
	}
	if p, ok := v.(*ssa.Parameter); ok {
		return p.Parent().String()
	}
	return ""
}

func addrKey(a ssa.Value) string {
	switch x := a.(type) {
	case *ssa.FieldAddr:
		name, _, _ := fieldName(x)
		return addrKey(x.X) + "." + name
	case *ssa.Alloc:
		return "alloc@" + x.Name() + "@" + x.Parent().String()
	case *ssa.Global:
		return "global@" + x.String()
	case *ssa.UnOp:
		if x.Op == token.MUL {
			return "*(" + addrKey(x.X) + ")"
		}
	case *ssa.Parameter:
		return "param@" + x.Name() + "@" + x.Parent().String()
	case *ssa.FreeVar:
		return "freevar@" + x.Name() + "@" + x.Parent().String()
	}
	return "addr@" + a.Name() + "@" + fnKey(a)
}

// ---------------------------------------------------------------------------------------------
// wrapper summaries: a call "performs X" when it is a call named X, or a call to a repository
// function all of whose success exits pass through something that performs X (depth-bounded).

var alwaysMemo = map[string]bool{}

func (w *World) performs(in ssa.Instruction, names []string, depth int) bool {
	c, ok := in.(ssa.CallInstruction)
	if !ok {
		return false
	}
	nm := methodNameOf(c)
	for _, n := range names {
		if nm == n {
			return true
		}
	}
	if depth <= 0 {
		return false
	}
	callee := c.Common().StaticCallee()
	if callee == nil || !inRepo(callee) || len(callee.Blocks) == 0 {
		return false
	}
	key := callee.String() + "|" + strings.Join(names, ",") + "|" + itoa(depth)
	if v, ok := alwaysMemo[key]; ok {
		return v
	}
	alwaysMemo[key] = false // recursion guard
	has := false
	for _, c2 := range calls(callee) {
		if w.performs(c2, names, depth-1) {
			has = true
		}
	}
	res := false
	if has {
		p := findPath(callee, nil, func(i2 ssa.Instruction) bool { return w.performs(i2, names, depth-1) }, func(i2 ssa.Instruction) bool {
			ret, ok := i2.(*ssa.Return)
			return ok && !isErrorExit(ret)
		}, nil)
		res = p == nil
	}
	alwaysMemo[key] = res
	return res
}

// dataDeps: the intra-procedural backward data slice of v: every value v is computed from, through
// operands, phis, tuple extracts, and loads of locals (all stores to the Alloc or to a field/element
// of it).  Control dependences are not followed.
func dataDeps(v ssa.Value) map[ssa.Value]bool { return dataDepsUntil(v, nil) }

// dataDepsUntil: as dataDeps, but the operands of values for which stop is true are not followed.
func dataDepsUntil(v ssa.Value, stop func(ssa.Value) bool) map[ssa.Value]bool {
	seen := map[ssa.Value]bool{}
	var work []ssa.Value
	push := func(x ssa.Value) {
		if x != nil && !seen[x] {
			seen[x] = true
			work = append(work, x)
		}
	}
	baseAlloc := func(a ssa.Value) *ssa.Alloc {
		for i := 0; i < 8; i++ {
			switch x := a.(type) {
			case *ssa.Alloc:
				return x
			case *ssa.FieldAddr:
				a = x.X
			case *ssa.IndexAddr:
				a = x.X
			default:
				return nil
			}
		}
		return nil
	}
	var storesInto func(a ssa.Value, depth int)
	storesInto = func(a ssa.Value, depth int) {
		if depth > 4 {
			return
		}
		refs := a.Referrers()
		if refs == nil {
			return
		}
		for _, ref := range *refs {
			switch x := ref.(type) {
			case *ssa.Store:
				if x.Addr == a {
					push(x.Val)
				}
			case *ssa.FieldAddr:
				if x.X == a {
					storesInto(x, depth+1)
				}
			case *ssa.IndexAddr:
				if x.X == a {
					storesInto(x, depth+1)
				}
			}
		}
	}
	push(v)
	for len(work) > 0 {
		x := work[len(work)-1]
		work = work[:len(work)-1]
		if stop != nil && stop(x) {
			continue
		}
		if u, ok := x.(*ssa.UnOp); ok && u.Op == token.MUL {
			if al := baseAlloc(u.X); al != nil {
				storesInto(al, 0)
			}
		}
		if al, ok := x.(*ssa.Alloc); ok {
			storesInto(al, 0) // a pointer to a local depends on what the local was given
		}
		in, ok := x.(ssa.Instruction)
		if !ok {
			continue
		}
		var ops []*ssa.Value
		for _, op := range in.Operands(ops) {
			if op != nil {
				push(*op)
			}
		}
	}
	return seen
}
