package main

import "fmt"

// extraTagSets are analysed in the thorough tier in addition to the Makefile default.
var extraTagSets = []string{
	"", // what the pinned test suite compiles
	"badger basholeveldb filestore gbucket swift ngprecomputed", // every back end that type-checks here
}

// crossBuild re-runs the property's rules on the other build configurations.  Obligations that are
// violated or undecided there and not already reported are added (construct prefixed by the tag
// set).  Rules whose anchors do not exist in a configuration (e.g. no Badger without the badger
// tag) produce floor failures there; those are expected and only noted.
func (r *Run) crossBuild(repo string) {
	for _, tags := range extraTagSets {
		w, err := loadWorld(repo, tags)
		if err != nil {
			r.undecided("crossbuild:"+tags, fmt.Sprintf("cannot load build configuration tags=%q: %v", tags, err))
			continue
		}
		sub := &Run{W: w, Prop: r.Prop, Tier: r.Tier, Seed: r.Seed, Known: r.Known, start: r.start}
		for _, d := range rules {
			if d.Prop != r.Prop {
				continue
			}
			sub.runRule(d)
		}
		nv, nu, nd := 0, 0, 0
		for _, o := range sub.Obls {
			switch o.st {
			case Violated:
				nv++
				dup := false
				for _, p := range r.Obls {
					if p.Rule == o.Rule && p.Construct == o.Construct && p.st == Violated {
						dup = true
					}
				}
				if !dup {
					r.cur = ruleDef{ID: o.Rule}
					r.add(Violated, o.Construct, "[tags="+tags+"] "+o.Detail, o.Pos, o.Witness, true)
				}
			case Undecided:
				nu++
			default:
				nd++
			}
		}
		r.note("cross-build tags=%q: %d packages, %d obligations discharged, %d violated, %d undecided (undecided in a configuration without the anchored back end are expected and not counted)", tags, w.NumPkgs, nd, nv, nu)
	}
}
