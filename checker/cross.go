package main

import (
	"fmt"
	"strings"
)

// extraTagSets are analysed in the thorough tier in addition to the Makefile default.
var extraTagSets = []string{
	"", // what the pinned test suite compiles
	"badger basholeveldb filestore gbucket swift ngprecomputed", // every back end that type-checks here
}

// noteOnly configurations are analysed and reported in the evidence, but a finding there is never a
// violation: with every back end compiled in, the call graph resolves storage interface calls to the
// gbucket/swift/leveldb implementations as well, whose internals (write-through caches, their own
// versioning) are outside every property's anchors (storage/badger, filestore).  Rules that reach
// "a storage write" through a read method of those back ends would raise alarms on code the
// properties do not speak about.
var noteOnly = map[string]bool{"badger basholeveldb filestore gbucket swift ngprecomputed": true}

// crossBuild re-runs the property's rules on the other build configurations.  Obligations that are
// violated or undecided there and not already reported are added (construct prefixed by the tag
// set).  Rules whose anchors do not exist in a configuration (e.g. no Badger without the badger
// tag) produce floor failures there; those are expected and only noted.
func (r *Run) crossBuild(repo string) {
	for _, tags := range extraTagSets {
		w, err := loadWorld(repo, tags)
		if err != nil {
			r.undecided("crossbuild:"+tags, fmt.Sprintf("cannot load build configuration tags=%q: %v", tags, err))
			continue
		}
		// packages that only exist (have compiled functions) in this configuration: other back ends
		// (gbucket, swift, basholeveldb …).  The properties anchor the Badger/filestore code of the
		// default build; findings inside those extra packages are reported as notes, not violations.
		base := map[string]bool{}
		for _, f := range r.W.RepoFuncs {
			base[relPkg(pkgPathOf(f))] = true
		}
		extra := map[string]bool{}
		for _, f := range w.RepoFuncs {
			if p := relPkg(pkgPathOf(f)); !base[p] {
				extra[p] = true
			}
		}
		baseFiles := map[string]bool{}
		for _, f := range r.W.RepoFuncs {
			if fn := r.W.fposFile(f); fn != "" {
				baseFiles[strings.TrimPrefix(fn, repo+"/")] = true
			}
		}
		inExtra := func(o *Obligation) bool {
			for p := range extra {
				if p != "" && (strings.Contains(o.Construct, p+".") || strings.Contains(o.Construct, p+":") || strings.HasPrefix(o.Pos, p+"/")) {
					return true
				}
			}
			// a position in a file the default configuration does not compile
			if i := strings.LastIndex(o.Pos, ":"); i > 0 && strings.HasSuffix(o.Pos[:i], ".go") {
				return !baseFiles[o.Pos[:i]]
			}
			// no position: "pkg.Type…" naming a type the default configuration does not have
			c := strings.TrimPrefix(strings.TrimPrefix(o.Construct, "(*"), "(")
			if i := strings.Index(c, "."); i > 0 && strings.Contains(c[:i], "/") {
				pkg := c[:i]
				rest := c[i+1:]
				j := strings.IndexAny(rest, ".:)")
				if j < 0 {
					j = len(rest)
				}
				if r.W.named(pkg, rest[:j]) == nil && r.W.fn(pkg, rest[:j]) == nil {
					return true
				}
			}
			return false
		}
		sub := &Run{W: w, Prop: r.Prop, Tier: r.Tier, Seed: r.Seed, Known: r.Known, start: r.start}
		for _, d := range rules {
			if d.Prop != r.Prop {
				continue
			}
			sub.runRule(d)
		}
		nv, nu, nd := 0, 0, 0
		for _, o := range sub.Obls {
			switch o.st {
			case Violated:
				// a rule that does not find its anchors in this configuration (no Badger without the badger
				// tag, …) says so through its count obligation: expected here, like a floor failure
				if strings.Contains(o.Detail, "rule needs review") || strings.HasSuffix(o.Detail, "not found") || strings.Contains(o.Detail, " not found:") || strings.Contains(o.Detail, "found in the compiled back ends") {
					nu++
					continue
				}
				if noteOnly[tags] {
					nv++
					if nv <= 5 {
						r.note("cross-build tags=%q (note-only configuration): %s %s — %s", tags, o.Rule, o.Construct, o.Detail)
					}
					continue
				}
				if inExtra(o) {
					r.note("cross-build tags=%q: %s %s — outside the anchored configuration (package compiled only with these tags): %s", tags, o.Rule, o.Construct, o.Detail)
					continue
				}
				nv++
				dup := false
				for _, p := range r.Obls {
					if p.Rule == o.Rule && p.Construct == o.Construct && p.st == Violated {
						dup = true
					}
				}
				if !dup {
					r.cur = ruleDef{ID: o.Rule}
					r.add(Violated, o.Construct, "[tags="+tags+"] "+o.Detail, o.Pos, o.Witness, true)
				}
			case Undecided:
				nu++
			default:
				nd++
			}
		}
		r.note("cross-build tags=%q: %d packages, %d obligations discharged, %d violated, %d undecided (undecided in a configuration without the anchored back end are expected and not counted)", tags, w.NumPkgs, nd, nv, nu)
	}
}
