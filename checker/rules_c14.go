package main

import (
	"fmt"
	"go/token"
	"strings"

	"golang.org/x/tools/go/ssa"
)

func init() {
	register(ruleDef{ID: "R14.1", Prop: "C14", Tier: "quick", Floor: 3,
		Title: "mutation typestate: every downres.NewMutation reaches Execute (or is handed to a callee that does) on every exit of the creating function",
		Fn:    ruleR14_1})
	register(ruleDef{ID: "R14.2", Prop: "C14", Tier: "quick", Floor: 3,
		Title: "every hi-res block write is announced: wherever a label block is stored (or its index change recorded) with a down-res mutation in scope, BlockMutated follows on every success path",
		Fn:    ruleR14_2})
	register(ruleDef{ID: "R14.3", Prop: "C14", Tier: "quick", Floor: 5,
		Title: "pyramid loop shape: Execute feeds each level's output to the next up to the configured maximum and marks level s+1 idle only after it has been stored; the levels started equal the levels stopped",
		Fn:    ruleR14_3})
	register(ruleDef{ID: "R14.4", Prop: "C14", Tier: "quick", Floor: 3,
		Title: "every computed lower-resolution block is both stored at scale+1 and passed on to the next level before its octant is reported done",
		Fn:    ruleR14_4})
}

func isMutationType(v ssa.Value) bool { return typeIs(v.Type(), "datatype/common/downres", "Mutation") }

func ruleR14_1(r *Run) {
	w := r.W
	n := 0
	for _, f := range w.RepoFuncs {
		if !strings.HasPrefix(relPkg(pkgPathOf(f)), "datatype/") || len(f.Blocks) == 0 {
			continue
		}
		for _, c := range calls(f) {
			if !isCallTo(c, "datatype/common/downres", "", "NewMutation") {
				continue
			}
			n++
			mv, _ := c.(ssa.Value)
			// uses: Execute calls on the value (or on a local it is stored to), or hand-offs
			execOrHandoff := func(in ssa.Instruction) bool {
				ci, ok := in.(ssa.CallInstruction)
				if !ok {
					return false
				}
				callee := ci.Common().StaticCallee()
				if callee != nil && callee.Name() == "Execute" && callee.Signature.Recv() != nil && isMutationType(ci.Common().Args[0]) {
					return true
				}
				return false
			}
			_ = mv
			exec := w.newReach(func(ci ssa.CallInstruction) bool {
				cal := ci.Common().StaticCallee()
				return cal != nil && cal.Name() == "Execute" && cal.Signature.Recv() != nil && typeIs(cal.Signature.Recv().Type(), "datatype/common/downres", "Mutation")
			}, nil)
			isHandoff := func(in ssa.Instruction) bool {
				if execOrHandoff(in) {
					return true
				}
				ci, ok := in.(ssa.CallInstruction)
				if !ok {
					return false
				}
				takes := false
				for _, a := range ci.Common().Args {
					if isMutationType(a) {
						takes = true
					}
				}
				for _, fv := range funcValues(ci) {
					for _, b := range fv.FreeVars {
						if isMutationType(b) || strings.Contains(b.Type().String(), "downres.Mutation") {
							takes = true
						}
					}
				}
				if !takes {
					return false
				}
				for _, cal := range w.Callees(ci) {
					if exec.From(cal) {
						return true
					}
				}
				return false
			}
			// (a) success exits
			succ := func(in ssa.Instruction) bool {
				ret, ok := in.(*ssa.Return)
				return ok && !isErrorExit(ret)
			}
			errx := func(in ssa.Instruction) bool {
				ret, ok := in.(*ssa.Return)
				return ok && isErrorExit(ret)
			}
			// the mutation may be absent by configuration (`if downscale { m = NewMutation }` … `if m != nil { m.Execute() }`)
			// conditions under which the mutation was created hold for the rest of the function
			guards := map[ssa.Value]bool{}
			for _, b := range f.Blocks {
				if ifi, ok := b.Instrs[len(b.Instrs)-1].(*ssa.If); ok {
					if guardedByEdge(ifi, 0, c) {
						guards[ifi.Cond] = true
					} else if guardedByEdge(ifi, 1, c) {
						guards[ifi.Cond] = false
					}
				}
			}
			params := map[*ssa.Parameter]AVal{}
			for g, val := range guards {
				switch x := g.(type) {
				case *ssa.Parameter:
					params[x] = aBool(val)
				case *ssa.UnOp:
					if al, ok := x.X.(*ssa.Alloc); ok {
						var src *ssa.Parameter
						n := 0
						for _, ref := range *al.Referrers() {
							if st, ok := ref.(*ssa.Store); ok && st.Addr == ssa.Value(al) {
								n++
								src, _ = st.Val.(*ssa.Parameter)
							}
						}
						if n == 1 && src != nil {
							params[src] = aBool(val)
						}
					}
				}
			}
			s := runSCCP(f, &AEnv{Params: params, Atom: func(v ssa.Value) (AVal, bool) {
				if bo, ok := v.(*ssa.BinOp); ok && (bo.Op == token.NEQ || bo.Op == token.EQL) {
					for _, pr := range [][2]ssa.Value{{bo.X, bo.Y}, {bo.Y, bo.X}} {
						if isNilConst(pr[1]) && isMutationType(pr[0]) {
							return aBool(bo.Op == token.NEQ), true
						}
					}
				}
				return unknown, false
			}})
			p := findPath(f, c, isHandoff, succ, s.EdgeFeasible)
			r.check(p == nil, fname(f)+":NewMutation-executed-on-success",
				"every success exit after NewMutation passes through Execute (directly or via a callee/goroutine that executes it)",
				"a success exit is reachable after downres.NewMutation without Execute: the lower-resolution levels are never recomputed for this change and the scales stay marked as updating", w.pos(c.Pos()), w.renderPath(p)...)
			// (b) error exits release the scales too
			// a (deferred) Abort releases the scales of a mutation that is not executed
			isRelease := func(in ssa.Instruction) bool {
				if isHandoff(in) {
					return true
				}
				var cc *ssa.CallCommon
				switch x := in.(type) {
				case *ssa.Defer:
					cc = &x.Call
				case *ssa.Call:
					cc = &x.Call
				default:
					return false
				}
				cal := cc.StaticCallee()
				return cal != nil && cal.Name() == "Abort" && cal.Signature.Recv() != nil && typeIs(cal.Signature.Recv().Type(), "datatype/common/downres", "Mutation")
			}
			pe := findPath(f, c, isRelease, errx, s.EdgeFeasible)
			construct := fname(f) + ":NewMutation-released-on-error"
			if pe != nil {
				if reason, ok := r.exception(construct); ok {
					r.ok(construct, "exception: "+reason, w.pos(c.Pos()))
				} else {
					r.violation(construct, "an error exit is reachable after downres.NewMutation without Execute: the scales it marked as updating are never released, so the volume never reports idle again (requests waiting for idle hang)", w.pos(c.Pos()), w.renderPath(pe)...)
				}
			} else {
				r.ok(construct, "error exits after NewMutation release the scales", w.pos(c.Pos()))
			}
		}
	}
	if n < 3 {
		r.undecided("NewMutation-sites", fmt.Sprintf("only %d NewMutation sites found", n))
	}
}

func ruleR14_2(r *Run) {
	w := r.W
	isAnnounce := func(in ssa.Instruction) bool {
		c, ok := in.(ssa.CallInstruction)
		if !ok {
			return false
		}
		callee := c.Common().StaticCallee()
		return callee != nil && callee.Name() == "BlockMutated" && callee.Signature.Recv() != nil
	}
	n := 0
	for _, f := range w.RepoFuncs {
		if relPkg(pkgPathOf(f)) != "datatype/labelmap" || len(f.Blocks) == 0 {
			continue
		}
		// a mutation in scope: parameter, free variable or field load of type *downres.Mutation
		var mut ssa.Value
		for _, p := range f.Params {
			if isMutationType(p) {
				mut = p
			}
		}
		for _, fv := range f.FreeVars {
			if isMutationType(fv) || strings.HasSuffix(fv.Type().String(), "downres.Mutation") {
				mut = fv
			}
		}
		for _, b := range f.Blocks {
			for _, in := range b.Instrs {
				if v, ok := in.(ssa.Value); ok && isMutationType(v) {
					if _, isCall := in.(*ssa.Call); !isCall {
						mut = v
					}
				}
			}
		}
		if mut == nil {
			continue
		}
		for _, c := range calls(f) {
			callee := c.Common().StaticCallee()
			if callee == nil {
				continue
			}
			switch callee.Name() {
			case "putLabelBlock", "handleBlockIndexing", "handleBlockMutate":
			default:
				continue
			}
			n++
			construct := fmt.Sprintf("%s:%s-then-BlockMutated", fname(f), callee.Name())
			// success continuation: a nil error is signalled / the function returns / the loop continues.
			// Edges pruned: mutation == nil (absent), the put's own error edge.
			errV := errorValueOf(c)
			s := runSCCP(f, &AEnv{Atom: func(v ssa.Value) (AVal, bool) {
				if bo, ok := v.(*ssa.BinOp); ok && (bo.Op == token.NEQ || bo.Op == token.EQL) {
					for _, pr := range [][2]ssa.Value{{bo.X, bo.Y}, {bo.Y, bo.X}} {
						if !isNilConst(pr[1]) {
							continue
						}
						if isMutationType(pr[0]) {
							return aBool(bo.Op == token.NEQ), true // the mutation exists
						}
						if errV != nil && sameErrValue(pr[0], errV) {
							return aBool(bo.Op == token.EQL), true // the put succeeded
						}
					}
				}
				return unknown, false
			}})
			target := func(in ssa.Instruction) bool {
				switch x := in.(type) {
				case *ssa.Return:
					return !isErrorExit(x)
				case *ssa.Send:
					if isErrorType(x.X.Type()) {
						for _, rv := range roots(x.X, f) {
							if isNilConst(rv.V) {
								return true
							}
						}
					}
				}
				return false
			}
			barrier := func(in ssa.Instruction) bool { return isAnnounce(in) || in == ssa.Instruction(c) }
			p := findPath(f, c, barrier, target, s.EdgeFeasible)
			// configuration flags (downscale / scale == 0) legitimately skip the announcement: accept a
			// path only if it avoids every If on a bool parameter/free variable named like a flag
			if p != nil && pathOnlyViaConfigFlags(p, f) {
				p = nil
			}
			r.check(p == nil, construct, "after the block write/record every success continuation passes BlockMutated (unless down-res is switched off by configuration)",
				"a hi-res label block is written but a success path skips BlockMutated: the lower-resolution levels keep the old content for that block", w.pos(c.Pos()), w.renderPath(p)...)
		}
	}
	if n < 3 {
		r.undecided("block-write-sites", fmt.Sprintf("only %d block write sites with a mutation in scope", n))
	}
}

func errorValueOf(c ssa.CallInstruction) ssa.Value {
	v, ok := c.(ssa.Value)
	if !ok {
		return nil
	}
	if isErrorType(v.Type()) {
		return v
	}
	if v.Referrers() != nil {
		for _, ref := range *v.Referrers() {
			if ex, ok := ref.(*ssa.Extract); ok && isErrorType(ex.Type()) {
				return ex
			}
		}
	}
	return nil
}

// pathOnlyViaConfigFlags: the witness path skips the announcement only by branching on plain
// boolean configuration values (parameters / captured variables / comparisons of a scale with 0).
func pathOnlyViaConfigFlags(p []ssa.Instruction, f *ssa.Function) bool {
	sawFlag := false
	for _, in := range p {
		ifi, ok := in.(*ssa.If)
		if !ok {
			continue
		}
		switch c := ifi.Cond.(type) {
		case *ssa.Parameter, *ssa.FreeVar:
			sawFlag = true
		case *ssa.UnOp:
			if _, ok := c.X.(*ssa.FreeVar); ok {
				sawFlag = true
			} else if _, ok := c.X.(*ssa.Parameter); ok {
				sawFlag = true
			} else if _, ok := c.X.(*ssa.FieldAddr); ok {
				sawFlag = true
			}
		case *ssa.BinOp:
			if k, ok := constInt(c.Y); ok && k == 0 && (c.Op == token.EQL || c.Op == token.NEQ) {
				if b, ok := c.X.Type().Underlying().(interface{ String() string }); ok && strings.Contains(b.String(), "uint8") {
					sawFlag = true
				}
			}
		}
	}
	return sawFlag
}

func ruleR14_3(r *Run) {
	w := r.W
	ex := w.method("datatype/common/downres", "Mutation", "Execute")
	nm := w.fn("datatype/common/downres", "NewMutation")
	if ex == nil || nm == nil {
		r.violation("downres.Mutation", "Execute / NewMutation not found", "-")
		return
	}
	var store, stop ssa.CallInstruction
	for _, c := range calls(ex) {
		if c.Common().IsInvoke() {
			switch c.Common().Method.Name() {
			case "StoreDownres":
				store = c
			case "StopScaleUpdate":
				// the per-level stop of the normal path: a success exit is reachable from it (a release loop on
				// the error path also calls StopScaleUpdate and is checked by R14.8)
				if findPath(ex, c, func(ssa.Instruction) bool { return false }, func(in ssa.Instruction) bool {
					ret, ok := in.(*ssa.Return)
					return ok && !isErrorExit(ret)
				}, nil) == nil {
					continue
				}
				stop = c
			}
		}
	}
	if !r.check(store != nil && stop != nil, "Execute:steps", "Execute calls StoreDownres and StopScaleUpdate", "Execute no longer calls StoreDownres / StopScaleUpdate", w.fpos(ex)) {
		return
	}
	// (a) output feeds the next level: the block-map argument is a phi of the hi-res cache and the previous result
	sv, _ := store.(ssa.Value)
	feeds := false
	arg := store.Common().Args[len(store.Common().Args)-1]
	if phi, ok := arg.(*ssa.Phi); ok {
		fromCache, fromPrev := false, false
		for _, e := range phi.Edges {
			if exx, ok := e.(*ssa.Extract); ok && exx.Tuple == sv && exx.Index == 0 {
				fromPrev = true
			}
			if isFieldLoad(e, "Mutation", "hiresCache") {
				fromCache = true
			}
		}
		feeds = fromCache && fromPrev
	}
	r.check(feeds, "Execute:levels-chained", "level s consumes the hi-res cache (s=0) or the blocks StoreDownres produced for level s-1",
		"Execute no longer feeds each level's output into the next level's StoreDownres", w.pos(store.Pos()))
	// (b) StopScaleUpdate(scale+1) only after a successful StoreDownres(scale)
	errV := errorValueOf(store)
	okOrder := false
	if errV != nil {
		s := runSCCP(ex, &AEnv{Atom: func(v ssa.Value) (AVal, bool) {
			if bo, ok := v.(*ssa.BinOp); ok && (bo.Op == token.NEQ || bo.Op == token.EQL) {
				for _, pr := range [][2]ssa.Value{{bo.X, bo.Y}, {bo.Y, bo.X}} {
					if isNilConst(pr[1]) && sameErrValue(pr[0], errV) {
						return aBool(bo.Op == token.NEQ), true // the store failed
					}
				}
			}
			return unknown, false
		}})
		// with the store failing, Stop must be unreachable after the store; and without assumption Stop is after Store
		pFail := findPath(ex, store, nil, func(in ssa.Instruction) bool { return in == ssa.Instruction(stop) }, s.EdgeFeasible)
		before := findPath(ex, nil, func(in ssa.Instruction) bool { return in == ssa.Instruction(store) }, func(in ssa.Instruction) bool { return in == ssa.Instruction(stop) }, nil)
		okOrder = pFail == nil && before == nil
	}
	r.check(okOrder, "Execute:idle-after-stored", "a level is marked idle only after its StoreDownres returned successfully",
		"a level can be reported idle (StopScaleUpdate) before its lower-resolution blocks have been stored: a reader waiting for idle sees stale data", w.pos(stop.Pos()))
	// (c) stop level = scale+1 of the level stored
	sl := lin(stop.Common().Args[len(stop.Common().Args)-1], 0)
	st := lin(store.Common().Args[len(store.Common().Args)-2], 0)
	r.check(sl.ok && st.ok && sl.sameVars(st) && sl.c-st.c == 1, "Execute:stops-level-above", "StopScaleUpdate(scale+1) for StoreDownres(scale)",
		"the level marked idle is not the one just produced (scale+1)", w.pos(stop.Pos()))
	// (d) loop bound is the configured maximum
	bound := false
	for _, ft := range factsOf(ex) {
		for k := range ft.form.terms {
			if strings.Contains(k, "t") {
				_ = k
			}
		}
		if bo, ok := ft.ifi.Cond.(*ssa.BinOp); ok && bo.Op == token.LSS {
			if c, ok := bo.Y.(*ssa.Call); ok && c.Call.IsInvoke() && c.Call.Method.Name() == "GetMaxDownresLevel" {
				bound = true
			}
		}
	}
	r.check(bound, "Execute:up-to-max-level", "the level loop runs while scale < GetMaxDownresLevel()", "the level loop is no longer bounded by scale < GetMaxDownresLevel(): top levels are skipped or an extra level is produced", w.fpos(ex))
	// (e) NewMutation starts levels 1..max
	var start ssa.CallInstruction
	for _, c := range calls(nm) {
		if c.Common().IsInvoke() && c.Common().Method.Name() == "StartScaleUpdate" {
			start = c
		}
	}
	okStart := false
	if start != nil {
		// the counter may be kept in int and converted at the call (a uint8 counter cannot pass 255)
		if phi, ok := stripConv(start.Common().Args[0]).(*ssa.Phi); ok {
			first := int64(-1)
			for _, e := range phi.Edges {
				if k, ok := constInt(e); ok {
					first = k
				}
			}
			leq := false
			for _, b := range nm.Blocks {
				if ifi, ok := b.Instrs[len(b.Instrs)-1].(*ssa.If); ok {
					if bo, ok := ifi.Cond.(*ssa.BinOp); ok && bo.Op == token.LEQ && bo.X == ssa.Value(phi) {
						if c, ok := stripConv(bo.Y).(*ssa.Call); ok && c.Call.IsInvoke() && c.Call.Method.Name() == "GetMaxDownresLevel" {
							leq = true
						}
					}
				}
			}
			okStart = first == 1 && leq
		}
	}
	r.check(okStart, "NewMutation:starts-levels-1..max", "levels 1..max are marked updating — the same set Execute marks idle",
		"NewMutation no longer marks exactly the levels 1..max as updating: a level stays busy forever or is never waited for", w.fpos(nm))
}

func ruleR14_4(r *Run) {
	w := r.W
	// workers: functions of labelmap that take a downres.BlockMap and a storage.Batch
	n := 0
	for _, f := range w.RepoFuncs {
		if relPkg(pkgPathOf(f)) != "datatype/labelmap" || len(f.Blocks) == 0 {
			continue
		}
		var bmap, batch, scale ssa.Value
		for _, p := range f.Params {
			if typeIs(p.Type(), "datatype/common/downres", "BlockMap") {
				bmap = p
			}
			if typeIs(p.Type(), "storage", "Batch") {
				batch = p
			}
			if p.Type().String() == "uint8" {
				scale = p
			}
		}
		if bmap == nil || batch == nil {
			continue
		}
		n++
		isMapPut := func(in ssa.Instruction) bool {
			mu, ok := in.(*ssa.MapUpdate)
			return ok && mu.Map == bmap
		}
		isBatchPut := func(in ssa.Instruction) bool {
			c, ok := in.(ssa.CallInstruction)
			return ok && c.Common().IsInvoke() && c.Common().Method.Name() == "Put" && c.Common().Value == batch
		}
		doneOK := func(in ssa.Instruction) bool {
			s, ok := in.(*ssa.Send)
			return ok && isErrorType(s.X.Type()) && isNilConst(s.X)
		}
		// from each receive of a work item to the success signal
		for _, b := range f.Blocks {
			for _, in := range b.Instrs {
				isRecv := false
				if u, ok := in.(*ssa.UnOp); ok && u.Op == token.ARROW {
					isRecv = true
				}
				if !isRecv {
					continue
				}
				p1 := findPath(f, in, isMapPut, doneOK, nil)
				p2 := findPath(f, in, isBatchPut, doneOK, nil)
				r.check(p1 == nil, fname(f)+":lores-block-passed-on", "every octant reported done has put its lower-resolution block into the map handed to the next level",
					"an octant can be reported done without its lower-resolution block being passed on: the levels above are computed from stale data", w.pos(in.Pos()), w.renderPath(p1)...)
				r.check(p2 == nil, fname(f)+":lores-block-stored", "every octant reported done has stored its lower-resolution block",
					"an octant can be reported done without its lower-resolution block being stored: that level keeps the old voxels", w.pos(in.Pos()), w.renderPath(p2)...)
			}
		}
		// key scale = hiresScale + 1
		okScale := false
		for _, c := range calls(f) {
			callee := c.Common().StaticCallee()
			if callee != nil && callee.Name() == "NewBlockTKeyByCoord" && scale != nil {
				l := lin(c.Common().Args[0], 0)
				ls := lin(scale, 0)
				if l.ok && l.sameVars(ls) && l.c-ls.c == 1 {
					okScale = true
				}
			}
		}
		r.check(okScale, fname(f)+":stored-at-scale+1", "the block key is built with hiresScale+1", "the lower-resolution block is not stored under scale hiresScale+1", w.fpos(f))
	}
	if n == 0 {
		r.undecided("downres-workers", "no down-res worker (BlockMap + Batch parameters) found in labelmap")
	}
}

func init() {
	register(ruleDef{ID: "R14.5", Prop: "C14", Tier: "quick", Floor: 1,
		Title: "sibling agreement of the vote loops: wherever a winner is chosen from a label→votes map, a tie is broken towards the smaller label in every implementation",
		Fn:    ruleR14_5})
}

func ruleR14_5(r *Run) {
	w := r.W
	n := 0
	for _, f := range w.RepoFuncs {
		p := relPkg(pkgPathOf(f))
		if !(p == "datatype/common/labels" || p == "dvid") || len(f.Blocks) == 0 {
			continue
		}
		// range over a map[uint64]<int> : key = label, value = votes
		for _, b := range f.Blocks {
			for _, in := range b.Instrs {
				nx, ok := in.(*ssa.Next)
				if !ok {
					continue
				}
				rg, ok := nx.Iter.(*ssa.Range)
				if !ok {
					continue
				}
				mt, ok := rg.X.Type().Underlying().(interface{ String() string })
				if !ok || !(strings.HasPrefix(mt.String(), "map[uint64]int") || strings.HasPrefix(mt.String(), "map[uint64]uint")) {
					continue
				}
				var key, val ssa.Value
				for _, ref := range *nx.Referrers() {
					if ex, ok := ref.(*ssa.Extract); ok {
						if ex.Index == 1 {
							key = ex
						}
						if ex.Index == 2 {
							val = ex
						}
					}
				}
				if key == nil || val == nil {
					continue
				}
				// a vote loop compares the votes with a running maximum (a phi)
				isVote := false
				var labelCmps []*ssa.BinOp
				for _, ref := range *val.Referrers() {
					if bo, ok := ref.(*ssa.BinOp); ok {
						if _, isPhi := otherOperand(bo, val).(*ssa.Phi); isPhi {
							isVote = true
						}
					}
				}
				for _, ref := range *key.Referrers() {
					if bo, ok := ref.(*ssa.BinOp); ok && (bo.Op == token.LSS || bo.Op == token.GTR || bo.Op == token.LEQ || bo.Op == token.GEQ) {
						if _, isPhi := otherOperand(bo, key).(*ssa.Phi); isPhi {
							labelCmps = append(labelCmps, bo)
						}
					}
				}
				if !isVote {
					continue
				}
				n++
				okDir := len(labelCmps) > 0
				for _, bo := range labelCmps {
					// normalise to: key <op> winner
					op := bo.Op
					if bo.Y == key {
						switch op {
						case token.LSS:
							op = token.GTR
						case token.GTR:
							op = token.LSS
						case token.LEQ:
							op = token.GEQ
						case token.GEQ:
							op = token.LEQ
						}
					}
					if op != token.LSS {
						okDir = false
					}
				}
				r.check(okDir, fname(f)+":tie-to-smaller-label",
					fmt.Sprintf("%d label comparisons in the vote loop, all of the form candidate < current winner", len(labelCmps)),
					"a vote loop breaks ties towards the larger label (or has no tie-break): the documented vote is 'most frequent, ties to the smaller label', and the sibling implementations now disagree", w.pos(nx.Pos()))
			}
		}
	}
	// downresArray and DownresLabels each have one on today's tree; a shared helper (one loop) serves both as well
	if n < 1 {
		r.undecided("vote-loops", fmt.Sprintf("only %d vote loops found", n))
	}
}

func otherOperand(bo *ssa.BinOp, v ssa.Value) ssa.Value {
	if bo.X == v {
		return bo.Y
	}
	return bo.X
}
