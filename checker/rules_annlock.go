package main

import (
	"fmt"
	"sort"
	"strings"

	"golang.org/x/tools/go/ssa"
)

// R11.20 / R13.16 — annotation element lists are rewritten whole (read the JSON list of a block, a
// label or a tag, change it, write it back); every store write the annotation package issues on
// behalf of a request or a sync event must therefore sit inside a write-held mutex of the
// instance, and so must every list read that a write can follow.  "Inside" is decided per site:
// the mutex is must-held at the site in its own function, or at every static call site of that
// function (transitively).  A function started with `go`, or one that is only reached through a
// function value, gets no credit for its spawner's locks.  The background reload (functions
// reached only through a `go` statement other than the sync event loop) is outside the rule: it is
// an administrative operation that is not acknowledged on completion.

func init() {
	reg := func(id, prop string) {
		register(ruleDef{ID: id, Prop: prop, Tier: "quick", Floor: 8,
			Title: "annotation element lists are read-modify-written under one instance mutex: every store write (Put, Delete, DeleteRange, batch Commit) that datatype/annotation issues from a request handler or from the sync event loop, and every element-list read that such a write can follow, is inside a write-held mutex of the instance — held in the function itself or at every static call site of it, transitively; a goroutine gets no credit for its spawner's locks",
			Fn:    ruleAnnotationMutationsLocked})
	}
	reg("R11.20", "C11")
	reg("R13.16", "C13")
}

func ruleAnnotationMutationsLocked(r *Run) {
	w := r.W
	const pkg = "datatype/annotation"
	var funcs []*ssa.Function
	for _, f := range w.RepoFuncs {
		if relPkg(pkgPathOf(f)) != pkg || len(f.Blocks) == 0 || strings.HasSuffix(w.fposFile(f), "_test.go") {
			continue
		}
		funcs = append(funcs, f)
	}
	inPkg := map[*ssa.Function]bool{}
	for _, f := range funcs {
		inPkg[f] = true
	}
	isRead := func(c ssa.CallInstruction) bool {
		callee := staticCallee(c)
		if callee == nil || !inPkg[callee] {
			return false
		}
		switch callee.Name() {
		case "getElements", "getElementsNR", "getBlockElementsNR":
			return true
		}
		return false
	}
	isWrite := func(c ssa.CallInstruction) bool {
		cc := c.Common()
		if !cc.IsInvoke() || cc.Method == nil || cc.Method.Pkg() == nil || !strings.HasSuffix(cc.Method.Pkg().Path(), "/storage") {
			return false
		}
		switch cc.Method.Name() {
		case "Put", "Delete", "DeleteRange", "Commit", "PutRange", "DeleteAll":
			return true
		}
		return false
	}
	// lock classes of the package
	lockNames := map[string]bool{}
	for _, f := range funcs {
		for _, b := range f.Blocks {
			for _, in := range b.Instrs {
				if op, ok := asLockOp(in); ok && op.lock && op.write {
					lockNames[op.name] = true
				}
			}
		}
	}
	var names []string
	for n := range lockNames {
		names = append(names, n)
	}
	sort.Strings(names)
	heldHere := func(f *ssa.Function, at ssa.Instruction) string {
		for _, n := range names {
			if h, _ := heldAt(f, at, n, true); h {
				return n
			}
		}
		return ""
	}
	// in-package static call graph; closures hang off their MakeClosure site
	type site struct {
		in   ssa.Instruction
		f    *ssa.Function
		isGo bool
	}
	sites := map[*ssa.Function][]site{}
	escapes := map[*ssa.Function]bool{}
	for _, f := range funcs {
		for _, b := range f.Blocks {
			for _, in := range b.Instrs {
				switch x := in.(type) {
				case ssa.CallInstruction:
					if callee := staticCallee(x); callee != nil && inPkg[callee] {
						_, isGo := in.(*ssa.Go)
						sites[callee] = append(sites[callee], site{in, f, isGo})
					}
				case *ssa.MakeClosure:
					if g, ok := x.Fn.(*ssa.Function); ok && inPkg[g] {
						goed := false
						for _, ref := range *x.Referrers() {
							if gi, ok := ref.(*ssa.Go); ok && gi.Call.Value == x {
								goed = true
							}
						}
						sites[g] = append(sites[g], site{in, f, goed})
					}
				}
				// a function used as a value (other than as the callee) escapes
				for _, op := range in.Operands(nil) {
					if op == nil || *op == nil {
						continue
					}
					if g, ok := (*op).(*ssa.Function); ok && inPkg[g] {
						if c, isCall := in.(ssa.CallInstruction); isCall && c.Common().Value == g {
							continue
						}
						escapes[g] = true
					}
				}
			}
		}
	}
	// the roots a request or a sync event enters through
	var roots []*ssa.Function
	for _, f := range funcs {
		if f.Name() == "ServeHTTP" && f.Signature.Recv() != nil {
			roots = append(roots, f)
			continue
		}
		for _, b := range f.Blocks {
			for _, in := range b.Instrs {
				if sel, ok := in.(*ssa.Select); ok {
					for _, st := range sel.States {
						if isSyncChan(st.Chan) {
							roots = append(roots, f)
						}
					}
				}
				if u, ok := in.(*ssa.UnOp); ok && u.Op.String() == "<-" && isSyncChan(u.X) {
					roots = append(roots, f)
				}
			}
		}
	}
	// functions reached synchronously from the roots
	sync := map[*ssa.Function]bool{}
	var visit func(f *ssa.Function)
	visit = func(f *ssa.Function) {
		if sync[f] {
			return
		}
		sync[f] = true
		for _, b := range f.Blocks {
			for _, in := range b.Instrs {
				switch x := in.(type) {
				case *ssa.Go:
				case ssa.CallInstruction:
					if callee := staticCallee(x); callee != nil && inPkg[callee] {
						visit(callee)
					}
				case *ssa.MakeClosure:
					if g, ok := x.Fn.(*ssa.Function); ok && inPkg[g] {
						goed := false
						for _, ref := range *x.Referrers() {
							if gi, ok := ref.(*ssa.Go); ok && gi.Call.Value == x {
								goed = true
							}
						}
						if !goed {
							visit(g)
						}
					}
				}
			}
		}
	}
	for _, f := range roots {
		visit(f)
	}
	r.check(len(roots) >= 2, "annotation:request-and-sync-roots", fmt.Sprintf("%d entry functions (ServeHTTP, the sync event loop)", len(roots)), "the request handler or the sync event loop was not found: rule needs review", "-")

	// reachW: the function (or something it calls synchronously in the package) writes the store
	reachW := map[*ssa.Function]bool{}
	for changed := true; changed; {
		changed = false
		for _, f := range funcs {
			if reachW[f] {
				continue
			}
			for _, b := range f.Blocks {
				for _, in := range b.Instrs {
					if c, ok := in.(ssa.CallInstruction); ok {
						if _, isGo := in.(*ssa.Go); isGo {
							continue
						}
						if isWrite(c) {
							reachW[f] = true
						} else if callee := staticCallee(c); callee != nil && reachW[callee] {
							reachW[f] = true
						}
					}
					if mc, ok := in.(*ssa.MakeClosure); ok {
						if g, ok := mc.Fn.(*ssa.Function); ok && reachW[g] {
							reachW[f] = true
						}
					}
				}
			}
			if reachW[f] {
				changed = true
			}
		}
	}
	// lockedCtx(f): every way into f passes a point where a mutex of the package is write-held
	memo := map[*ssa.Function]int{} // 1 = in progress, 2 = yes, 3 = no
	var lockedCtx func(f *ssa.Function) bool
	lockedCtx = func(f *ssa.Function) bool {
		switch memo[f] {
		case 1, 3:
			return false
		case 2:
			return true
		}
		memo[f] = 1
		ok := len(sites[f]) > 0 && !escapes[f]
		for _, s := range sites[f] {
			if !ok {
				break
			}
			if !sync[s.f] {
				continue // a site in the background reload, which is outside the rule
			}
			if s.isGo {
				ok = false
			} else if heldHere(s.f, s.in) == "" && !lockedCtx(s.f) {
				ok = false
			}
		}
		if ok {
			memo[f] = 2
		} else {
			memo[f] = 3
		}
		return ok
	}
	nW, nR := 0, 0
	for _, f := range funcs {
		if !sync[f] {
			continue
		}
		k := 0
		for _, c := range calls(f) {
			if _, isGo := c.(*ssa.Go); isGo {
				continue
			}
			if _, isDefer := c.(*ssa.Defer); isDefer {
				continue
			}
			wr := isWrite(c)
			rd := false
			if !wr && isRead(c) {
				// a write can follow this read: here, or in a caller after this function returns (the
				// latter is covered when the caller's own call site is checked as a read-reaching site)
				after := findPath(f, c, nil, func(x ssa.Instruction) bool {
					c2, ok := x.(ssa.CallInstruction)
					if !ok || x == c.(ssa.Instruction) {
						return false
					}
					if isWrite(c2) {
						return true
					}
					callee := staticCallee(c2)
					return callee != nil && reachW[callee]
				}, allEdges)
				rd = after != nil
			}
			if !wr && !rd {
				continue
			}
			k++
			kind := "write"
			if rd {
				kind = "read-before-write"
				nR++
			} else {
				nW++
			}
			name := heldHere(f, c)
			ok := name != "" || lockedCtx(f)
			how := "mutex " + name + " write-held at the site"
			if name == "" {
				how = "every static call site of the function is inside a write-held mutex"
			}
			r.check(ok, fmt.Sprintf("%s:%s#%d:%s", fname(f), kind, k, callName(c)), how,
				"the annotation package touches a stored element list here without a mutex of the instance held (neither in this function nor at every call site of it): the lists of a block, a label and a tag are read, changed and written back whole, so a second request or a label sync event between the read and the write loses elements of one of them", w.pos(c.Pos()))
		}
	}
	r.check(nW >= 8, "annotation:store-writes", fmt.Sprintf("%d store writes and %d list reads before a write checked", nW, nR), "fewer store writes than confirmed by reading (8): rule needs review", "-")
}

// ---------------------------------------------------------------------------------------------
// R3.15 / R8.14 — a version is marked as "mapping loaded" only after its log, and the logs of its
// ancestors, were replayed.  getMapping takes the mark as licence to skip the loader, so a mark
// that precedes the replay lets a second request answer from a half-built map (and a failed
// replay leaves the mark behind).

func init() {
	reg := func(id, prop string) {
		register(ruleDef{ID: id, Prop: prop, Tier: "quick", Floor: 2,
			Title: "the loaded-mark of a label mapping follows the replay: in every labelmap function that replays a mutation log (labels.StreamLog) and records versions in a map of its receiver, no path leads from a mark to a replay inside the same loop iteration, and when marks and replays share a loop the loop walks the ancestry from the oldest version toward the queried one (descending index), so that a marked version always has its own log and all its ancestors' logs replayed",
			Fn:    ruleMarkAfterReplay})
	}
	reg("R3.15", "C03")
	reg("R8.14", "C08")
}

func ruleMarkAfterReplay(r *Run) {
	w := r.W
	loaders := 0
	for _, f := range w.RepoFuncs {
		if relPkg(pkgPathOf(f)) != "datatype/labelmap" || len(f.Blocks) == 0 || f.Parent() != nil || strings.HasSuffix(w.fposFile(f), "_test.go") {
			continue
		}
		var replays []ssa.Instruction
		for _, c := range calls(f) {
			if callee := staticCallee(c); callee != nil && callee.Name() == "StreamLog" && relPkg(pkgPathOf(callee)) == "datatype/common/labels" {
				replays = append(replays, c)
			}
		}
		if len(replays) == 0 {
			continue
		}
		isReplay := func(x ssa.Instruction) bool {
			for _, p := range replays {
				if p == x {
					return true
				}
			}
			return false
		}
		k := 0
		for _, b := range f.Blocks {
			for _, in := range b.Instrs {
				var mu ssa.Instruction
				var keyVals []ssa.Value
				name := ""
				if m, ok := in.(*ssa.MapUpdate); ok {
					if fa := mapFieldAddr(m.Map); fa != nil {
						name, _, _ = fieldName(fa)
						mu, keyVals = m, []ssa.Value{m.Key}
					}
				}
				// the mark may be made by a helper of the package (vc.markVersionMapped(ancestors[pos:])): a function
				// without a replay of its own that stores into a map field
				if c, ok := in.(*ssa.Call); ok && mu == nil {
					if g := c.Call.StaticCallee(); g != nil && g != f && g.Pkg == f.Pkg && len(g.Blocks) > 0 && len(g.Blocks) <= 6 && g.Object() != nil && !g.Object().Exported() {
						replaysToo := false
						for _, gc := range calls(g) {
							if callee := staticCallee(gc); callee != nil && callee.Name() == "StreamLog" {
								replaysToo = true
							}
						}
						if !replaysToo {
							for _, gb := range g.Blocks {
								for _, gin := range gb.Instrs {
									if m, ok := gin.(*ssa.MapUpdate); ok {
										if fa := mapFieldAddr(m.Map); fa != nil {
											name, _, _ = fieldName(fa)
											mu, keyVals = c, c.Call.Args
										}
									}
								}
							}
						}
					}
				}
				if mu == nil {
					continue
				}
				k++
				construct := fmt.Sprintf("%s:mark#%d:%s", fname(f), k, name)
				if findPath(f, mu, nil, isReplay, allEdges) == nil {
					r.check(true, construct, "no replay is reachable from the mark: every replay of the function precedes it", "", w.pos(mu.Pos()))
					continue
				}
				h, set, _ := innermostLoop(f, b)
				sameLoop := set != nil
				if sameLoop {
					for _, p := range replays {
						if !set[p.Block()] {
							sameLoop = false
						}
					}
				}
				if !sameLoop {
					r.check(false, construct, "", "a replay of the mutation log can follow this mark outside a common loop: the version is marked as loaded before its log was replayed, so getMapping's shortcut hands out a half-built mapping", w.pos(mu.Pos()))
					continue
				}
				inHeader := func(x ssa.Instruction) bool { return x.Block() == h }
				within := findPath(f, mu, inHeader, isReplay, allEdges)
				if within != nil {
					r.check(false, construct, "", "inside one loop iteration the version is marked as loaded before its mutation log is replayed: a request arriving during the replay takes getMapping's already-loaded shortcut and answers from a half-built mapping, and a failed replay leaves the mark behind", w.pos(mu.Pos()))
					continue
				}
				// the loop walks the ancestry from the oldest unloaded version toward the queried one
				desc := false
				deps := map[ssa.Value]bool{}
				for _, kv := range keyVals {
					deps[kv] = true
					for d := range dataDeps(kv) {
						deps[d] = true
					}
				}
				for d := range deps {
					var index ssa.Value
					if ia, ok := d.(*ssa.IndexAddr); ok {
						index = ia.Index
					}
					if sl, ok := d.(*ssa.Slice); ok && sl.Low != nil {
						index = sl.Low // ancestors[pos:] handed to the marking helper
					}
					if index == nil {
						continue
					}
					if phi, ok := stripConv(index).(*ssa.Phi); ok && phi.Block() == h {
						for _, e := range phi.Edges {
							if bo, ok := e.(*ssa.BinOp); ok && bo.X == ssa.Value(phi) {
								if c, ok := bo.Y.(*ssa.Const); ok && c.Value != nil {
									if (bo.Op.String() == "-" && c.Int64() > 0) || (bo.Op.String() == "+" && c.Int64() < 0) {
										desc = true
									}
								}
							}
						}
					}
				}
				r.check(desc, construct, "replay precedes the mark in each iteration and the loop index over the ancestry descends (oldest unloaded version first)",
					"marks and replays share a loop that does not walk the ancestry with a descending index: the queried version is marked before its ancestors' logs were replayed, so a request arriving meanwhile sees it as loaded and misses the ancestors' mappings", w.pos(mu.Pos()))
			}
		}
		if k >= 1 {
			loaders++ // a function that replays a log without recording anything (a history read-out) is not a loader
		}
	}
	r.check(loaders >= 1, "labelmap:log-replaying-loaders", fmt.Sprintf("%d functions replay a mutation log and mark versions", loaders), "no function that calls labels.StreamLog and records versions in a map of its receiver found: rule needs review", "-")
}

// mapFieldAddr: the FieldAddr a map operand was loaded from (nil when the map is not a struct field).
func mapFieldAddr(v ssa.Value) *ssa.FieldAddr {
	if u, ok := v.(*ssa.UnOp); ok {
		if fa, ok := u.X.(*ssa.FieldAddr); ok {
			return fa
		}
	}
	return nil
}

// ---------------------------------------------------------------------------------------------
// R8.15 / R3.16 — a label that a renumber introduces is mapped to 0 ("not a supervoxel") only
// behind a lookup showing that no supervoxel with that id is mapped: in the live path the label
// is the one the function has just mapped supervoxels *to*; in the replay it is the Newlabel of a
// RenumberOp record.

func init() {
	reg := func(id, prop string) {
		register(ruleDef{ID: id, Prop: prop, Tier: "quick", Floor: 3,
			Title: "a label introduced by a renumber is zero-mapped only behind a mapping lookup of that label: every setMapping(v, L, 0) in labelmap whose L is also the target of another setMapping in the same function, or is the Newlabel of a RenumberOp, lies on a branch decided by a VCache lookup of L (live path and log replay alike)",
			Fn:    ruleZeroMappingGuarded})
	}
	reg("R8.15", "C08")
	reg("R3.16", "C03")
}

func ruleZeroMappingGuarded(r *Run) {
	w := r.W
	isVCacheMethod := func(c ssa.CallInstruction, name string) bool {
		callee := staticCallee(c)
		if callee == nil || callee.Signature.Recv() == nil || relPkg(pkgPathOf(callee)) != "datatype/labelmap" {
			return false
		}
		if !strings.HasSuffix(callee.Signature.Recv().Type().String(), "labelmap.VCache") {
			return false
		}
		return name == "" || callee.Name() == name
	}
	fromRenumberOp := func(v ssa.Value) bool {
		for d := range dataDeps(v) {
			var fa *ssa.FieldAddr
			switch x := d.(type) {
			case *ssa.FieldAddr:
				fa = x
			case *ssa.Call:
				if callee := x.Call.StaticCallee(); callee != nil && callee.Name() == "GetNewlabel" && callee.Signature.Recv() != nil && strings.HasSuffix(callee.Signature.Recv().Type().String(), "proto.RenumberOp") {
					return true
				}
			}
			if fa != nil {
				name, _, _ := fieldName(fa)
				if name == "Newlabel" && strings.Contains(fa.X.Type().String(), "proto.RenumberOp") {
					return true
				}
			}
		}
		return false
	}
	sites, zeros := 0, 0
	for _, f := range w.RepoFuncs {
		if relPkg(pkgPathOf(f)) != "datatype/labelmap" || len(f.Blocks) == 0 || strings.HasSuffix(w.fposFile(f), "_test.go") {
			continue
		}
		var sets []ssa.CallInstruction
		for _, c := range calls(f) {
			if isVCacheMethod(c, "setMapping") && len(c.Common().Args) == 4 {
				sets = append(sets, c)
			}
		}
		if len(sets) == 0 {
			continue
		}
		targets := map[string]bool{}
		for _, c := range sets {
			to := c.Common().Args[3]
			if k, ok := constInt(to); ok && k == 0 {
				continue
			}
			targets[coordKey(to)] = true
		}
		k := 0
		for _, c := range sets {
			sites++
			to := c.Common().Args[3]
			if kk, ok := constInt(to); !ok || kk != 0 {
				continue
			}
			zeros++
			from := c.Common().Args[2]
			key := coordKey(from)
			why := ""
			if targets[key] {
				why = "the label the function maps supervoxels to"
			} else if fromRenumberOp(from) {
				why = "the Newlabel of a replayed RenumberOp"
			}
			if why == "" {
				continue
			}
			// a label that every caller takes from the label allocator is above every existing id
			if targets[key] && freshAtEveryCallSite(w, f, from) {
				r.note("R8.15: %s zero-maps a label that every caller takes from the label allocator", fname(f))
				continue
			}
			k++
			// guard: a dominating If whose condition depends on a VCache lookup of the same label and
			// from which the function can finish without passing the zero mapping
			guarded := false
			for _, b := range f.Blocks {
				ifi, ok := b.Instrs[len(b.Instrs)-1].(*ssa.If)
				if !ok || !b.Dominates(c.Block()) || b == c.Block() {
					continue
				}
				if findPath(f, ifi, func(x ssa.Instruction) bool { return x == c.(ssa.Instruction) }, func(x ssa.Instruction) bool { _, isRet := x.(*ssa.Return); return isRet }, allEdges) == nil {
					continue
				}
				for d := range dataDeps(ifi.Cond) {
					lc, ok := d.(*ssa.Call)
					if !ok || !isVCacheMethod(lc, "") || isVCacheMethod(lc, "setMapping") {
						continue
					}
					for _, a := range lc.Call.Args {
						if coordKey(a) == key {
							guarded = true
						}
					}
				}
			}
			r.check(guarded, fmt.Sprintf("%s:zero-mapping#%d", fname(f), k), "the zero mapping of "+why+" is decided by a lookup of that label",
				"a label introduced by a renumber ("+why+") is mapped to 0 unconditionally: when a supervoxel with that id exists — in the renumbered body or merged into another one — its voxels read as background while the index still counts them", w.pos(c.Pos()))
		}
	}
	r.note("R8.15: %d setMapping sites, %d zero mappings", sites, zeros)
	r.check(sites >= 10 && zeros >= 5, "labelmap:setMapping-sites", fmt.Sprintf("%d setMapping sites, %d of them zero mappings", sites, zeros), "fewer setMapping sites than confirmed by reading (10, 5 zero mappings): rule needs review", "-")
}

// freshAtEveryCallSite: v is computed from parameters of f, and at every static call site of f the
// corresponding argument is computed from a call of the label allocator (newLabel / NewLabel of
// labelmap.Data).
func freshAtEveryCallSite(w *World, f *ssa.Function, v ssa.Value) bool {
	var idx []int
	for d := range dataDeps(v) {
		if p, ok := d.(*ssa.Parameter); ok {
			for i, q := range f.Params {
				if q == p {
					idx = append(idx, i)
				}
			}
		}
	}
	sites := callSitesOf(w)[f]
	if len(idx) == 0 || len(sites) == 0 {
		return false
	}
	for _, s := range sites {
		c, ok := s.(ssa.CallInstruction)
		if !ok {
			return false
		}
		fresh := false
		for _, i := range idx {
			if i >= len(c.Common().Args) {
				continue
			}
			for d := range dataDeps(c.Common().Args[i]) {
				if ac, ok := d.(*ssa.Call); ok {
					if callee := ac.Call.StaticCallee(); callee != nil && (callee.Name() == "newLabel" || callee.Name() == "NewLabel") && relPkg(pkgPathOf(callee)) == "datatype/labelmap" {
						fresh = true
					}
				}
			}
		}
		if !fresh {
			return false
		}
	}
	return true
}

// ---------------------------------------------------------------------------------------------
// R8.16 — excising one version's entry from an encoded mapping keeps both sides: a vmap method
// that cuts the receiver into a prefix (vm[:a]) and a suffix (vm[b:]) has a result built from both.

func init() {
	register(ruleDef{ID: "R8.16", Prop: "C08", Tier: "quick", Floor: 2,
		Title: "excising a version's entry from an encoded supervoxel mapping keeps the entries on both sides: every method of labelmap.vmap that returns a vmap and slices its receiver into a prefix and a suffix has a return value computed from both slices",
		Fn:    ruleExciseKeepsBothSides})
}

func ruleExciseKeepsBothSides(r *Run) {
	w := r.W
	n := 0
	for _, f := range w.RepoFuncs {
		if relPkg(pkgPathOf(f)) != "datatype/labelmap" || len(f.Blocks) == 0 || f.Signature.Recv() == nil || strings.HasSuffix(w.fposFile(f), "_test.go") {
			continue
		}
		if !strings.HasSuffix(f.Signature.Recv().Type().String(), "labelmap.vmap") || f.Signature.Results().Len() != 1 || !strings.HasSuffix(f.Signature.Results().At(0).Type().String(), "labelmap.vmap") {
			continue
		}
		recv := f.Params[0]
		var prefixes, suffixes []*ssa.Slice
		for _, b := range f.Blocks {
			for _, in := range b.Instrs {
				sl, ok := in.(*ssa.Slice)
				if !ok || !dataDeps(sl.X)[recv] && sl.X != ssa.Value(recv) {
					continue
				}
				lowZero := sl.Low == nil
				if k, ok := constInt(sl.Low); sl.Low != nil && ok && k == 0 {
					lowZero = true
				}
				if lowZero && sl.High != nil {
					prefixes = append(prefixes, sl)
				}
				if !lowZero && sl.High == nil {
					suffixes = append(suffixes, sl)
				}
			}
		}
		if len(prefixes) == 0 || len(suffixes) == 0 {
			continue
		}
		n++
		both := false
		for _, b := range f.Blocks {
			ret, ok := b.Instrs[len(b.Instrs)-1].(*ssa.Return)
			if !ok || len(ret.Results) != 1 {
				continue
			}
			deps := contentDeps(ret.Results[0])
			hp, hs := false, false
			for _, p := range prefixes {
				if deps[p] {
					hp = true
				}
			}
			for _, s := range suffixes {
				if deps[s] {
					hs = true
				}
			}
			if hp && hs {
				both = true
			}
		}
		r.check(both, fname(f)+":excision-keeps-both-sides", "a return value is built from the prefix and the suffix of the receiver",
			"the method cuts its receiver into a prefix and a suffix but no result is built from both: excising an entry in the middle of the encoded (version, label) list drops the entries of the other versions behind it, so a sibling version's mapping disappears", w.fpos(f))
	}
	r.check(n >= 1, "labelmap:vmap-excisions", fmt.Sprintf("%d vmap methods cut the receiver into prefix and suffix", n), "no such method found: rule needs review", "-")
}

// contentDeps: the values whose *bytes* a slice value is made of: through slicing (the operand, not
// the bounds), type changes, phis and append.
func contentDeps(v ssa.Value) map[ssa.Value]bool {
	seen := map[ssa.Value]bool{}
	var walk func(x ssa.Value)
	walk = func(x ssa.Value) {
		if x == nil || seen[x] {
			return
		}
		seen[x] = true
		switch y := x.(type) {
		case *ssa.Slice:
			walk(y.X)
		case *ssa.ChangeType:
			walk(y.X)
		case *ssa.Convert:
			walk(y.X)
		case *ssa.Phi:
			for _, e := range y.Edges {
				walk(e)
			}
		case *ssa.Call:
			if b, ok := y.Call.Value.(*ssa.Builtin); ok && b.Name() == "append" {
				for _, a := range y.Call.Args {
					walk(a)
				}
			}
		case *ssa.MakeSlice:
			// bytes copied into a fresh buffer: copy(dst, src) with dst a (slice of) this buffer
			for _, b := range y.Parent().Blocks {
				for _, in := range b.Instrs {
					c, ok := in.(*ssa.Call)
					if !ok {
						continue
					}
					if bi, ok := c.Call.Value.(*ssa.Builtin); ok && bi.Name() == "copy" && len(c.Call.Args) == 2 {
						dst := c.Call.Args[0]
						for {
							if sl, ok := dst.(*ssa.Slice); ok {
								dst = sl.X
								continue
							}
							break
						}
						if dst == ssa.Value(y) {
							walk(c.Call.Args[1])
						}
					}
				}
			}
		}
	}
	walk(v)
	return seen
}
