package main

import (
	"go/types"
	"fmt"
	"go/token"
	"sort"
	"strings"

	"golang.org/x/tools/go/ssa"
)

// C09: the compressed label block codec is lossless and its views agree.  Losslessness itself is
// value-level.  What is decided here is the agreement between the many sibling implementations that
// write or walk the block format: they must share the header layout, the section order, the source
// of the per-sub-block bit width, the byte-boundary rule between sub-blocks and the shift constants
// of the packed-value extraction.  Any one of them drifting breaks the round trip or a view.

func init() {
	register(ruleDef{ID: "R9.1", Prop: "C09", Tier: "quick", Floor: 6,
		Title: "block layout agreement: every writer and the parser of the block format use the header gx,gy,gz,numLabels as four little-endian 32-bit fields at 0,4,8,12 and lay the sections out as labels (64-bit), per-sub-block label counts (16-bit), sub-block indices (32-bit), packed values",
		Fn:    ruleR9_1})
	register(ruleDef{ID: "R9.2", Prop: "C09", Tier: "quick", Floor: 8,
		Title: "one bit-width rule: every function that packs or unpacks sub-block values takes the number of bits per voxel from bitsFor(number of labels of the sub-block)",
		Fn:    ruleR9_2})
	register(ruleDef{ID: "R9.3", Prop: "C09", Tier: "quick", Floor: 8,
		Title: "sub-blocks start on byte boundaries everywhere: every function that walks the concatenated packed values across sub-blocks rounds its bit position (or byte count) up to a multiple of 8 after each sub-block, and every inline extraction uses the shifts 8−head−bits / 16−head−bits of getPackedValue",
		Fn:    ruleR9_3})
}

const lblPkg = "datatype/common/labels"

func labelsFuncs(w *World) []*ssa.Function {
	var out []*ssa.Function
	for _, f := range w.RepoFuncs {
		if relPkg(pkgPathOf(f)) == lblPkg && f.Parent() == nil && len(f.Blocks) > 0 && !strings.HasSuffix(w.fposFile(f), "_test.go") && !strings.HasSuffix(w.fposFile(f), "compressed_old.go") {
			out = append(out, f)
		}
	}
	sort.Slice(out, func(i, j int) bool { return fname(out[i]) < fname(out[j]) })
	return out
}

func ruleR9_1(r *Run) {
	w := r.W
	nW := 0
	for _, f := range labelsFuncs(w) {
		// writers of the header: PutUint32 on [0:4]..[12:16] of a buffer
		var hdr []codecEntry
		for _, e := range putEntries(f) {
			if e.hi <= 16 {
				hdr = append(hdr, e)
			}
		}
		aliasSeq := []string{}
		type ev struct {
			pos token.Pos
			s   string
		}
		var evs []ev
		for _, c := range calls(f) {
			nm := callName(c)
			if strings.HasPrefix(nm, "AliasByteToUint") {
				evs = append(evs, ev{c.Pos(), strings.TrimPrefix(nm, "AliasByteToUint")})
			}
		}
		sort.Slice(evs, func(i, j int) bool { return evs[i].pos < evs[j].pos })
		for _, e := range evs {
			aliasSeq = append(aliasSeq, e.s)
		}
		// only functions that write the label-count field of a block header are block writers; other
		// binary formats of this package (coordinate headers of binary-block streams) are not
		writesCount := false
		for _, e := range hdr {
			if e.lo == 12 {
				writesCount = true
			}
		}
		if writesCount && len(hdr) == 1 {
			// rewrites the label count of a copied header
			nW++
			r.check(hdr[0].hi == 16 && hdr[0].endian == "little" && hdr[0].bias == 0, fname(f)+":header-layout", "numLabels rewritten as little-endian uint32 at 12",
				"a block writer stores the label count differently from the parser: "+entriesString(hdr), w.fpos(f))
		} else if writesCount {
			nW++
			ok := len(hdr) == 4
			for i := 0; ok && i < 4; i++ {
				if hdr[i].lo != int64(4*i) || hdr[i].hi != int64(4*i+4) || hdr[i].endian != "little" || hdr[i].bias != 0 {
					ok = false
				}
			}
			r.check(ok, fname(f)+":header-layout", "gx,gy,gz,numLabels written as 4 × little-endian uint32 at 0,4,8,12",
				"a block writer lays the header out differently from the parser: "+entriesString(hdr), w.fpos(f))
		}
		// full-block builders/parsers: those that alias the 16-bit section
		has16 := false
		for _, a := range aliasSeq {
			if a == "16" {
				has16 = true
			}
		}
		if has16 {
			nW++
			r.check(strings.Join(aliasSeq, ",") == "64,16,32", fname(f)+":section-order", "sections aliased in the order labels(64), counts(16), indices(32)",
				"the block sections are laid out or parsed in a different order or with different element widths: "+strings.Join(aliasSeq, ","), w.fpos(f))
		}
	}
	// the parser reads the header from the same regions
	if p := w.method(lblPkg, "Block", "setExportedVars"); p != nil {
		ge := getEntries(p)
		ok := len(ge) == 4
		for i := 0; ok && i < 4; i++ {
			if ge[i].lo != int64(4*i) || ge[i].hi != int64(4*i+4) || ge[i].endian != "little" {
				ok = false
			}
		}
		r.check(ok, "labels.Block.setExportedVars:header-layout", "header parsed as 4 × little-endian uint32 at 0,4,8,12", "the block parser reads the header from different regions: "+entriesString(ge), w.fpos(p))
	} else {
		r.violation("labels.Block.setExportedVars", "parser not found", "-")
	}
	r.check(nW >= 4, "labels:block-writers", fmt.Sprintf("%d header/section layouts compared", nW), "block writers not found", "-")
}

// readsPackedValues: the function (or a closure of it) indexes a value loaded from a field named
// SBValues / values of packed data, or calls getPackedValue.
func readsPackedValues(f *ssa.Function) (inline, viaHelper bool) {
	for _, g := range withClosures(f) {
		for _, b := range g.Blocks {
			for _, in := range b.Instrs {
				if c, ok := in.(ssa.CallInstruction); ok && callName(c) == "getPackedValue" {
					viaHelper = true
				}
				ia, ok := in.(*ssa.IndexAddr)
				if !ok {
					continue
				}
				if ld, ok := ia.X.(*ssa.UnOp); ok {
					if fa, ok := ld.X.(*ssa.FieldAddr); ok {
						if nm, _, _ := fieldName(fa); nm == "SBValues" {
							// an element access (not a re-slice): used in a load or store of a byte
							inline = true
						}
					}
				}
			}
		}
	}
	return
}

func callsNamed(f *ssa.Function, name string) bool {
	for _, g := range withClosures(f) {
		for _, c := range calls(g) {
			if callName(c) == name {
				return true
			}
		}
	}
	return false
}

func ruleR9_2(r *Run) {
	w := r.W
	n := 0
	for _, f := range labelsFuncs(w) {
		if f.Name() == "getPackedValue" {
			continue
		}
		inline, via := readsPackedValues(f)
		packs := f.Name() == "encodeBlock"
		if !inline && !via && !packs {
			continue
		}
		n++
		r.check(callsNamed(f, "bitsFor"), fname(f)+":width-from-bitsFor", "the bits per voxel come from bitsFor",
			"a function packs or unpacks sub-block values without taking the bit width from bitsFor: its idea of where each voxel's index lies differs from the encoder's as soon as a sub-block has a label count that is not a power of two", w.fpos(f))
		// and the argument of bitsFor is a sub-block label count (NumSBLabels element, or the count of a sub-block's indices)
		okArg := true
		for _, g := range withClosures(f) {
			for _, c := range calls(g) {
				if callName(c) != "bitsFor" {
					continue
				}
				if isBlockWideCount(c.Common().Args[0], g) {
					okArg = false
				}
			}
		}
		r.check(okArg, fname(f)+":width-of-sub-block-label-count", "bitsFor is never applied to the block-wide label count",
			"bitsFor is applied to something other than the sub-block's label count (e.g. the block-wide label count): wrong width for every sub-block holding fewer labels than the block", w.fpos(f))
	}
	r.check(n >= 8, "labels:packed-value-readers", fmt.Sprintf("%d functions pack or unpack sub-block values", n), "packed value readers not found", "-")
}

// isBlockWideCount: the value derives from the number of labels of the whole block (len(b.Labels) or the
// header's numLabels) rather than from a sub-block's count.
func isBlockWideCount(v ssa.Value, f *ssa.Function) bool {
	for _, rt := range roots(v, f) {
		c, ok := rt.V.(*ssa.Call)
		if !ok {
			continue
		}
		if bi, ok := c.Call.Value.(*ssa.Builtin); ok && bi.Name() == "len" {
			if ld, ok := c.Call.Args[0].(*ssa.UnOp); ok {
				if fa, ok := ld.X.(*ssa.FieldAddr); ok {
					if nm, _, _ := fieldName(fa); nm == "Labels" {
						return true
					}
				}
			}
		}
	}
	return false
}

func ruleR9_3(r *Run) {
	w := r.W
	n := 0
	for _, f := range labelsFuncs(w) {
		if f.Name() == "getPackedValue" || f.Name() == "downresSubBlock" {
			continue // single sub-block helpers
		}
		inline, via := readsPackedValues(f)
		packs := f.Name() == "encodeBlock"
		if !(inline || via || packs) || !callsNamed(f, "bitsFor") {
			continue
		}
		// walks several sub-blocks: bitsFor is called inside a loop
		inLoop := false
		for _, g := range withClosures(f) {
			for _, c := range calls(g) {
				if callName(c) == "bitsFor" {
					b := c.Block()
					// in a loop if the block can reach itself
					if blockReaches(b, b) {
						inLoop = true
					}
				}
			}
		}
		if !inLoop {
			continue
		}
		n++
		// rounding: an If on (x % 8 != 0) / (== 0), x an integer
		hasRound := false
		for _, g := range withClosures(f) {
			for _, b := range g.Blocks {
				ifi, ok := b.Instrs[len(b.Instrs)-1].(*ssa.If)
				if !ok {
					continue
				}
				bo, ok := ifi.Cond.(*ssa.BinOp)
				if !ok || !(bo.Op == token.NEQ || bo.Op == token.EQL) {
					continue
				}
				if k, ok := constInt(bo.Y); !ok || k != 0 {
					continue
				}
				if rem, ok := stripConv(bo.X).(*ssa.BinOp); ok && rem.Op == token.REM {
					if k, ok := constInt(rem.Y); ok && k == 8 {
						hasRound = true
					}
				}
			}
		}
		r.check(hasRound, fname(f)+":sub-block-byte-alignment", "the bit position / byte count is rounded up to a byte boundary after each sub-block",
			"a function that walks the packed values across sub-blocks never rounds its position up to the next byte boundary, while the encoder starts every sub-block on a byte boundary: every sub-block after the first one whose bits do not fill whole bytes is read from the wrong offset", w.fpos(f))
		// inline extraction / insertion: shifts 8-… and 16-…
		if inline || packs {
			has8, has16 := false, false
			var scope []*ssa.Function // the insertion may sit in a helper (putPackedValue, the mirror of getPackedValue)
			for _, top := range withHelpers(f) {
				scope = append(scope, withClosures(top)...)
			}
			for _, g := range scope {
				for _, b := range g.Blocks {
					for _, in := range b.Instrs {
						if bo, ok := in.(*ssa.BinOp); ok && bo.Op == token.SUB {
							if k, ok := constInt(bo.X); ok {
								if k == 8 {
									has8 = true
								}
								if k == 16 {
									has16 = true
								}
							}
						}
					}
				}
			}
			usesMaskOrInsert := packs
			for _, g := range withClosures(f) {
				for _, b := range g.Blocks {
					for _, in := range b.Instrs {
						if ia, ok := in.(*ssa.IndexAddr); ok {
							if gl, ok := ia.X.(*ssa.Global); ok && gl.Name() == "leftBitMask" {
								usesMaskOrInsert = true
							}
						}
					}
				}
			}
			if usesMaskOrInsert {
				r.check(has8 && has16, fname(f)+":extraction-shifts", "within-byte shift 8−head−bits and two-byte shift 16−head−bits present",
					"an inline packed-value extraction does not use the shifts 8−head−bits and 16−head−bits that getPackedValue and the encoder use", w.fpos(f))
			}
		}
	}
	r.check(n >= 6, "labels:sub-block-walkers", fmt.Sprintf("%d functions walk the packed values across sub-blocks", n), "sub-block walkers not found", "-")
	// getPackedValue itself
	if g := w.fn(lblPkg, "getPackedValue"); g != nil {
		has8, has16 := false, false
		for _, b := range g.Blocks {
			for _, in := range b.Instrs {
				if bo, ok := in.(*ssa.BinOp); ok && bo.Op == token.SUB {
					if k, ok := constInt(bo.X); ok {
						has8 = has8 || k == 8
						has16 = has16 || k == 16
					}
				}
			}
		}
		r.check(has8 && has16, "labels.getPackedValue:extraction-shifts", "shifts 8−pos−bits and 16−pos−bits", "getPackedValue's shifts changed", w.fpos(g))
	}
}

func blockReaches(from, to *ssa.BasicBlock) bool {
	seen := map[*ssa.BasicBlock]bool{}
	work := append([]*ssa.BasicBlock{}, from.Succs...)
	for len(work) > 0 {
		b := work[len(work)-1]
		work = work[:len(work)-1]
		if b == to {
			return true
		}
		if seen[b] {
			continue
		}
		seen[b] = true
		work = append(work, b.Succs...)
	}
	return false
}

// ---------------------------------------------------------------------------------------------
// R9.4: every sub-block iteration consumes what the sub-block occupies

func init() {
	register(ruleDef{ID: "R9.4", Prop: "C09", Tier: "quick", Floor: 6,
		Title: "sub-block walkers stay in step with the format: an iteration over a sub-block with labels advances the index position, an iteration over a sub-block with two or more labels reaches the byte-boundary step of the packed values, before the next sub-block is looked at; label-count accumulators are wider than 16 bits; the two passes of the encoder step through the same voxels",
		Fn:    ruleR9_4})
}

func ruleR9_4(r *Run) {
	w := r.W
	nWalk := 0
	for _, f := range labelsFuncs(w) {
		for _, g := range withClosures(f) {
			// the per-sub-block count: a load of NumSBLabels[i] inside a loop
			for _, b := range g.Blocks {
				for _, in := range b.Instrs {
					ld, ok := in.(*ssa.UnOp)
					if !ok || ld.Op != token.MUL {
						continue
					}
					ia, ok := ld.X.(*ssa.IndexAddr)
					if !ok {
						continue
					}
					src, ok := ia.X.(*ssa.UnOp)
					if !ok {
						continue
					}
					fa, ok := src.X.(*ssa.FieldAddr)
					if !ok {
						continue
					}
					if nm, _, _ := fieldName(fa); nm != "NumSBLabels" {
						continue
					}
					if !blockReaches(b, b) {
						continue
					}
					checkWalker(r, g, ld)
					nWalk++
				}
			}
		}
		// accumulators of label counts
		for _, g := range withClosures(f) {
			for _, b := range g.Blocks {
				for _, in := range b.Instrs {
					bo, ok := in.(*ssa.BinOp)
					if !ok || bo.Op != token.ADD {
						continue
					}
					bt, ok := bo.Type().Underlying().(*types.Basic)
					if !ok || !(bt.Kind() == types.Uint16 || bt.Kind() == types.Int16 || bt.Kind() == types.Uint8) {
						continue
					}
					// one operand is a NumSBLabels element (range value or indexed load), the other a running sum (phi)
					isCount := func(v ssa.Value) bool {
						for _, rt := range roots(v, g) {
							switch x := rt.V.(type) {
							case *ssa.UnOp:
								if ia, ok := x.X.(*ssa.IndexAddr); ok {
									if s2, ok := ia.X.(*ssa.UnOp); ok {
										if fa, ok := s2.X.(*ssa.FieldAddr); ok {
											if nm, _, _ := fieldName(fa); nm == "NumSBLabels" {
												return true
											}
										}
									}
								}
							}
						}
						return false
					}
					_, xPhi := bo.X.(*ssa.Phi)
					_, yPhi := bo.Y.(*ssa.Phi)
					if (isCount(bo.X) && yPhi) || (isCount(bo.Y) && xPhi) {
						r.violation(fname(f)+":label-count-accumulator-width", "sub-block label counts are summed in a "+bt.Name()+": a block with 65536 or more sub-block label entries (a dense 64³ block) wraps the sum, the index table is cut short and the packed values are read from inside it", w.pos(bo.Pos()))
					}
				}
			}
		}
	}
	r.check(nWalk >= 6, "labels:sub-block-loops", fmt.Sprintf("%d sub-block loops examined", nWalk), "sub-block loops not found", "-")
	r.ok("labels:label-count-accumulators", "no 8/16-bit accumulator of sub-block label counts", "-")
	// encoder: both passes use the same row/plane strides
	if enc := w.method(lblPkg, "subvolumeData", "encodeBlock"); enc != nil {
		// expressions  X − F[k]*SubBlockSize : collect the field paths F[k]
		paths := map[string]int{}
		for _, b := range enc.Blocks {
			for _, in := range b.Instrs {
				bo, ok := in.(*ssa.BinOp)
				if !ok || bo.Op != token.SUB {
					continue
				}
				m, ok := stripConv(bo.Y).(*ssa.BinOp)
				if !ok || m.Op != token.MUL {
					continue
				}
				k, isK := constInt(m.Y)
				if !isK || k != 8 {
					continue
				}
				p := normPath(valuePath(m.X))
				if p != "" {
					// one use per pass; a stride hoisted out of the loops is one expression used by both passes
					uses := 0
					if refs := bo.Referrers(); refs != nil {
						uses = len(*refs)
					}
					if uses < 1 {
						uses = 1
					}
					paths[p] += uses
				}
			}
		}
		var ps []string
		for p := range paths {
			ps = append(ps, p)
		}
		sort.Strings(ps)
		// the row stride of the voxel array: X in `X − SubBlockSize` (the step from the end of a sub-block row to the
		// next row); the plane step has to be built from the same dimension of the same size
		rowPaths := map[string]bool{}
		for _, b := range enc.Blocks {
			for _, in := range b.Instrs {
				bo, ok := in.(*ssa.BinOp)
				if !ok || bo.Op != token.SUB {
					continue
				}
				if k, isK := constInt(bo.Y); !isK || k != 8 {
					continue
				}
				if p := normPath(valuePath(bo.X)); p != "" {
					rowPaths[p] = true
				}
			}
		}
		if len(ps) == 1 && len(rowPaths) > 0 {
			r.check(rowPaths[ps[0]], "labels.encodeBlock:plane-stride-is-the-array-row-stride", "the plane step is built from the array's row length ("+ps[0]+")",
				"the encoder steps to the next z-plane of a sub-block with a stride built from "+ps[0]+" while it steps from row to row with the array's own row length: for a sub-volume wider than one block the two passes read other voxels than the block's", w.fpos(enc))
		}
		r.check(len(ps) == 1 && paths[ps[0]] >= 2, "labels.encodeBlock:passes-use-one-plane-stride", "the label-collecting pass and the packing pass step to the next plane with the same stride: "+strings.Join(ps, ","),
			"the two passes of the encoder advance to the next z-plane with different strides ("+strings.Join(ps, " vs ")+"): the indices are packed for other voxels than the labels were collected from", w.fpos(enc))
	}
}

// checkWalker: g contains a sub-block loop whose per-iteration label count is the value n.
func checkWalker(r *Run, g *ssa.Function, n *ssa.UnOp) {
	w := r.W
	nb := n.Block()
	derivesN := func(v ssa.Value) bool {
		v = stripConv(v)
		return v == ssa.Value(n)
	}
	nextIter := func(in ssa.Instruction) bool {
		if in == ssa.Instruction(n) {
			return true
		}
		return successExit(in)
	}
	// edges on which the sub-block is known to have ≥1 / ≥2 labels
	var atLeast1, atLeast2, exactly1 []*ssa.BasicBlock
	exactly1If := map[*ssa.BasicBlock]*ssa.If{}
	_ = atLeast1
	for _, b := range g.Blocks {
		ifi, ok := b.Instrs[len(b.Instrs)-1].(*ssa.If)
		if !ok || !nb.Dominates(b) {
			continue
		}
		bo, ok := ifi.Cond.(*ssa.BinOp)
		if !ok || !derivesN(bo.X) {
			continue
		}
		k, isK := constInt(bo.Y)
		if !isK {
			continue
		}
		switch {
		case bo.Op == token.EQL && k == 0:
			atLeast1 = append(atLeast1, b.Succs[1])
		case bo.Op == token.EQL && k == 1:
			// reached after the ==0 test failed in the switch idiom
			exactly1 = append(exactly1, b.Succs[0])
			exactly1If[b.Succs[0]] = ifi
			atLeast2 = append(atLeast2, b.Succs[1])
		case bo.Op == token.GTR && k == 1, bo.Op == token.GEQ && k == 2:
			atLeast2 = append(atLeast2, b.Succs[0])
		case bo.Op == token.LEQ && k == 1, bo.Op == token.LSS && k == 2:
			atLeast2 = append(atLeast2, b.Succs[1])
		case bo.Op == token.GTR && k == 0, bo.Op == token.GEQ && k == 1, bo.Op == token.NEQ && k == 0:
			atLeast1 = append(atLeast1, b.Succs[0])
		}
	}
	// (a) index position: the value indexing SBIndices is advanced
	var idxPhis []ssa.Value
	for _, b := range g.Blocks {
		for _, in := range b.Instrs {
			ia, ok := in.(*ssa.IndexAddr)
			if !ok {
				continue
			}
			if s2, ok := ia.X.(*ssa.UnOp); ok {
				if fa, ok := s2.X.(*ssa.FieldAddr); ok {
					if nm, _, _ := fieldName(fa); nm == "SBIndices" {
						idxPhis = append(idxPhis, ia.Index)
					}
				}
			}
		}
	}
	isIdxAdvance := func(in ssa.Instruction) bool {
		bo, ok := in.(*ssa.BinOp)
		if !ok || bo.Op != token.ADD {
			return false
		}
		for _, ip := range idxPhis {
			// the add feeds (through phis) the value used as index, and one operand is itself that chain
			for _, rt := range roots(ip, g) {
				if rt.V == ssa.Value(bo) {
					return true
				}
			}
			if stripConv(bo.X) == stripConv(ip) {
				return true
			}
		}
		return false
	}
	// (only the exactly-one-label case is charged: for two or more labels the advance sits in a loop
	// bounded by the count, which a path-insensitive search would see as skippable)
	if len(idxPhis) > 0 && len(exactly1) > 0 {
		var wit []ssa.Instruction
		// an advance is an increment of the index position, or passing the header of a copy loop bounded by
		// the sub-block's count (which runs at least once for a sub-block that has labels)
		advance := func(in ssa.Instruction) bool {
			if isIdxAdvance(in) {
				return true
			}
			if ifi, ok := in.(*ssa.If); ok {
				if bo, ok := ifi.Cond.(*ssa.BinOp); ok && (bo.Op == token.LSS || bo.Op == token.LEQ) && derivesN(bo.Y) {
					return true
				}
			}
			return false
		}
		for _, s := range exactly1 {
			ifi := exactly1If[s]
			// reached the one-label test without an advance, and leaves the iteration still without one
			pre := findPath(g, n, advance, func(in ssa.Instruction) bool { return in == ssa.Instruction(ifi) }, nil)
			if pre == nil {
				continue
			}
			if p := findPath(g, s.Instrs[0], advance, nextIter, nil); p != nil && !advance(s.Instrs[0]) {
				wit = append(pre, p...)
			}
		}
		r.check(wit == nil, fname(g)+":index-position-advanced-per-sub-block", "every iteration over a sub-block that has labels advances the position in the sub-block index table",
			"an iteration over a sub-block that has labels can move on to the next sub-block without advancing the position in SBIndices (an early continue before the increment): every later sub-block is decoded against the wrong labels", w.pos(n.Pos()), w.renderPath(wit)...)
	}
	// (b) bit position: the byte-boundary step is reached
	isRound := func(in ssa.Instruction) bool {
		ifi, ok := in.(*ssa.If)
		if !ok {
			return false
		}
		bo, ok := ifi.Cond.(*ssa.BinOp)
		if !ok || !(bo.Op == token.NEQ || bo.Op == token.EQL) {
			return false
		}
		if k, ok := constInt(bo.Y); !ok || k != 0 {
			return false
		}
		rem, ok := stripConv(bo.X).(*ssa.BinOp)
		if !ok || rem.Op != token.REM {
			return false
		}
		k, ok := constInt(rem.Y)
		return ok && k == 8
	}
	// the function keeps a running bit position in this loop: the byte-boundary step lies inside the loop
	hasRound := false
	for _, b := range g.Blocks {
		if isRound(b.Instrs[len(b.Instrs)-1]) && (b == nb || (blockReaches(nb, b) && blockReaches(b, nb))) {
			// not the per-voxel output counter of binary blocks: the remainder must be of a value that is also
			// advanced by the bit width (heuristic kept simple: any REM-8 test in the loop that dominates the loop latch)
			hasRound = true
		}
	}
	if hasRound && len(atLeast2) > 0 {
		var wit []ssa.Instruction
		for _, s := range atLeast2 {
			if p := findPath(g, s.Instrs[0], isRound, nextIter, nil); p != nil && !isRound(s.Instrs[0]) {
				wit = p
			}
		}
		r.check(wit == nil, fname(g)+":bit-position-advanced-per-sub-block", "every iteration over a sub-block with two or more labels reaches the byte-boundary step of the packed values",
			"an iteration over a sub-block with two or more labels can move on to the next sub-block without stepping over that sub-block's packed values (an early continue before the bit position is advanced): every later sub-block is read from the wrong bits, so counts and views disagree with the uncompressed array", w.pos(n.Pos()), w.renderPath(wit)...)
	}
}
