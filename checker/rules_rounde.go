package main

import (
	"fmt"
	"go/token"
	"sort"
	"strings"

	"golang.org/x/tools/go/ssa"
)

// Round e rules for the compressed label block codec (C09).

func init() {
	register(ruleDef{ID: "R9.6", Prop: "C09", Tier: "quick", Floor: 2,
		Title: "a decoded block owns its bytes: in labels.Block.UnmarshalBinary (and every UnmarshalBinary of the labels package) no store into a field of the receiver holds the input slice or a re-slicing of it; the bytes arrive through copy into a fresh buffer",
		Fn:    ruleDecoderOwnsBytes})
	register(ruleDef{ID: "R9.7", Prop: "C09", Tier: "quick", Floor: 2,
		Title: "the parser accepts what the encoder emits: the sub-block-count limits of the block parser (setExportedVars) and of the encoder compare the same quantities with the same constant and the same operator",
		Fn:    ruleCodecLimitsAgree})
	register(ruleDef{ID: "R9.8", Prop: "C09", Tier: "quick", Floor: 2,
		Title: "a per-sub-block search starts afresh: in the labels package, a flag that a loop over a sub-block's label indices sets on a match (SBIndices[i] == wanted) enters that loop as false — it is not carried over from the previous sub-block",
		Fn:    ruleSearchFlagReset})
}

func ruleDecoderOwnsBytes(r *Run) {
	w := r.W
	n := 0
	for _, f := range w.RepoFuncs {
		if relPkg(pkgPathOf(f)) != "datatype/common/labels" || len(f.Blocks) == 0 || f.Name() != "UnmarshalBinary" || f.Signature.Recv() == nil || strings.HasSuffix(w.fposFile(f), "_test.go") {
			continue
		}
		if len(f.Params) != 2 {
			continue
		}
		recv, data := f.Params[0], f.Params[1]
		if _, isSlice := data.Type().Underlying().(interface{ Elem() interface{} }); isSlice {
			_ = isSlice
		}
		n++
		bad := ""
		for _, b := range f.Blocks {
			for _, in := range b.Instrs {
				st, ok := in.(*ssa.Store)
				if !ok {
					continue
				}
				fa, ok := st.Addr.(*ssa.FieldAddr)
				if !ok || !dataDeps(fa.X)[recv] && fa.X != ssa.Value(recv) {
					continue
				}
				if contentDeps(st.Val)[data] {
					name, _, _ := fieldName(fa)
					bad = name + " at " + w.pos(st.Pos())
				}
			}
		}
		r.check(bad == "", fname(f)+":owns-its-bytes", "no receiver field holds the input slice",
			"the decoded value keeps the caller's buffer ("+bad+"): a caller that reuses its read buffer for the next block silently changes the block decoded before", w.fpos(f))
	}
	r.check(n >= 1, "labels:binary-unmarshalers", fmt.Sprintf("%d", n), "none found: rule needs review", "-")
}

func ruleCodecLimitsAgree(r *Run) {
	w := r.W
	maxSB := w.pkgScopeConst("datatype/common/labels", "MaxSubBlockSize")
	if maxSB == nil {
		r.undecided("labels.MaxSubBlockSize", "constant not found")
		return
	}
	type cmp struct {
		fn  string
		ops []string
		pos string
	}
	var found []cmp
	for _, f := range w.RepoFuncs {
		if relPkg(pkgPathOf(f)) != "datatype/common/labels" || len(f.Blocks) == 0 || strings.HasSuffix(w.fposFile(f), "_test.go") {
			continue
		}
		var ops []string
		pos := ""
		for _, b := range f.Blocks {
			for _, in := range b.Instrs {
				bo, ok := in.(*ssa.BinOp)
				if !ok {
					continue
				}
				switch bo.Op {
				case token.GTR, token.GEQ, token.LSS, token.LEQ:
				default:
					continue
				}
				c, ok := bo.Y.(*ssa.Const)
				if !ok || c.Value == nil || c.Value.String() != maxSB.String() {
					continue
				}
				if _, isConst := bo.X.(*ssa.Const); isConst {
					continue
				}
				ops = append(ops, bo.Op.String())
				pos = w.pos(bo.Pos())
			}
		}
		if len(ops) >= 3 {
			found = append(found, cmp{fname(f), ops, pos})
		}
	}
	sort.Slice(found, func(i, j int) bool { return found[i].fn < found[j].fn })
	if len(found) < 2 {
		r.undecided("labels:sub-block-limit-tests", fmt.Sprintf("%d functions compare three dimensions with MaxSubBlockSize, expected the parser and the encoder", len(found)))
		return
	}
	ref := strings.Join(found[0].ops, " ")
	for _, c := range found {
		r.check(strings.Join(c.ops, " ") == ref, c.fn+":sub-block-limit-operators", "compares with "+strings.Join(c.ops, " ")+" like its sibling",
			"the parser and the encoder test the sub-block counts against MaxSubBlockSize with different operators ("+strings.Join(c.ops, " ")+" vs "+ref+"): a block of the maximum legal size is emitted by one side and refused by the other", c.pos)
	}
}

func ruleSearchFlagReset(r *Run) {
	w := r.W
	n := 0
	for _, f := range w.RepoFuncs {
		if relPkg(pkgPathOf(f)) != "datatype/common/labels" || len(f.Blocks) == 0 || strings.HasSuffix(w.fposFile(f), "_test.go") {
			continue
		}
		loops := naturalLoops(f)
		k := 0
		for _, b := range f.Blocks {
			ifi, ok := b.Instrs[len(b.Instrs)-1].(*ssa.If)
			if !ok {
				continue
			}
			bo, ok := ifi.Cond.(*ssa.BinOp)
			if !ok || bo.Op != token.EQL {
				continue
			}
			// SBIndices[i] == wanted
			isSB := func(v ssa.Value) bool {
				u, ok := stripConv(v).(*ssa.UnOp)
				if !ok || u.Op != token.MUL {
					return false
				}
				ia, ok := u.X.(*ssa.IndexAddr)
				if !ok {
					return false
				}
				for d := range dataDeps(ia.X) {
					if fa, ok := d.(*ssa.FieldAddr); ok {
						if name, _, _ := fieldName(fa); name == "SBIndices" {
							return true
						}
					}
				}
				return false
			}
			if !isSB(bo.X) && !isSB(bo.Y) {
				continue
			}
			// innermost loop containing the comparison
			h, set, _ := innermostLoop(f, b)
			if set == nil {
				continue
			}
			_ = loops
			// bool phis in the loop header with a `true` coming from inside the loop
			for _, in := range h.Instrs {
				phi, ok := in.(*ssa.Phi)
				if !ok {
					continue
				}
				if bt, ok := phi.Type().Underlying().(interface{ Kind() interface{} }); ok {
					_ = bt
				}
				if phi.Type().String() != "bool" {
					continue
				}
				setsTrue := false
				var entry []ssa.Value
				for i, e := range phi.Edges {
					pred := h.Preds[i]
					if set[pred] {
						for d := range dataDeps(e) {
							if c, ok := d.(*ssa.Const); ok && c.Value != nil && c.Value.String() == "true" {
								setsTrue = true
							}
						}
					} else {
						entry = append(entry, e)
					}
				}
				if !setsTrue {
					continue
				}
				k++
				n++
				fresh := len(entry) > 0
				for _, e := range entry {
					c, ok := e.(*ssa.Const)
					if !ok || c.Value == nil || c.Value.String() != "false" {
						fresh = false
					}
				}
				r.check(fresh, fmt.Sprintf("%s:match-flag#%d:starts-false", fname(f), k), "the flag enters the search loop as false",
					"the match flag of a search over one sub-block's label indices is carried over from the sub-block before: once the label was found in one sub-block, every later sub-block that does not contain it is counted or rewritten with the stale index", w.pos(phi.Pos()))
			}
		}
	}
	r.check(n >= 1, "labels:sub-block-label-searches", fmt.Sprintf("%d match flags in search loops over SBIndices", n), "none found: rule needs review", "-")
}

func init() {
	register(ruleDef{ID: "R9.9", Prop: "C09", Tier: "quick", Floor: 2,
		Title: "(the signed remainder rule R18.8 over the labels package) a coordinate's position inside its sub-block or block is never taken with a bare % or / of a value that can be negative",
		Fn:    func(r *Run) { ruleSignedRem(r, []string{"datatype/common/labels"}, 1) }})
}

func init() {
	register(ruleDef{ID: "R9.10", Prop: "C09", Tier: "quick", Floor: 2,
		Title: "runs stay inside the scan's bounds: in a labels function whose x scan ends on `vx > upper[0]`, every run length handed to RLE.Extend or dvid.NewRLE that is not the constant 1 is computed from that upper bound",
		Fn:    ruleRunLengthClipped})
}

func ruleRunLengthClipped(r *Run) {
	w := r.W
	n := 0
	for _, f := range w.RepoFuncs {
		if relPkg(pkgPathOf(f)) != "datatype/common/labels" || len(f.Blocks) == 0 || strings.HasSuffix(w.fposFile(f), "_test.go") {
			continue
		}
		// the scan's exit test: v > P[0] with P a point
		upperKeys := map[string]bool{}
		for _, b := range f.Blocks {
			for _, in := range b.Instrs {
				bo, ok := in.(*ssa.BinOp)
				if !ok || bo.Op != token.GTR {
					continue
				}
				if ld, ok := stripConv(bo.Y).(*ssa.UnOp); ok && ld.Op == token.MUL {
					if ia, ok := ld.X.(*ssa.IndexAddr); ok {
						if k, isK := constInt(ia.Index); isK && k == 0 && strings.HasSuffix(ia.X.Type().String(), "dvid.Point3d") {
							if _, isIf := b.Instrs[len(b.Instrs)-1].(*ssa.If); isIf {
								upperKeys[coordKey(ld)] = true
							}
						}
					}
				}
			}
		}
		if len(upperKeys) == 0 {
			continue
		}
		k := 0
		for _, c := range calls(f) {
			callee := staticCallee(c)
			if callee == nil {
				continue
			}
			var length ssa.Value
			args := c.Common().Args
			switch {
			case callee.Name() == "Extend" && len(args) == 2:
				length = args[1]
			case callee.Name() == "NewRLE" && len(args) == 2:
				length = args[1]
			}
			if length == nil {
				continue
			}
			k++
			n++
			// every non-constant source of the length involves the upper bound
			ok := true
			var check func(v ssa.Value, depth int)
			seen := map[ssa.Value]bool{}
			check = func(v ssa.Value, depth int) {
				v = stripConv(v)
				if seen[v] || depth > 6 {
					return
				}
				seen[v] = true
				if phi, isPhi := v.(*ssa.Phi); isPhi {
					for _, e := range phi.Edges {
						check(e, depth+1)
					}
					return
				}
				if c, isC := constInt(v); isC {
					if c != 1 && c != 0 {
						ok = false
					}
					return
				}
				uses := false
				for d := range dataDeps(v) {
					if upperKeys[coordKey(d)] {
						uses = true
					}
				}
				if !uses {
					// … or the value is compared with the upper bound (and replaced when it goes beyond)
					for _, b := range f.Blocks {
						for _, in := range b.Instrs {
							bo, isBo := in.(*ssa.BinOp)
							if !isBo {
								continue
							}
							switch bo.Op {
							case token.GTR, token.GEQ, token.LSS, token.LEQ:
							default:
								continue
							}
							// the fresh value itself enters the comparison (through arithmetic only, not through
							// the loop's phis: the scan's own exit test `vx > upper` sees it one iteration too late)
							var direct func(x ssa.Value, depth int) bool
							direct = func(x ssa.Value, depth int) bool {
								x = stripConv(x)
								if x == v {
									return true
								}
								if b2, isB := x.(*ssa.BinOp); isB && depth < 5 {
									return direct(b2.X, depth+1) || direct(b2.Y, depth+1)
								}
								return false
							}
							hasV := func(x ssa.Value) bool { return direct(x, 0) }
							hasU := func(x ssa.Value) bool {
								if upperKeys[coordKey(stripConv(x))] {
									return true
								}
								for d := range dataDeps(x) {
									if upperKeys[coordKey(d)] {
										return true
									}
								}
								return false
							}
							if (hasV(bo.X) && hasU(bo.Y)) || (hasV(bo.Y) && hasU(bo.X)) {
								uses = true
							}
						}
					}
				}
				if !uses {
					ok = false
				}
			}
			check(length, 0)
			r.check(ok, fmt.Sprintf("%s:run-length#%d:clipped", fname(f), k), "each run length is 1 or computed from the upper bound",
				"a run is extended by a step that is never compared with the scan's upper x bound (the rest of a single-label sub-block): with exact bounds the run-length view returns voxels outside the bounds, and disagrees with the voxel view", w.pos(c.Pos()))
		}
	}
	r.check(n >= 1, "labels:run-lengths-in-bounded-scans", fmt.Sprintf("%d", n), "none found: rule needs review", "-")
}
