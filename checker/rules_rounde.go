package main

import (
	"fmt"
	"go/token"
	"go/types"
	"sort"
	"strings"

	"golang.org/x/tools/go/ssa"
)

// Round e rules for the compressed label block codec (C09).

func init() {
	register(ruleDef{ID: "R9.6", Prop: "C09", Tier: "quick", Floor: 2,
		Title: "a decoded block owns its bytes: in labels.Block.UnmarshalBinary (and every UnmarshalBinary of the labels package) no store into a field of the receiver holds the input slice or a re-slicing of it; the bytes arrive through copy into a fresh buffer",
		Fn:    ruleDecoderOwnsBytes})
	register(ruleDef{ID: "R9.7", Prop: "C09", Tier: "quick", Floor: 2,
		Title: "the parser accepts what the encoder emits: the sub-block-count limits of the block parser (setExportedVars) and of the encoder compare the same quantities with the same constant and the same operator",
		Fn:    ruleCodecLimitsAgree})
	register(ruleDef{ID: "R9.8", Prop: "C09", Tier: "quick", Floor: 2,
		Title: "a per-sub-block search starts afresh: in the labels package, a flag that a loop over a sub-block's label indices sets on a match (SBIndices[i] == wanted) enters that loop as false — it is not carried over from the previous sub-block",
		Fn:    ruleSearchFlagReset})
}

func ruleDecoderOwnsBytes(r *Run) {
	w := r.W
	n := 0
	for _, f := range w.RepoFuncs {
		if relPkg(pkgPathOf(f)) != "datatype/common/labels" || len(f.Blocks) == 0 || f.Name() != "UnmarshalBinary" || f.Signature.Recv() == nil || strings.HasSuffix(w.fposFile(f), "_test.go") {
			continue
		}
		if len(f.Params) != 2 {
			continue
		}
		recv, data := f.Params[0], f.Params[1]
		if _, isSlice := data.Type().Underlying().(interface{ Elem() interface{} }); isSlice {
			_ = isSlice
		}
		n++
		bad := ""
		for _, b := range f.Blocks {
			for _, in := range b.Instrs {
				st, ok := in.(*ssa.Store)
				if !ok {
					continue
				}
				fa, ok := st.Addr.(*ssa.FieldAddr)
				if !ok || !dataDeps(fa.X)[recv] && fa.X != ssa.Value(recv) {
					continue
				}
				if contentDeps(st.Val)[data] {
					name, _, _ := fieldName(fa)
					bad = name + " at " + w.pos(st.Pos())
				}
			}
		}
		r.check(bad == "", fname(f)+":owns-its-bytes", "no receiver field holds the input slice",
			"the decoded value keeps the caller's buffer ("+bad+"): a caller that reuses its read buffer for the next block silently changes the block decoded before", w.fpos(f))
	}
	r.check(n >= 1, "labels:binary-unmarshalers", fmt.Sprintf("%d", n), "none found: rule needs review", "-")
}

func ruleCodecLimitsAgree(r *Run) {
	w := r.W
	maxSB := w.pkgScopeConst("datatype/common/labels", "MaxSubBlockSize")
	if maxSB == nil {
		r.undecided("labels.MaxSubBlockSize", "constant not found")
		return
	}
	type cmp struct {
		fn  string
		ops []string
		pos string
	}
	var found []cmp
	for _, f := range w.RepoFuncs {
		if relPkg(pkgPathOf(f)) != "datatype/common/labels" || len(f.Blocks) == 0 || strings.HasSuffix(w.fposFile(f), "_test.go") {
			continue
		}
		var ops []string
		pos := ""
		for _, b := range f.Blocks {
			for _, in := range b.Instrs {
				bo, ok := in.(*ssa.BinOp)
				if !ok {
					continue
				}
				switch bo.Op {
				case token.GTR, token.GEQ, token.LSS, token.LEQ:
				default:
					continue
				}
				c, ok := bo.Y.(*ssa.Const)
				if !ok || c.Value == nil || c.Value.String() != maxSB.String() {
					continue
				}
				if _, isConst := bo.X.(*ssa.Const); isConst {
					continue
				}
				ops = append(ops, bo.Op.String())
				pos = w.pos(bo.Pos())
			}
		}
		if len(ops) >= 3 {
			found = append(found, cmp{fname(f), ops, pos})
		}
	}
	sort.Slice(found, func(i, j int) bool { return found[i].fn < found[j].fn })
	if len(found) < 2 {
		r.undecided("labels:sub-block-limit-tests", fmt.Sprintf("%d functions compare three dimensions with MaxSubBlockSize, expected the parser and the encoder", len(found)))
		return
	}
	ref := strings.Join(found[0].ops, " ")
	for _, c := range found {
		r.check(strings.Join(c.ops, " ") == ref, c.fn+":sub-block-limit-operators", "compares with "+strings.Join(c.ops, " ")+" like its sibling",
			"the parser and the encoder test the sub-block counts against MaxSubBlockSize with different operators ("+strings.Join(c.ops, " ")+" vs "+ref+"): a block of the maximum legal size is emitted by one side and refused by the other", c.pos)
	}
}

func ruleSearchFlagReset(r *Run) {
	w := r.W
	n := 0
	for _, f := range w.RepoFuncs {
		if relPkg(pkgPathOf(f)) != "datatype/common/labels" || len(f.Blocks) == 0 || strings.HasSuffix(w.fposFile(f), "_test.go") {
			continue
		}
		loops := naturalLoops(f)
		k := 0
		for _, b := range f.Blocks {
			ifi, ok := b.Instrs[len(b.Instrs)-1].(*ssa.If)
			if !ok {
				continue
			}
			bo, ok := ifi.Cond.(*ssa.BinOp)
			if !ok || bo.Op != token.EQL {
				continue
			}
			// SBIndices[i] == wanted
			isSB := func(v ssa.Value) bool {
				u, ok := stripConv(v).(*ssa.UnOp)
				if !ok || u.Op != token.MUL {
					return false
				}
				ia, ok := u.X.(*ssa.IndexAddr)
				if !ok {
					return false
				}
				for d := range dataDeps(ia.X) {
					if fa, ok := d.(*ssa.FieldAddr); ok {
						if name, _, _ := fieldName(fa); name == "SBIndices" {
							return true
						}
					}
				}
				return false
			}
			if !isSB(bo.X) && !isSB(bo.Y) {
				continue
			}
			// innermost loop containing the comparison
			h, set, _ := innermostLoop(f, b)
			if set == nil {
				continue
			}
			_ = loops
			// bool phis in the loop header with a `true` coming from inside the loop
			for _, in := range h.Instrs {
				phi, ok := in.(*ssa.Phi)
				if !ok {
					continue
				}
				if bt, ok := phi.Type().Underlying().(interface{ Kind() interface{} }); ok {
					_ = bt
				}
				if phi.Type().String() != "bool" {
					continue
				}
				setsTrue := false
				var entry []ssa.Value
				for i, e := range phi.Edges {
					pred := h.Preds[i]
					if set[pred] {
						for d := range dataDeps(e) {
							if c, ok := d.(*ssa.Const); ok && c.Value != nil && c.Value.String() == "true" {
								setsTrue = true
							}
						}
					} else {
						entry = append(entry, e)
					}
				}
				if !setsTrue {
					continue
				}
				k++
				n++
				fresh := len(entry) > 0
				for _, e := range entry {
					c, ok := e.(*ssa.Const)
					if !ok || c.Value == nil || c.Value.String() != "false" {
						fresh = false
					}
				}
				r.check(fresh, fmt.Sprintf("%s:match-flag#%d:starts-false", fname(f), k), "the flag enters the search loop as false",
					"the match flag of a search over one sub-block's label indices is carried over from the sub-block before: once the label was found in one sub-block, every later sub-block that does not contain it is counted or rewritten with the stale index", w.pos(phi.Pos()))
			}
		}
	}
	r.check(n >= 1, "labels:sub-block-label-searches", fmt.Sprintf("%d match flags in search loops over SBIndices", n), "none found: rule needs review", "-")
}

func init() {
	register(ruleDef{ID: "R9.9", Prop: "C09", Tier: "quick", Floor: 2,
		Title: "(the signed remainder rule R18.8 over the labels package) a coordinate's position inside its sub-block or block is never taken with a bare % or / of a value that can be negative",
		Fn:    func(r *Run) { ruleSignedRem(r, []string{"datatype/common/labels"}, 1) }})
}

func init() {
	register(ruleDef{ID: "R9.10", Prop: "C09", Tier: "quick", Floor: 2,
		Title: "runs stay inside the scan's bounds: in a labels function whose x scan ends on `vx > upper[0]`, every run length handed to RLE.Extend or dvid.NewRLE that is not the constant 1 is computed from that upper bound",
		Fn:    ruleRunLengthClipped})
}

func ruleRunLengthClipped(r *Run) {
	w := r.W
	n := 0
	for _, f := range w.RepoFuncs {
		if relPkg(pkgPathOf(f)) != "datatype/common/labels" || len(f.Blocks) == 0 || strings.HasSuffix(w.fposFile(f), "_test.go") {
			continue
		}
		// the scan's exit test: v > P[0] with P a point
		upperKeys := map[string]bool{}
		for _, b := range f.Blocks {
			for _, in := range b.Instrs {
				bo, ok := in.(*ssa.BinOp)
				if !ok || bo.Op != token.GTR {
					continue
				}
				if ld, ok := stripConv(bo.Y).(*ssa.UnOp); ok && ld.Op == token.MUL {
					if ia, ok := ld.X.(*ssa.IndexAddr); ok {
						if k, isK := constInt(ia.Index); isK && k == 0 && strings.HasSuffix(ia.X.Type().String(), "dvid.Point3d") {
							if _, isIf := b.Instrs[len(b.Instrs)-1].(*ssa.If); isIf {
								upperKeys[coordKey(ld)] = true
							}
						}
					}
				}
			}
		}
		if len(upperKeys) == 0 {
			continue
		}
		k := 0
		for _, c := range calls(f) {
			callee := staticCallee(c)
			if callee == nil {
				continue
			}
			var length ssa.Value
			args := c.Common().Args
			switch {
			case callee.Name() == "Extend" && len(args) == 2:
				length = args[1]
			case callee.Name() == "NewRLE" && len(args) == 2:
				length = args[1]
			}
			if length == nil {
				continue
			}
			k++
			n++
			// every non-constant source of the length involves the upper bound
			ok := true
			var check func(v ssa.Value, depth int)
			seen := map[ssa.Value]bool{}
			check = func(v ssa.Value, depth int) {
				v = stripConv(v)
				if seen[v] || depth > 6 {
					return
				}
				seen[v] = true
				if phi, isPhi := v.(*ssa.Phi); isPhi {
					for _, e := range phi.Edges {
						check(e, depth+1)
					}
					return
				}
				if c, isC := constInt(v); isC {
					if c != 1 && c != 0 {
						ok = false
					}
					return
				}
				uses := false
				for d := range dataDeps(v) {
					if upperKeys[coordKey(d)] {
						uses = true
					}
				}
				if !uses {
					// … or the value is compared with the upper bound (and replaced when it goes beyond)
					for _, b := range f.Blocks {
						for _, in := range b.Instrs {
							bo, isBo := in.(*ssa.BinOp)
							if !isBo {
								continue
							}
							switch bo.Op {
							case token.GTR, token.GEQ, token.LSS, token.LEQ:
							default:
								continue
							}
							// the fresh value itself enters the comparison (through arithmetic only, not through
							// the loop's phis: the scan's own exit test `vx > upper` sees it one iteration too late)
							var direct func(x ssa.Value, depth int) bool
							direct = func(x ssa.Value, depth int) bool {
								x = stripConv(x)
								if x == v {
									return true
								}
								if b2, isB := x.(*ssa.BinOp); isB && depth < 5 {
									return direct(b2.X, depth+1) || direct(b2.Y, depth+1)
								}
								return false
							}
							hasV := func(x ssa.Value) bool { return direct(x, 0) }
							hasU := func(x ssa.Value) bool {
								if upperKeys[coordKey(stripConv(x))] {
									return true
								}
								for d := range dataDeps(x) {
									if upperKeys[coordKey(d)] {
										return true
									}
								}
								return false
							}
							if (hasV(bo.X) && hasU(bo.Y)) || (hasV(bo.Y) && hasU(bo.X)) {
								uses = true
							}
						}
					}
				}
				if !uses {
					ok = false
				}
			}
			check(length, 0)
			r.check(ok, fmt.Sprintf("%s:run-length#%d:clipped", fname(f), k), "each run length is 1 or computed from the upper bound",
				"a run is extended by a step that is never compared with the scan's upper x bound (the rest of a single-label sub-block): with exact bounds the run-length view returns voxels outside the bounds, and disagrees with the voxel view", w.pos(c.Pos()))
		}
	}
	r.check(n >= 1, "labels:run-lengths-in-bounded-scans", fmt.Sprintf("%d", n), "none found: rule needs review", "-")
}

// ---------------------------------------------------------------------------------------------
// C14 round e: the geometry of one down-sampling step.

func init() {
	register(ruleDef{ID: "R14.11", Prop: "C14", Tier: "quick", Floor: 2,
		Title: "the parent of a block is found by an arithmetic shift, not a division: no signed `/ constant` is applied to a component of a block coordinate (dvid.ChunkPoint3d) in the labelmap and labelarray down-sampling code (a division rounds negative odd coordinates toward zero, into the wrong parent)",
		Fn:    ruleParentByShift})
	register(ruleDef{ID: "R14.12", Prop: "C14", Tier: "quick", Floor: 2,
		Title: "the lower-resolution block is read at the scale it is written to: in the per-octant worker the scale handed to the block reader equals the scale of the key the result is put under",
		Fn:    ruleLoresScaleAgrees})
	register(ruleDef{ID: "R14.13", Prop: "C14", Tier: "quick", Floor: 2,
		Title: "every group of octants votes into a block of its own: the block that receives a group's vote is produced (made empty, or read from the store) inside the loop over groups, never once per worker",
		Fn:    ruleReceivingBlockPerGroup})
	register(ruleDef{ID: "R14.14", Prop: "C14", Tier: "quick", Floor: 2,
		Title: "an octant's place in its parent uses each axis's own size: the x, y and z offsets handed to the voting routine are computed from Size[0], Size[1] and Size[2] respectively",
		Fn:    ruleOctantOffsetsPerAxis})
}

func ruleParentByShift(r *Run) {
	w := r.W
	n, shifts := 0, 0
	for _, f := range w.RepoFuncs {
		p := relPkg(pkgPathOf(f))
		if (p != "datatype/labelmap" && p != "datatype/labelarray" && p != "datatype/common/downres") || len(f.Blocks) == 0 || strings.HasSuffix(w.fposFile(f), "_test.go") {
			continue
		}
		isChunkComponent := func(v ssa.Value) bool {
			switch x := stripConv(v).(type) {
			case *ssa.UnOp:
				if ia, ok := x.X.(*ssa.IndexAddr); ok {
					return strings.HasSuffix(ia.X.Type().String(), "dvid.ChunkPoint3d")
				}
			case *ssa.Index:
				return strings.HasSuffix(x.X.Type().String(), "dvid.ChunkPoint3d")
			}
			return false
		}
		k := 0
		for _, b := range f.Blocks {
			for _, in := range b.Instrs {
				bo, ok := in.(*ssa.BinOp)
				if !ok || !isChunkComponent(bo.X) {
					continue
				}
				if _, isK := constInt(bo.Y); !isK {
					continue
				}
				switch bo.Op {
				case token.SHR:
					shifts++
				case token.QUO:
					k++
					n++
					r.violation(fmt.Sprintf("%s:block-coordinate-divided#%d", fname(f), k),
						"a component of a block coordinate is divided by a constant: for negative odd coordinates the division rounds toward zero, so the block lands in the wrong parent block and octant and the lower levels differ from the documented down-sampling", w.pos(bo.Pos()))
				}
			}
		}
	}
	r.check(shifts >= 3, "downres:parent-coordinates-by-shift", fmt.Sprintf("%d shifts of block-coordinate components, %d divisions", shifts, n), "the shifts that compute parent coordinates were not found: rule needs review", "-")
	r.check(true, "downres:scanned", "down-sampling packages scanned", "", "-")
}

func ruleLoresScaleAgrees(r *Run) {
	w := r.W
	n := 0
	for _, f := range w.RepoFuncs {
		p := relPkg(pkgPathOf(f))
		if (p != "datatype/labelmap" && p != "datatype/labelarray") || len(f.Blocks) == 0 || strings.HasSuffix(w.fposFile(f), "_test.go") {
			continue
		}
		var reads, writes []ssa.Value
		var at ssa.Instruction
		for _, c := range calls(f) {
			callee := staticCallee(c)
			if callee == nil {
				continue
			}
			args := c.Common().Args
			switch callee.Name() {
			case "getSupervoxelBlock", "getLabelBlock":
				if len(args) == 4 {
					reads = append(reads, args[3])
					at = c
				}
			case "NewBlockTKeyByCoord":
				if len(args) == 2 {
					writes = append(writes, args[0])
				}
			}
		}
		// the read of the receiving block may sit in a helper of the worker (d.initialLoresBlock(..., scale, ...)): the
		// scale it reads at is the argument handed to the helper's parameter
		for _, c := range calls(f) {
			g := staticCallee(c)
			if g == nil || g == f || g.Pkg != f.Pkg || len(g.Blocks) == 0 || g.Object() == nil || g.Object().Exported() {
				continue
			}
			for _, gc := range calls(g) {
				callee := staticCallee(gc)
				if callee == nil || (callee.Name() != "getSupervoxelBlock" && callee.Name() != "getLabelBlock") || len(gc.Common().Args) != 4 {
					continue
				}
				for i, prm := range g.Params {
					if stripConv(gc.Common().Args[3]) == ssa.Value(prm) && i < len(c.Common().Args) {
						reads = append(reads, c.Common().Args[i])
						at = c
					}
				}
			}
		}
		// the per-octant worker: it votes (calls Downres) and both reads and writes blocks
		votes := false
		for _, c := range calls(f) {
			if callee := staticCallee(c); callee != nil && callee.Name() == "Downres" {
				votes = true
			}
		}
		if !votes || len(reads) == 0 || len(writes) == 0 {
			continue
		}
		n++
		same := true
		ref := linCK(writes[0], 0)
		for _, v := range append(reads, writes...) {
			d := linCK(v, 0).add(ref, -1)
			if !d.ok || len(d.terms) != 0 || d.c != 0 {
				same = false
			}
		}
		r.check(same, fname(f)+":lores-read-and-write-scale", "the block is read at the scale it is written to",
			"the receiving block of a partial group is read at one scale and the result written at another: the octants that did not change are overwritten with data of the wrong level (or zeros)", w.pos(at.Pos()))
	}
	r.check(n >= 1, "downres:octant-workers", fmt.Sprintf("%d", n), "none found: rule needs review", "-")
}

func ruleReceivingBlockPerGroup(r *Run) {
	w := r.W
	n := 0
	for _, f := range w.RepoFuncs {
		p := relPkg(pkgPathOf(f))
		if (p != "datatype/labelmap" && p != "datatype/labelarray") || len(f.Blocks) == 0 || strings.HasSuffix(w.fposFile(f), "_test.go") {
			continue
		}
		for _, c := range calls(f) {
			callee := staticCallee(c)
			if callee == nil || callee.Name() != "Downres" || len(c.Common().Args) < 1 {
				continue
			}
			h, set, _ := innermostLoop(f, c.Block())
			if set == nil {
				continue
			}
			_ = h
			n++
			ok := true
			bad := ""
			for _, rt := range roots(c.Common().Args[0], f) {
				in, isInstr := rt.V.(ssa.Instruction)
				if !isInstr || rt.Fn != f {
					continue
				}
				if _, isCall := rt.V.(*ssa.Call); !isCall {
					if ex, isEx := rt.V.(*ssa.Extract); isEx {
						in = ex.Tuple.(ssa.Instruction)
					} else {
						continue
					}
				}
				if !set[in.Block()] {
					ok = false
					bad = w.pos(in.Pos())
				}
			}
			r.check(ok, fname(f)+":receiving-block-made-per-group", "the receiving block is produced inside the loop over groups",
				"the block that receives the vote is made once outside the loop over groups ("+bad+"): the entries of the result map alias one block, so the next level up is voted from another group's data", w.pos(c.Pos()))
		}
	}
	r.check(n >= 1, "downres:votes-in-loops", fmt.Sprintf("%d", n), "none found: rule needs review", "-")
}

func ruleOctantOffsetsPerAxis(r *Run) {
	w := r.W
	n := 0
	for _, f := range w.RepoFuncs {
		if relPkg(pkgPathOf(f)) != "datatype/common/labels" || len(f.Blocks) == 0 || strings.HasSuffix(w.fposFile(f), "_test.go") {
			continue
		}
		for _, c := range calls(f) {
			callee := staticCallee(c)
			if callee == nil || callee.Name() != "downresArray" || len(c.Common().Args) != 6 {
				continue
			}
			n++
			ok := true
			for axis := 0; axis < 3; axis++ {
				arg := c.Common().Args[2+axis]
				uses := map[int64]bool{}
				for d := range dataDeps(arg) {
					if ia, isIA := d.(*ssa.IndexAddr); isIA {
						if fa, isFA := ia.X.(*ssa.FieldAddr); isFA {
							if name, _, _ := fieldName(fa); name == "Size" {
								if k, isK := constInt(ia.Index); isK {
									uses[k] = true
								}
							}
						}
					}
				}
				if len(uses) > 0 && (!uses[int64(axis)] || len(uses) != 1) {
					ok = false
				}
			}
			r.check(ok, fname(f)+":octant-offsets-per-axis", "each offset uses its own axis's size",
				"the offset of an octant inside its parent is computed from another axis's size: for blocks that are not cubes the octants are voted into the wrong place of the lower-resolution block", w.pos(c.Pos()))
		}
	}
	r.check(n >= 1, "labels:votes-with-offsets", fmt.Sprintf("%d", n), "none found: rule needs review", "-")
}

func init() {
	register(ruleDef{ID: "R14.15", Prop: "C14", Tier: "quick", Floor: 2,
		Title: "what reached level 0 reaches the pyramid: in a function that opens a down-sampling mutation and stores blocks in a loop, no return is reachable from a store inside the loop without passing the mutation's Execute (or the test of the flag that switches down-sampling off)",
		Fn:    ruleStoredBlocksDownsampled})
}

func ruleStoredBlocksDownsampled(r *Run) {
	w := r.W
	sinks := w.newSinks()
	n := 0
	for _, f := range w.RepoFuncs {
		p := relPkg(pkgPathOf(f))
		if (p != "datatype/labelmap" && p != "datatype/labelarray") || len(f.Blocks) == 0 || f.Parent() != nil || strings.HasSuffix(w.fposFile(f), "_test.go") {
			continue
		}
		var exec ssa.Instruction
		opens := false
		for _, c := range calls(f) {
			callee := staticCallee(c)
			if callee == nil {
				continue
			}
			if callee.Name() == "NewMutation" && relPkg(pkgPathOf(callee)) == "datatype/common/downres" {
				opens = true
			}
			if callee.Name() == "Execute" && relPkg(pkgPathOf(callee)) == "datatype/common/downres" {
				if _, isDefer := c.(*ssa.Defer); !isDefer {
					exec = c
				}
			}
		}
		if !opens || exec == nil {
			continue
		}
		// the flag that switches down-sampling off: a bool parameter tested by an If that dominates Execute
		// (a parameter captured by a closure is spilled to a cell: then the test reads the cell)
		paramOf := func(v ssa.Value) ssa.Value {
			if prm, ok := v.(*ssa.Parameter); ok {
				return prm
			}
			if ld, ok := v.(*ssa.UnOp); ok && ld.Op == token.MUL {
				if al, ok := ld.X.(*ssa.Alloc); ok {
					var only ssa.Value
					cnt := 0
					for _, ref := range *al.Referrers() {
						if st, ok := ref.(*ssa.Store); ok && st.Addr == ssa.Value(al) {
							cnt++
							only = st.Val
						}
					}
					if prm, ok := only.(*ssa.Parameter); ok && cnt == 1 {
						return prm
					}
				}
			}
			return nil
		}
		var flag ssa.Value
		for _, b := range f.Blocks {
			if ifi, ok := b.Instrs[len(b.Instrs)-1].(*ssa.If); ok && b.Dominates(exec.Block()) {
				if prm := paramOf(ifi.Cond); prm != nil {
					flag = prm
				}
			}
		}
		barrier := func(x ssa.Instruction) bool {
			if x == exec {
				return true
			}
			if ifi, ok := x.(*ssa.If); ok && flag != nil && paramOf(ifi.Cond) == flag {
				return true
			}
			return false
		}
		loops := naturalLoops(f)
		inLoop := func(b *ssa.BasicBlock) bool {
			for _, s := range loops {
				if s[b] {
					return true
				}
			}
			return false
		}
		k := 0
		for _, c := range calls(f) {
			if _, isGo := c.(*ssa.Go); isGo {
				continue
			}
			if !(sinks.isStorageWrite(c) || methodNameOf(c) == "PutCallback") || !inLoop(c.Block()) {
				continue
			}
			k++
			n++
			p := findPath(f, c, barrier, func(x ssa.Instruction) bool { _, ok := x.(*ssa.Return); return ok }, allEdges)
			r.check(p == nil, fmt.Sprintf("%s:block-store#%d:downsampled-before-return", fname(f), k), "every return after the store passes Execute or the switch that turns down-sampling off",
				"a block is stored at level 0 inside the loop and the function can return (on a later malformed or failing block) without running the down-sampling: the lower-resolution levels no longer match level 0, and the instance reports idle", w.pos(c.Pos()), w.renderPath(p)...)
		}
	}
	r.check(n >= 1, "label-types:block-stores-in-downres-loops", fmt.Sprintf("%d", n), "none found: rule needs review", "-")
}

// ---------------------------------------------------------------------------------------------
// C17 round e.

func init() {
	register(ruleDef{ID: "R17.7", Prop: "C17", Tier: "quick", Floor: 2,
		Title: "grown extents are reported: the result of Extents.AdjustPoints is computed from the change of the minimum and from the change of the maximum (both, not the last one assigned), since the callers persist the extents only when it says true",
		Fn:    ruleAdjustReportsBothEnds})
	register(ruleDef{ID: "R17.8", Prop: "C17", Tier: "quick", Floor: 2,
		Title: "a block read for a span lands at its own place: in imageblk's span reader the bounds of the output slice handed to the transfer goroutine are computed from the block coordinate decoded from the key, not from the number of blocks received",
		Fn:    ruleSpanBlockPlacedByKey})
	reg := func(id, prop string) {
		register(ruleDef{ID: id, Prop: prop, Tier: "quick", Floor: 2,
			Title: "a mutex shared by goroutines is made once: in every data-type function that starts goroutines in a loop, a sync.Mutex locked inside such a goroutine is not allocated inside that loop (one mutex per iteration serialises nothing, and the goroutines write to the shared response at once)",
			Fn:    ruleSharedMutexOutsideLoop})
	}
	reg("R17.9", "C17")
	reg("R20.34", "C20")
	register(ruleDef{ID: "R17.10", Prop: "C17", Tier: "quick", Floor: 2,
		Title: "every block that was written into is stored: in imageblk's chunk writer no return is reachable after the voxels were written into the block without passing the store (Put / PutCallback) or an error report",
		Fn:    ruleWrittenBlockStored})
}

func ruleAdjustReportsBothEnds(r *Run) {
	w := r.W
	f := w.method("dvid", "Extents", "AdjustPoints")
	if f == nil {
		r.undecided("dvid.Extents.AdjustPoints", "anchor not found")
		return
	}
	var minCall, maxCall ssa.Value
	for _, c := range calls(f) {
		if cv, ok := c.(*ssa.Call); ok {
			switch methodNameOf(c) {
			case "Min":
				minCall = cv
			case "Max":
				maxCall = cv
			}
		}
	}
	r.check(minCall != nil && maxCall != nil, "AdjustPoints:min-and-max", "both ends are adjusted", "the Min/Max calls were not found: rule needs review", w.fpos(f))
	ok := false
	for _, b := range f.Blocks {
		if ret, isRet := b.Instrs[len(b.Instrs)-1].(*ssa.Return); isRet && len(ret.Results) == 1 {
			deps := dataDeps(ret.Results[0])
			// `a || b` compiles to a branch on a: what decides a dominating branch also decides the result
			for _, b2 := range f.Blocks {
				if ifi, isIf := b2.Instrs[len(b2.Instrs)-1].(*ssa.If); isIf && b2.Dominates(b) {
					for d := range dataDeps(ifi.Cond) {
						deps[d] = true
					}
				}
			}
			if minCall != nil && maxCall != nil && deps[minCall] && deps[maxCall] {
				ok = true
			}
		}
	}
	r.check(ok, "AdjustPoints:result-from-both-ends", "the result depends on the change of the minimum and of the maximum",
		"the result reports only the last comparison: a write that extends the volume towards smaller coordinates only returns false, the callers skip persisting the extents, and the advertised extents no longer cover the written voxels", w.fpos(f))
}

func ruleSpanBlockPlacedByKey(r *Run) {
	w := r.W
	n := 0
	for _, f := range w.RepoFuncs {
		if relPkg(pkgPathOf(f)) != "datatype/imageblk" || len(f.Blocks) == 0 || strings.HasSuffix(w.fposFile(f), "_test.go") {
			continue
		}
		// the chunk callback: it decodes the key and starts a transfer goroutine on a slice of the buffer
		var decode ssa.Value
		for _, c := range calls(f) {
			if callee := staticCallee(c); callee != nil && callee.Name() == "DecodeTKey" {
				decode, _ = c.(*ssa.Call)
			}
		}
		if decode == nil {
			continue
		}
		for _, b := range f.Blocks {
			for _, in := range b.Instrs {
				g, ok := in.(*ssa.Go)
				if !ok || len(g.Call.Args) == 0 {
					continue
				}
				sl, ok := g.Call.Args[0].(*ssa.Slice)
				if !ok || sl.Low == nil {
					continue
				}
				n++
				r.check(dataDeps(sl.Low)[decode], fname(f)+":span-block:placed-by-key", "the slice bounds come from the decoded block coordinate",
					"the place of a block in the span's output is computed without the block coordinate decoded from its key: when an earlier block of the span was never written, the later blocks shift into its place", w.pos(sl.Pos()))
			}
		}
	}
	r.check(n >= 1, "imageblk:span-readers", fmt.Sprintf("%d", n), "none found: rule needs review", "-")
}

func ruleSharedMutexOutsideLoop(r *Run) {
	w := r.W
	n := 0
	for _, f := range w.RepoFuncs {
		if !strings.HasPrefix(relPkg(pkgPathOf(f)), "datatype/") || len(f.Blocks) == 0 || f.Parent() != nil || strings.HasSuffix(w.fposFile(f), "_test.go") {
			continue
		}
		loops := naturalLoops(f)
		k := 0
		for _, b := range f.Blocks {
			for _, in := range b.Instrs {
				g, ok := in.(*ssa.Go)
				if !ok {
					continue
				}
				mc, ok := g.Call.Value.(*ssa.MakeClosure)
				if !ok {
					continue
				}
				var loop map[*ssa.BasicBlock]bool
				for _, s := range loops {
					if s[b] && (loop == nil || len(s) < len(loop)) {
						loop = s
					}
				}
				if loop == nil {
					continue
				}
				cl, _ := mc.Fn.(*ssa.Function)
				if cl == nil {
					continue
				}
				// mutexes the goroutine locks through a captured variable
				for i, bind := range mc.Bindings {
					if i >= len(cl.FreeVars) {
						continue
					}
					locked := false
					for _, ref := range *cl.FreeVars[i].Referrers() {
						vals := []ssa.Value{}
						if ld, ok := ref.(*ssa.UnOp); ok {
							vals = append(vals, ld)
						}
						if v, ok := ref.(ssa.Value); ok {
							vals = append(vals, v)
						}
						for _, v := range vals {
							if v.Referrers() == nil {
								continue
							}
							for _, r2 := range *v.Referrers() {
								if c, ok := r2.(ssa.CallInstruction); ok {
									if callee := staticCallee(c); callee != nil && (callee.Name() == "Lock" || callee.Name() == "RLock") && callee.Pkg != nil && callee.Pkg.Pkg.Path() == "sync" {
										locked = true
									}
								}
							}
						}
						if c, ok := ref.(ssa.CallInstruction); ok {
							if callee := staticCallee(c); callee != nil && callee.Name() == "Lock" && callee.Pkg != nil && callee.Pkg.Pkg.Path() == "sync" {
								locked = true
							}
						}
					}
					if !locked {
						continue
					}
					k++
					n++
					// where is the mutex made?
					inside := false
					for d := range dataDeps(bind) {
						if al, ok := d.(*ssa.Alloc); ok && strings.Contains(al.Type().String(), "sync.") && al.Heap && loop[al.Block()] {
							inside = true
						}
					}
					r.check(!inside, fmt.Sprintf("%s:goroutine-mutex#%d:made-outside-the-loop", fname(f), k), "the mutex the goroutines lock is made before the loop",
						"the mutex that the goroutines of this loop lock is allocated inside the loop: every goroutine gets its own, nothing is serialised, and they write to the shared response writer at the same time (interleaved or torn records)", w.pos(g.Pos()))
				}
			}
		}
	}
	r.check(n >= 1, "datatypes:goroutines-locking-a-captured-mutex", fmt.Sprintf("%d", n), "none found: rule needs review", "-")
}

func ruleWrittenBlockStored(r *Run) {
	w := r.W
	sinks := w.newSinks()
	n := 0
	for _, f := range w.RepoFuncs {
		if relPkg(pkgPathOf(f)) != "datatype/imageblk" || len(f.Blocks) == 0 || strings.HasSuffix(w.fposFile(f), "_test.go") {
			continue
		}
		var wb ssa.Instruction
		for _, c := range calls(f) {
			if methodNameOf(c) == "WriteBlock" {
				wb = c
			}
		}
		if wb == nil {
			continue
		}
		stores := false
		for _, c := range calls(f) {
			if sinks.isStorageWrite(c) || methodNameOf(c) == "PutCallback" {
				stores = true
			}
		}
		if !stores {
			continue
		}
		n++
		barrier := func(x ssa.Instruction) bool {
			c, ok := x.(ssa.CallInstruction)
			if !ok {
				return false
			}
			if sinks.isStorageWrite(c) || methodNameOf(c) == "PutCallback" {
				return true
			}
			if callee := staticCallee(c); callee != nil && (callee.Name() == "Errorf" || callee.Name() == "Criticalf") {
				return true
			}
			return false
		}
		p := findPath(f, wb, barrier, func(x ssa.Instruction) bool { _, ok := x.(*ssa.Return); return ok }, allEdges)
		r.check(p == nil, fname(f)+":written-block-stored", "every return after the voxels were written passes the store or an error report",
			"the chunk writer can return silently after the posted voxels were written into the block and before the block was stored: the write is acknowledged and the old (or no) block stays in the store", w.pos(wb.Pos()), w.renderPath(p)...)
	}
	r.check(n >= 1, "imageblk:chunk-writers", fmt.Sprintf("%d", n), "none found: rule needs review", "-")
}

func init() {
	register(ruleDef{ID: "R17.11", Prop: "C17", Tier: "quick", Floor: 3,
		Title: "a block's byte length counts the bytes per voxel: in imageblk, every byte buffer sized from the product of the block size is sized from that product times Values.BytesPerElement",
		Fn:    ruleBlockBytesPerVoxel})
}

func ruleBlockBytesPerVoxel(r *Run) {
	w := r.W
	n := 0
	for _, f := range w.RepoFuncs {
		if relPkg(pkgPathOf(f)) != "datatype/imageblk" || len(f.Blocks) == 0 || strings.HasSuffix(w.fposFile(f), "_test.go") {
			continue
		}
		k := 0
		for _, b := range f.Blocks {
			for _, in := range b.Instrs {
				ms, ok := in.(*ssa.MakeSlice)
				if !ok || !strings.HasSuffix(ms.Type().String(), "[]byte") {
					continue
				}
				usesProd, usesBPE := false, false
				for d := range dataDeps(ms.Len) {
					if c, ok := d.(*ssa.Call); ok {
						switch methodNameOf(c) {
						case "Prod":
							usesProd = true
						case "BytesPerElement":
							usesBPE = true
						}
					}
				}
				if !usesProd {
					continue
				}
				k++
				n++
				r.check(usesBPE, fmt.Sprintf("%s:block-buffer#%d:bytes-per-voxel", fname(f), k), "the buffer length multiplies in the bytes per voxel",
					"a block buffer is sized as the number of voxels of a block, without the bytes per voxel: for 16-, 32- or 64-bit voxel types a fraction of each block is read and stored, reads return zeros, and slicing the short stored block panics in a block goroutine", w.pos(ms.Pos()))
			}
		}
	}
	r.check(n >= 3, "imageblk:block-sized-buffers", fmt.Sprintf("%d", n), "fewer than confirmed by reading: rule needs review", "-")
}

// ---------------------------------------------------------------------------------------------
// C02 / C19 round e.

func init() {
	register(ruleDef{ID: "R2.18", Prop: "C02", Tier: "quick", Floor: 4,
		Title: "(shared with R3.5) what a committed version maps is what its log replays: every change of the in-memory supervoxel mapping is written to the mutation log exactly once",
		Fn:    ruleR3_5})
	register(ruleDef{ID: "R2.19", Prop: "C02", Tier: "quick", Floor: 3,
		Title: "(shared with R13.15) a sync consumer writes at the version of the message it handles: the versioned context is built from the message just received, never kept from an earlier one (which may belong to a version committed since)",
		Fn:    ruleSyncCtxPerMessage})
	reg := func(id, prop string) {
		register(ruleDef{ID: id, Prop: prop, Tier: "quick", Floor: 2,
			Title: "an in-memory cache key names its version: every Bytes method of a key struct in labelmap reads each field of the struct (instance, version, label), so entries of different versions never share a key",
			Fn:    ruleCacheKeyUsesEveryField})
	}
	reg("R2.20", "C02")
	reg("R6.17", "C06")
	register(ruleDef{ID: "R19.8", Prop: "C19", Tier: "quick", Floor: 2,
		Title: "a store transfer with metadata still transfers the data: in TransferData only the lower bound of the metadata key range is used; the upper bound of the transfer stays the bound of the data keys",
		Fn:    ruleTransferRangeKeepsData})
}

func ruleCacheKeyUsesEveryField(r *Run) {
	w := r.W
	n := 0
	for _, f := range w.RepoFuncs {
		if relPkg(pkgPathOf(f)) != "datatype/labelmap" || len(f.Blocks) == 0 || f.Name() != "Bytes" || f.Signature.Recv() == nil || strings.HasSuffix(w.fposFile(f), "_test.go") {
			continue
		}
		st, ok := f.Signature.Recv().Type().Underlying().(*types.Struct)
		if !ok {
			if pt, isPtr := f.Signature.Recv().Type().Underlying().(*types.Pointer); isPtr {
				st, ok = pt.Elem().Underlying().(*types.Struct)
			}
		}
		if !ok || st.NumFields() < 2 {
			continue
		}
		read := map[int]bool{}
		for _, b := range f.Blocks {
			for _, in := range b.Instrs {
				switch x := in.(type) {
				case *ssa.Field:
					if x.X == ssa.Value(f.Params[0]) {
						read[x.Field] = true
					}
				case *ssa.FieldAddr:
					if x.X == ssa.Value(f.Params[0]) || dataDeps(x.X)[f.Params[0]] {
						read[x.Field] = true
					}
				}
			}
		}
		for i := 0; i < st.NumFields(); i++ {
			n++
			r.check(read[i], fmt.Sprintf("%s:field:%s", fname(f), st.Field(i).Name()), "the field is part of the key bytes",
				"the key bytes are built without the field "+st.Field(i).Name()+": entries that differ only in it share one cache key, so a read at a committed version is answered with another version's cached value", w.fpos(f))
		}
	}
	r.check(n >= 3, "labelmap:key-struct-fields", fmt.Sprintf("%d", n), "fewer than confirmed by reading: rule needs review", "-")
}

func ruleTransferRangeKeepsData(r *Run) {
	w := r.W
	f := w.fn("datastore", "TransferData")
	if f == nil {
		r.undecided("datastore.TransferData", "anchor not found")
		return
	}
	n := 0
	for _, c := range calls(f) {
		cv, ok := c.(*ssa.Call)
		if !ok || methodNameOf(c) != "KeyRange" {
			continue
		}
		recv := ""
		if len(cv.Call.Args) > 0 {
			recv = cv.Call.Args[0].Type().String()
		}
		if !strings.Contains(recv, "MetadataContext") {
			continue
		}
		n++
		upperUsed := false
		for _, ref := range *cv.Referrers() {
			if ex, ok := ref.(*ssa.Extract); ok && ex.Index == 1 && ex.Referrers() != nil {
				for _, r2 := range *ex.Referrers() {
					if _, isDbg := r2.(*ssa.DebugRef); !isDbg {
						upperUsed = true
					}
				}
			}
		}
		r.check(!upperUsed, "TransferData:metadata-range:upper-bound-unused", "only the lower bound of the metadata key range is taken",
			"with \"Metadata\": true the transfer range ends at the end of the metadata keys: the metadata is copied and no key-value of any data instance, while TransferData reports success", w.pos(cv.Pos()))
	}
	r.check(n >= 1, "TransferData:metadata-range", fmt.Sprintf("%d", n), "the metadata key range call was not found: rule needs review", w.fpos(f))
}

func init() {
	register(ruleDef{ID: "R2.21", Prop: "C02", Tier: "quick", Floor: 3,
		Title: "creating a child changes nothing of the committed parent but its list of children: in newVersion and merge, a store into a field of a node that was looked up in the DAG (not the node just created by newNode) goes to `children` or `updated` only",
		Fn:    ruleChildCreationLeavesParent})
}

func ruleChildCreationLeavesParent(r *Run) {
	w := r.W
	n := 0
	for _, name := range []string{"newVersion", "merge"} {
		f := w.method("datastore", "repoManager", name)
		if f == nil {
			r.undecided("datastore.repoManager."+name, "anchor not found")
			continue
		}
		k := 0
		for _, b := range f.Blocks {
			for _, in := range b.Instrs {
				st, ok := in.(*ssa.Store)
				if !ok {
					continue
				}
				fa, ok := st.Addr.(*ssa.FieldAddr)
				if !ok || !strings.HasSuffix(fa.X.Type().String(), "datastore.nodeT") {
					continue
				}
				// the fresh child comes from newNode; anything else was looked up
				fresh := false
				for _, rt := range roots(fa.X, f) {
					v := rt.V
					if ex, isEx := v.(*ssa.Extract); isEx {
						v = ex.Tuple
					}
					if c, isCall := v.(*ssa.Call); isCall {
						if callee := c.Call.StaticCallee(); callee != nil && callee.Name() == "newNode" {
							fresh = true
						}
					}
				}
				if fresh {
					continue
				}
				field, _, _ := fieldName(fa)
				k++
				n++
				r.check(field == "children" || field == "updated", fmt.Sprintf("%s:parent-store#%d:%s", name, k, field), "only the children list and the update time of the parent are written",
					"creating a child writes the field "+field+" of the committed parent node: the note (log, branch, lock state …) of a committed version changes although committed versions are immutable", w.pos(st.Pos()))
			}
		}
	}
	r.check(n >= 3, "datastore:parent-stores-in-child-creation", fmt.Sprintf("%d", n), "fewer than confirmed by reading: rule needs review", "-")
}

func init() {
	register(ruleDef{ID: "R19.9", Prop: "C19", Tier: "quick", Floor: 2,
		Title: "a deletion is not a repeat of an empty value: wherever the copy code decides that a version repeats the previous one by comparing the value bytes of two key-values, the same decision also compares whether their keys are tombstones",
		Fn:    ruleRepeatTestSeesTombstones})
}

func ruleRepeatTestSeesTombstones(r *Run) {
	w := r.W
	n := 0
	for _, f := range w.RepoFuncs {
		if relPkg(pkgPathOf(f)) != "datastore" || len(f.Blocks) == 0 || !strings.HasSuffix(w.fposFile(f), "copy_local.go") {
			continue
		}
		isValueOfKV := func(v ssa.Value) bool {
			ld, ok := stripConv(v).(*ssa.UnOp)
			if !ok || ld.Op != token.MUL {
				return false
			}
			fa, ok := ld.X.(*ssa.FieldAddr)
			if !ok {
				return false
			}
			name, _, _ := fieldName(fa)
			return name == "V" && strings.Contains(fa.X.Type().String(), "storage.KeyValue")
		}
		for _, c := range calls(f) {
			callee := staticCallee(c)
			if callee == nil || callee.Pkg == nil || callee.Pkg.Pkg.Path() != "bytes" || (callee.Name() != "Compare" && callee.Name() != "Equal") {
				continue
			}
			args := c.Common().Args
			if len(args) != 2 || !isValueOfKV(args[0]) || !isValueOfKV(args[1]) {
				continue
			}
			n++
			// a comparison of two IsTombstone results in the same function
			both := false
			for _, b := range f.Blocks {
				for _, in := range b.Instrs {
					bo, ok := in.(*ssa.BinOp)
					if !ok || (bo.Op != token.NEQ && bo.Op != token.EQL) {
						continue
					}
					isT := func(v ssa.Value) bool {
						cc, ok := v.(*ssa.Call)
						if !ok {
							return false
						}
						cal := cc.Call.StaticCallee()
						return cal != nil && cal.Name() == "IsTombstone"
					}
					if isT(bo.X) && isT(bo.Y) {
						both = true
					}
				}
			}
			r.check(both, fname(f)+":repeat-test:tombstone-compared", "the repeat test also compares the tombstone state of the two keys",
				"two versions of a key count as a repeat when their value bytes are equal, without a look at whether one of them is a deletion: a tombstone (empty value) after a stored empty value is dropped, and the copy keeps data that the source deleted", w.pos(c.Pos()))
		}
	}
	r.check(n >= 1, "copy:value-repeat-tests", fmt.Sprintf("%d", n), "none found: rule needs review", "-")
}

func init() {
	register(ruleDef{ID: "R15.7", Prop: "C15", Tier: "quick", Floor: 2,
		Title: "the LZ4 length prefix is never written as 0 by the serialiser (the reader takes 0 for \"stored raw\"): in SerializeData the store of the original length into the 4-byte prefix is decided by a test of the input's length against 0",
		Fn:    ruleNoZeroLengthPrefix})
}

func ruleNoZeroLengthPrefix(r *Run) {
	w := r.W
	f := w.fn("dvid", "SerializeData")
	if f == nil {
		r.undecided("dvid.SerializeData", "anchor not found")
		return
	}
	data := f.Params[0]
	n := 0
	for _, c := range calls(f) {
		if methodNameOf(c) != "PutUint32" || len(c.Common().Args) < 2 {
			continue
		}
		val := c.Common().Args[len(c.Common().Args)-1]
		fromLen := false
		for d := range dataDeps(val) {
			if lc, ok := d.(*ssa.Call); ok {
				if bi, ok := lc.Call.Value.(*ssa.Builtin); ok && bi.Name() == "len" && len(lc.Call.Args) == 1 && lc.Call.Args[0] == ssa.Value(data) {
					fromLen = true
				}
			}
		}
		if !fromLen {
			continue
		}
		n++
		guarded := false
		for _, b := range f.Blocks {
			ifi, ok := b.Instrs[len(b.Instrs)-1].(*ssa.If)
			if !ok {
				continue
			}
			bo, ok := ifi.Cond.(*ssa.BinOp)
			if !ok {
				continue
			}
			isLen := func(v ssa.Value) bool {
				lc, ok := v.(*ssa.Call)
				if !ok {
					return false
				}
				bi, ok := lc.Call.Value.(*ssa.Builtin)
				return ok && bi.Name() == "len" && lc.Call.Args[0] == ssa.Value(data)
			}
			zero := func(v ssa.Value) bool { k, ok := constInt(v); return ok && k == 0 }
			if !((isLen(bo.X) && zero(bo.Y)) || (isLen(bo.Y) && zero(bo.X))) {
				continue
			}
			if guardedByEdge(ifi, 0, c) || guardedByEdge(ifi, 1, c) {
				guarded = true
			}
		}
		r.check(guarded, "SerializeData:length-prefix:input-not-empty", "the prefix is written only for non-empty input",
			"the length prefix can be written for empty input: the value carries a prefix of 0, which the deserialiser reads as \"stored raw\", and an empty payload comes back as the compressor's token byte instead of zero bytes", w.pos(c.Pos()))
	}
	r.check(n >= 1, "SerializeData:length-prefix-stores", fmt.Sprintf("%d", n), "the prefix store was not found: rule needs review", w.fpos(f))
}

func init() {
	reg := func(id, prop string) {
		register(ruleDef{ID: id, Prop: prop, Tier: "quick", Floor: 4,
			Title: "the per-scale update counters cover every level: in labelmap and labelarray, every function that stores into Data.MaxDownresLevel also (re)allocates Data.updates, the table indexed by scale",
			Fn:    ruleLevelChangeResizesCounters})
	}
	reg("R20.35", "C20")
	reg("R14.16", "C14")
}

func ruleLevelChangeResizesCounters(r *Run) {
	w := r.W
	n := 0
	for _, f := range w.RepoFuncs {
		p := relPkg(pkgPathOf(f))
		if (p != "datatype/labelmap" && p != "datatype/labelarray") || len(f.Blocks) == 0 || strings.HasSuffix(w.fposFile(f), "_test.go") {
			continue
		}
		var level *ssa.Store
		resizes := false
		for _, b := range f.Blocks {
			for _, in := range b.Instrs {
				st, ok := in.(*ssa.Store)
				if !ok {
					continue
				}
				fa, ok := st.Addr.(*ssa.FieldAddr)
				if !ok {
					continue
				}
				name, _, _ := fieldName(fa)
				switch name {
				case "MaxDownresLevel":
					if strings.HasSuffix(fa.X.Type().String(), ".Data") {
						level = st
					}
				case "updates":
					for d := range dataDeps(st.Val) {
						if _, isMake := d.(*ssa.MakeSlice); isMake {
							resizes = true
						}
					}
				}
			}
		}
		if level == nil {
			continue
		}
		n++
		r.check(resizes, fname(f)+":level-change:resizes-update-counters", "the function also allocates the counter table",
			"the number of down-res levels is changed without resizing the table of per-scale update counters: the next write indexes the table at a scale beyond its length — index out of range in the request (500) or in a worker goroutine (process exit)", w.pos(level.Pos()))
	}
	r.check(n >= 4, "label-types:level-stores", fmt.Sprintf("%d functions store MaxDownresLevel", n), "fewer than confirmed by reading: rule needs review", "-")
}

func init() {
	reg := func(id, prop string) {
		register(ruleDef{ID: id, Prop: prop, Tier: "quick", Floor: 2,
			Title: "the id-counter record is read and written in one critical section: in every repo-manager method that puts the record of the three id counters, a mutex acquired in that method is held from the loads of the counters to the Put, so that records reach the store in the order in which they were read",
			Fn:    ruleIDRecordAtomic})
	}
	reg("R12.20", "C12")
	reg("R7.15", "C07")
}

func ruleIDRecordAtomic(r *Run) {
	w := r.W
	n := 0
	newIDs := w.pkgScopeConst("datastore", "newIDsKey")
	for _, f := range w.RepoFuncs {
		if relPkg(pkgPathOf(f)) != "datastore" || len(f.Blocks) == 0 || f.Signature.Recv() == nil || !strings.HasSuffix(f.Signature.Recv().Type().String(), "repoManager") || strings.HasSuffix(w.fposFile(f), "_test.go") {
			continue
		}
		var put ssa.Instruction
		for _, c := range calls(f) {
			if methodNameOf(c) != "Put" || !c.Common().IsInvoke() || len(c.Common().Args) != 3 {
				continue
			}
			for d := range dataDeps(c.Common().Args[1]) {
				if kc, ok := d.(*ssa.Call); ok {
					if callee := kc.Call.StaticCallee(); callee != nil && callee.Name() == "NewTKey" && len(kc.Call.Args) == 2 {
						if k, ok := kc.Call.Args[0].(*ssa.Const); ok && newIDs != nil && k.Value != nil && k.Value.String() == newIDs.String() {
							put = c
						}
					}
				}
			}
		}
		if put == nil {
			continue
		}
		n++
		// the counter loads
		var loads []ssa.Instruction
		for _, b := range f.Blocks {
			for _, in := range b.Instrs {
				if ld, ok := in.(*ssa.UnOp); ok && ld.Op == token.MUL {
					if fa, ok := ld.X.(*ssa.FieldAddr); ok {
						if name, _, _ := fieldName(fa); name == "repoID" || name == "versionID" || name == "instanceID" {
							loads = append(loads, ld)
						}
					}
				}
			}
		}
		ok := false
		for _, b := range f.Blocks {
			for _, in := range b.Instrs {
				op, isOp := asLockOp(in)
				if !isOp || !op.lock || !op.write {
					continue
				}
				all := len(loads) > 0
				for _, x := range append(loads, put) {
					if h, wr := heldKeyAt(f, x, op.key); !h || !wr {
						all = false
					}
				}
				if all {
					ok = true
				}
			}
		}
		r.check(ok, fname(f)+":id-record:read-and-written-under-one-lock", "a mutex taken in the method is held from the counter loads to the Put",
			"the three id counters are read and their record is written without a lock of the method's own: a record assembled before a concurrent allocation can reach the store after that allocation's record, the persisted counters fall behind the ids handed out, and after a restart those ids are handed out again", w.pos(put.Pos()))
	}
	r.check(n >= 1, "datastore:id-record-writers", fmt.Sprintf("%d", n), "none found: rule needs review", "-")
}

func init() {
	reg := func(id, prop string) {
		register(ruleDef{ID: id, Prop: prop, Tier: "quick", Floor: 4,
			Title: "a deletion in progress is on record: datastore.Data's gob encoding carries the `deleted` mark (written and read back), and every start of the background deletion of an instance (`go repoT.deleteData`) is dominated by a save of the repo that follows the setting of the mark — the loader's restart loop can only finish what the store says was begun",
			Fn:    ruleDeletionMarkPersisted})
	}
	reg("R4.14", "C04")
	reg("R3.23", "C03")
}

func ruleDeletionMarkPersisted(r *Run) {
	w := r.W
	for _, name := range []string{"GobEncode", "GobDecode"} {
		f := w.method("datastore", "Data", name)
		if f == nil {
			r.undecided("datastore.Data."+name, "anchor not found")
			continue
		}
		touches := false
		for _, b := range f.Blocks {
			for _, in := range b.Instrs {
				if fa, ok := in.(*ssa.FieldAddr); ok {
					if fn, _, _ := fieldName(fa); fn == "deleted" {
						touches = true
					}
				}
			}
		}
		r.check(touches, "datastore.Data."+name+":deleted-mark", "the encoding carries the deletion mark",
			"the deletion mark of a data instance is not part of its stored form: after a crash during the background deletion the instance is loaded as live, with part of its key-values gone, and the loader's loop that restarts deletions never finds anything to restart", w.fpos(f))
	}
	saves := w.newReach(func(c ssa.CallInstruction) bool {
		callee := staticCallee(c)
		return callee != nil && callee.Name() == "saveToStore"
	}, nil)
	n := 0
	for _, f := range w.RepoFuncs {
		if relPkg(pkgPathOf(f)) != "datastore" || len(f.Blocks) == 0 || strings.HasSuffix(w.fposFile(f), "_test.go") {
			continue
		}
		k := 0
		for _, b := range f.Blocks {
			for _, in := range b.Instrs {
				g, ok := in.(*ssa.Go)
				if !ok {
					continue
				}
				callee := g.Call.StaticCallee()
				if callee == nil || callee.Name() != "deleteData" || callee.Signature.Recv() == nil || !strings.HasSuffix(callee.Signature.Recv().Type().String(), "repoT") {
					continue
				}
				k++
				n++
				// the mark, then a save, then the goroutine
				var mark ssa.Instruction
				for _, c := range calls(f) {
					if methodNameOf(c) == "SetDeleted" && domInstr(c, g) {
						mark = c
					}
				}
				saved := false
				for _, c := range calls(f) {
					cal := staticCallee(c)
					if cal == nil || !(cal.Name() == "saveToStore" || saves.From(cal)) {
						continue
					}
					if _, isGo := c.(*ssa.Go); isGo {
						continue
					}
					if mark != nil && domInstr(mark, c) && domInstr(c, g) {
						saved = true
					}
				}
				// a deletion resumed from the store: the mark was not set here but read — the goroutine starts
				// only on the true edge of IsDeleted() — so it is in the store already
				if mark == nil {
					for _, b2 := range f.Blocks {
						ifi, isIf := b2.Instrs[len(b2.Instrs)-1].(*ssa.If)
						if !isIf {
							continue
						}
						if c, isCall := ifi.Cond.(*ssa.Call); isCall && methodNameOf(c) == "IsDeleted" && guardedByEdge(ifi, 0, g) {
							saved = true
						}
					}
				}
				r.check(saved, fmt.Sprintf("%s:background-deletion#%d:mark-saved-first", fname(f), k), "the repo is saved between the setting of the mark and the start of the deletion (or the mark was read from the loaded repo)",
					"the background deletion of an instance starts before the repo, with the instance marked as deleted, has been saved: a crash while its key-values are being removed leaves an instance that the next start loads as live", w.pos(g.Pos()))
			}
		}
	}
	r.check(n >= 2, "datastore:background-deletions", fmt.Sprintf("%d", n), "fewer than confirmed by reading: rule needs review", "-")
}

// ---------------------------------------------------------------------------------------------
// C18 round e.

func init() {
	register(ruleDef{ID: "R18.13", Prop: "C18", Tier: "quick", Floor: 2,
		Title: "block runs of the coarse sparse volume stay on their row: in IZYXSlice.WriteSerializedRLEs the increment of the current run's length is reached only with the y and the z of the run's start tested equal to the next block's",
		Fn:    ruleCoarseRunSameRow})
	register(ruleDef{ID: "R18.14", Prop: "C18", Tier: "quick", Floor: 2,
		Title: "a comparator named for an axis order compares in that order: in dvid, the Less method of a sort helper whose type name ends in ZYX looks at component 2 first, then 1, then 0",
		Fn:    ruleZYXComparatorOrder})
	register(ruleDef{ID: "R18.15", Prop: "C18", Tier: "quick", Floor: 2,
		Title: "block bounds are applied at the scale they are given in: in labels.Index.GetProcessedBlockIndices the block list handed to FitToBounds is the down-sampled one whenever a scale is requested (bounds arrive in blocks of the requested scale)",
		Fn:    ruleBoundsAfterDownres})
}

func ruleCoarseRunSameRow(r *Run) {
	w := r.W
	f := w.method("dvid", "IZYXSlice", "WriteSerializedRLEs")
	if f == nil {
		r.undecided("dvid.IZYXSlice.WriteSerializedRLEs", "anchor not found")
		return
	}
	n := 0
	for _, b := range f.Blocks {
		for _, in := range b.Instrs {
			bo, ok := in.(*ssa.BinOp)
			if !ok || bo.Op != token.ADD {
				continue
			}
			if k, isK := constInt(bo.Y); !isK || k != 1 {
				continue
			}
			// the run length: a phi of the loop that this increment feeds, and that is written out
			phi, isPhi := bo.X.(*ssa.Phi)
			if !isPhi || phi.Type().String() != "int32" {
				continue
			}
			n++
			y, z := axisEqualAt(f, 1, bo), axisEqualAt(f, 2, bo)
			r.check(y && z, fmt.Sprintf("WriteSerializedRLEs:run-extended#%d:same-y-and-z", n), "the extension is reached only with equal y and equal z",
				fmt.Sprintf("a block run is extended by the next block without both row coordinates being tested equal (y tested: %v, z tested: %v): the last block of one slice and the first of the next fuse into one run, which claims blocks of the wrong slice and omits the real ones", y, z), w.pos(bo.Pos()))
		}
	}
	r.check(n >= 1, "WriteSerializedRLEs:run-extensions", fmt.Sprintf("%d", n), "the run extension was not found: rule needs review", w.fpos(f))
}

func ruleZYXComparatorOrder(r *Run) {
	w := r.W
	n := 0
	for _, f := range w.RepoFuncs {
		if relPkg(pkgPathOf(f)) != "dvid" || len(f.Blocks) == 0 || f.Name() != "Less" || f.Signature.Recv() == nil || strings.HasSuffix(w.fposFile(f), "_test.go") {
			continue
		}
		rt := f.Signature.Recv().Type().String()
		if !strings.HasSuffix(rt, "ZYX") {
			continue
		}
		// order of first use of each constant component index, in block order
		var order []int64
		seen := map[int64]bool{}
		for _, b := range f.Blocks {
			for _, in := range b.Instrs {
				var idx ssa.Value
				switch x := in.(type) {
				case *ssa.IndexAddr:
					if strings.Contains(x.X.Type().String(), "Point") {
						idx = x.Index
					}
				case *ssa.Index:
					if strings.Contains(x.X.Type().String(), "Point") {
						idx = x.Index
					}
				}
				if idx == nil {
					continue
				}
				if k, ok := constInt(idx); ok && !seen[k] {
					seen[k] = true
					order = append(order, k)
				}
			}
		}
		if len(order) < 3 {
			continue
		}
		n++
		r.check(order[0] == 2 && order[1] == 1 && order[2] == 0, fname(f)+":component-order", "z, then y, then x",
			fmt.Sprintf("the comparator of %s looks at the components in the order %v: points sorted with it are not in Z-Y-X order, and the span scans that rely on that order (ROI point queries walk the sorted points and the spans together) answer false for points that are inside", rt, order), w.fpos(f))
	}
	r.check(n >= 1, "dvid:zyx-comparators", fmt.Sprintf("%d", n), "none found: rule needs review", "-")
}

func ruleBoundsAfterDownres(r *Run) {
	w := r.W
	f := w.method("datatype/common/labels", "Index", "GetProcessedBlockIndices")
	if f == nil {
		r.undecided("labels.Index.GetProcessedBlockIndices", "anchor not found")
		return
	}
	var down, fit ssa.CallInstruction
	for _, c := range calls(f) {
		switch methodNameOf(c) {
		case "Downres":
			down = c
		case "FitToBounds":
			fit = c
		}
	}
	if !r.check(down != nil && fit != nil, "GetProcessedBlockIndices:steps", "down-sampling and bounding found", "Downres or FitToBounds not found: rule needs review", w.fpos(f)) {
		return
	}
	dv, _ := down.(*ssa.Call)
	ok := false
	if dv != nil && len(fit.Common().Args) > 0 {
		for d := range dataDeps(fit.Common().Args[0]) {
			if d == ssa.Value(dv) {
				ok = true
			}
		}
	}
	// and nothing bounded is down-sampled afterwards
	if fv, isCall := fit.(*ssa.Call); isCall && len(down.Common().Args) > 0 && dataDeps(down.Common().Args[0])[fv] {
		ok = false
	}
	r.check(ok, "GetProcessedBlockIndices:bounds-after-downres", "the bounded list is the down-sampled one",
		"the block bounds are applied to the level-0 block list and the survivors are down-sampled afterwards: bounds are given in blocks of the requested scale, so a sparse volume requested at scale > 0 with bounds loses blocks that lie inside the bounds (or keeps ones outside)", w.pos(fit.Pos()))
}

func init() {
	register(ruleDef{ID: "R9.11", Prop: "C09", Tier: "quick", Floor: 2,
		Title: "a scan that steps before it tests is entered only with a non-empty interval: in the labels package, where the x scan of a run-length writer leaves on `vx > upper[0]` after its body, the function tests lower[0] against upper[0] before the scan (bounds can empty the interval)",
		Fn:    ruleDoWhileScanGuarded})
}

func ruleDoWhileScanGuarded(r *Run) {
	w := r.W
	n := 0
	for _, f := range w.RepoFuncs {
		if relPkg(pkgPathOf(f)) != "datatype/common/labels" || len(f.Blocks) == 0 || strings.HasSuffix(w.fposFile(f), "_test.go") {
			continue
		}
		isComp0 := func(v ssa.Value) (string, bool) {
			ld, ok := stripConv(v).(*ssa.UnOp)
			if !ok || ld.Op != token.MUL {
				return "", false
			}
			ia, ok := ld.X.(*ssa.IndexAddr)
			if !ok || !strings.HasSuffix(ia.X.Type().String(), "dvid.Point3d") {
				return "", false
			}
			if k, isK := constInt(ia.Index); !isK || k != 0 {
				return "", false
			}
			return coordKey(ld), true
		}
		for _, b := range f.Blocks {
			ifi, ok := b.Instrs[len(b.Instrs)-1].(*ssa.If)
			if !ok {
				continue
			}
			bo, ok := ifi.Cond.(*ssa.BinOp)
			if !ok || bo.Op != token.GTR {
				continue
			}
			upper, isUpper := isComp0(bo.Y)
			if !isUpper {
				continue
			}
			// the compared value is the scan variable advanced in this iteration: x_next = phi + step
			add, ok := stripConv(bo.X).(*ssa.BinOp)
			if !ok || add.Op != token.ADD {
				continue
			}
			phi, ok := add.X.(*ssa.Phi)
			if !ok {
				continue
			}
			// do-while: the test sits in the loop body after the work, the phi's block does not test it
			lower := ""
			for _, e := range phi.Edges {
				if k, isL := isComp0(e); isL {
					lower = k
				}
			}
			if lower == "" {
				continue
			}
			n++
			// the tests of lower[0] against upper[0]
			isGuard := func(x ssa.Instruction) bool {
				if2, ok := x.(*ssa.If)
				if !ok {
					return false
				}
				c2, ok := if2.Cond.(*ssa.BinOp)
				if !ok {
					return false
				}
				switch c2.Op {
				case token.GTR, token.LSS, token.GEQ, token.LEQ:
					kx, okx := isComp0(c2.X)
					ky, oky := isComp0(c2.Y)
					return okx && oky && ((kx == lower && ky == upper) || (kx == upper && ky == lower))
				}
				return false
			}
			// the interval is what the function computed itself until a callee gets the address of one of
			// its ends (the bounds adjustment); from there on every path to the scan passes a test
			var ends []ssa.Value
			for _, v := range []ssa.Value{bo.Y} {
				if ld, ok := stripConv(v).(*ssa.UnOp); ok {
					if ia, ok := ld.X.(*ssa.IndexAddr); ok {
						ends = append(ends, ia.X)
					}
				}
			}
			for _, e := range phi.Edges {
				if ld, ok := stripConv(e).(*ssa.UnOp); ok {
					if ia, ok := ld.X.(*ssa.IndexAddr); ok {
						ends = append(ends, ia.X)
					}
				}
			}
			guarded := true
			for _, c := range calls(f) {
				takes := false
				for _, a := range c.Common().Args {
					for _, e := range ends {
						if a == e {
							takes = true
						}
					}
				}
				if !takes {
					continue
				}
				if p := findPath(f, c, isGuard, func(x ssa.Instruction) bool { return x.Block() == phi.Block() }, allEdges); p != nil {
					guarded = false
				}
			}
			r.check(guarded, fmt.Sprintf("%s:x-scan#%d:entered-with-non-empty-interval", fname(f), n), "lower[0] is tested against upper[0] before the scan",
				"the scan along x does its first step before it tests the upper bound, and nothing tests the interval before the scan: when exact bounds leave nothing of the block (lower > upper) one voxel per row is emitted outside the bounds", w.pos(bo.Pos()))
		}
	}
	r.check(n >= 1, "labels:do-while-x-scans", fmt.Sprintf("%d", n), "none found: rule needs review", "-")
}

func init() {
	register(ruleDef{ID: "R20.36", Prop: "C20", Tier: "quick", Floor: 5,
		Title: "the last element is taken only from a slice known to have one: in the data types, an index len(s)-1 into s is dominated by a test of len(s) (or of a value copied from it), by an append to s, or s is a loop's own range subject",
		Fn:    ruleLastElementGuarded})
}

func ruleLastElementGuarded(r *Run) {
	w := r.W
	n := 0
	for _, f := range w.RepoFuncs {
		if !strings.HasPrefix(relPkg(pkgPathOf(f)), "datatype/") || len(f.Blocks) == 0 || strings.HasSuffix(w.fposFile(f), "_test.go") {
			continue
		}
		k := 0
		for _, b := range f.Blocks {
			for _, in := range b.Instrs {
				ia, ok := in.(*ssa.IndexAddr)
				if !ok {
					continue
				}
				if _, isSlice := ia.X.Type().Underlying().(*types.Slice); !isSlice {
					continue
				}
				sub, ok := stripConv(ia.Index).(*ssa.BinOp)
				if !ok || sub.Op != token.SUB {
					continue
				}
				if one, isK := constInt(sub.Y); !isK || one != 1 {
					continue
				}
				lc, ok := sub.X.(*ssa.Call)
				if !ok {
					continue
				}
				bi, ok := lc.Call.Value.(*ssa.Builtin)
				if !ok || bi.Name() != "len" {
					continue
				}
				sKey := placeKey(lc.Call.Args[0])
				if placeKey(ia.X) != sKey && lc.Call.Args[0] != ia.X {
					continue
				}
				k++
				n++
				guarded := false
				isLenOfS := func(v ssa.Value) bool {
					for d := range dataDeps(v) {
						if c, ok := d.(*ssa.Call); ok {
							if bb, ok := c.Call.Value.(*ssa.Builtin); ok && bb.Name() == "len" && (placeKey(c.Call.Args[0]) == sKey || c.Call.Args[0] == ia.X) {
								return true
							}
						}
					}
					if c, ok := v.(*ssa.Call); ok {
						if bb, ok := c.Call.Value.(*ssa.Builtin); ok && bb.Name() == "len" && (placeKey(c.Call.Args[0]) == sKey || c.Call.Args[0] == ia.X) {
							return true
						}
					}
					return false
				}
				for _, b2 := range f.Blocks {
					if !b2.Dominates(b) {
						continue
					}
					if ifi, ok := b2.Instrs[len(b2.Instrs)-1].(*ssa.If); ok && b2 != b {
						if bo, ok := ifi.Cond.(*ssa.BinOp); ok && (isLenOfS(bo.X) || isLenOfS(bo.Y)) {
							guarded = true
						}
					}
					// an append to s (or a make with positive constant length) before the access
					for _, x := range b2.Instrs {
						if x == in {
							break
						}
						if c, ok := x.(*ssa.Call); ok {
							if bb, ok := c.Call.Value.(*ssa.Builtin); ok && bb.Name() == "append" {
								// s = append(s, …): the result is stored to s's place or is s itself
								if placeKey(c) == sKey || ssa.Value(c) == ia.X {
									guarded = true
								}
								for _, ref := range *c.Referrers() {
									if st, ok := ref.(*ssa.Store); ok && "load("+addrKey(st.Addr)+")" == sKey {
										guarded = true
									}
								}
							}
						}
					}
				}
				// the slice value itself is the result of an append
				if c, ok := stripConv(ia.X).(*ssa.Call); ok {
					if bb, ok := c.Call.Value.(*ssa.Builtin); ok && bb.Name() == "append" {
						guarded = true
					}
				}
				// idioms of this repository, each non-empty by construction:
				// (1) the parts of strings.Split (never empty)
				for _, rt := range roots(ia.X, f) {
					if c, ok := rt.V.(*ssa.Call); ok {
						if cal := c.Call.StaticCallee(); cal != nil && cal.Pkg != nil && cal.Pkg.Pkg.Path() == "strings" && (cal.Name() == "Split" || cal.Name() == "SplitN") {
							guarded = true
						}
					}
				}
				// (2) swap-with-last: the same block indexes the slice at a recorded position as well, so an
				//     empty slice fails there first (that index is the guarded-index rule's business)
				for _, x := range b.Instrs {
					if ia2, ok := x.(*ssa.IndexAddr); ok && ia2 != ia && placeKey(ia2.X) == placeKey(ia.X) {
						if sb, isSub := stripConv(ia2.Index).(*ssa.BinOp); !isSub || sb.Op != token.SUB {
							guarded = true
						}
					}
				}
				// (3) a stack loop: the slice starts as a non-empty literal and the loop leaves when a test of
				//     its length says it is empty
				startsNonEmpty, testedInLoop := false, false
				for _, rt := range roots(ia.X, f) {
					if sl, ok := rt.V.(*ssa.Slice); ok {
						if al, ok := sl.X.(*ssa.Alloc); ok {
							if at, ok := al.Type().Underlying().(*types.Pointer); ok {
								if arr, ok := at.Elem().Underlying().(*types.Array); ok && arr.Len() >= 1 {
									startsNonEmpty = true
								}
							}
						}
					}
				}
				for _, b2 := range f.Blocks {
					if ifi, ok := b2.Instrs[len(b2.Instrs)-1].(*ssa.If); ok {
						if bo, ok := ifi.Cond.(*ssa.BinOp); ok && (isLenOfS(bo.X) || isLenOfS(bo.Y)) {
							testedInLoop = true
						}
					}
				}
				if startsNonEmpty && testedInLoop {
					guarded = true
				}
				r.check(guarded, fmt.Sprintf("%s:last-element#%d", fname(f), k), "the slice is known to be non-empty here",
					"the last element of a slice is taken (index len(s)-1) without anything establishing that the slice has an element: on an empty slice this is index -1, a panic in the request (500) or in a worker goroutine (process exit)", w.pos(ia.Pos()))
			}
		}
	}
	r.check(n >= 5, "datatypes:last-element-accesses", fmt.Sprintf("%d", n), "fewer than confirmed by reading: rule needs review", "-")
}

// ---------------------------------------------------------------------------------------------
// C11 round e.

func init() {
	reg := func(id, prop string) {
		register(ruleDef{ID: id, Prop: prop, Tier: "quick", Floor: 2,
			Title: "no critical section is empty: in the repository's non-test code no mutex is released by the very next instruction after it was acquired (an acquire followed at once by the release protects nothing — what was meant is a deferred release)",
			Fn:    ruleNoEmptyCriticalSection})
	}
	reg("R11.22", "C11")
	reg("R20.37", "C20")
	register(ruleDef{ID: "R11.23", Prop: "C11", Tier: "quick", Floor: 2,
		Title: "an instance name is tested and taken in one critical section: in newData the store into the repo's data map under the write lock is decided by a lookup of the same name made under that same acquisition",
		Fn:    ruleNameTestedWhereTaken})
}

func ruleNoEmptyCriticalSection(r *Run) {
	w := r.W
	n, empty := 0, 0
	for _, f := range w.RepoFuncs {
		if len(f.Blocks) == 0 || strings.HasSuffix(w.fposFile(f), "_test.go") || strings.HasPrefix(relPkg(pkgPathOf(f)), "cmd/") {
			continue
		}
		for _, b := range f.Blocks {
			var prev ssa.Instruction
			for _, in := range b.Instrs {
				if _, isDbg := in.(*ssa.DebugRef); isDbg {
					continue
				}
				if op, ok := asLockOp(in); ok {
					if op.lock {
						n++
					}
					if _, isDefer := in.(*ssa.Defer); !op.lock && !isDefer && prev != nil {
						if pop, ok2 := asLockOp(prev); ok2 && pop.lock && pop.key == op.key {
							if _, prevDefer := prev.(*ssa.Defer); !prevDefer {
								empty++
								r.violation(fmt.Sprintf("%s:empty-critical-section#%d:%s", fname(f), empty, op.name),
									"the mutex "+op.name+" is released by the instruction right after the one that acquired it: nothing is protected — the fields read or written below are accessed unlocked (encoding a map that another request inserts into ends the process with 'concurrent map iteration and map write')", w.pos(in.Pos()))
							}
						}
					}
				}
				// taking the address of the mutex for the release does not count as work
				if fa, isFA := in.(*ssa.FieldAddr); isFA && strings.Contains(fa.Type().String(), "sync.") {
					continue
				}
				prev = in
			}
		}
	}
	r.check(n >= 100, "repo:lock-acquisitions", fmt.Sprintf("%d acquisitions scanned, %d empty critical sections", n, empty), "fewer lock acquisitions than expected: rule needs review", "-")
	r.check(true, "repo:scanned", "scanned", "", "-")
}

func ruleNameTestedWhereTaken(r *Run) {
	w := r.W
	f := w.method("datastore", "repoManager", "newData")
	if f == nil {
		r.undecided("datastore.repoManager.newData", "anchor not found")
		return
	}
	n := 0
	for _, b := range f.Blocks {
		for _, in := range b.Instrs {
			mu, ok := in.(*ssa.MapUpdate)
			if !ok || !isFieldLoad(mu.Map, "repoT", "data") {
				continue
			}
			n++
			// the acquisition under which the store happens
			held, acq := heldAt(f, mu, "RWMutex", true)
			ok2 := false
			if held && acq != nil {
				for _, b2 := range f.Blocks {
					for _, x := range b2.Instrs {
						lk, isLk := x.(*ssa.Lookup)
						if !isLk || !lk.CommaOk || !isFieldLoad(lk.X, "repoT", "data") || stripConv(lk.Index) != stripConv(mu.Key) {
							continue
						}
						h2, a2 := heldAt(f, lk, "RWMutex", true)
						if h2 && a2 == acq && domInstr(lk, mu) {
							ok2 = true
						}
					}
				}
			}
			r.check(ok2, "newData:name-tested-under-the-write-lock", "the name is looked up under the acquisition that inserts it",
				"the instance name is tested under one lock acquisition and inserted under another: of several simultaneous creations of one name more than one is acknowledged, and the later instance silently replaces the earlier", w.pos(mu.Pos()))
		}
	}
	r.check(n >= 1, "newData:data-map-stores", fmt.Sprintf("%d", n), "the insertion into the repo's data map was not found: rule needs review", w.fpos(f))
}

func init() {
	reg := func(id, prop string) {
		register(ruleDef{ID: id, Prop: prop, Tier: "quick", Floor: 2,
			Title: "a repo's saves reach the store in the order of their snapshots: in repoT.saveToStore a mutex acquired in the function is held from the serialization of the repo to the Put of the result",
			Fn:    ruleSaveSnapshotAndWriteTogether})
	}
	reg("R11.24", "C11")
	reg("R3.24", "C03")
}

func ruleSaveSnapshotAndWriteTogether(r *Run) {
	w := r.W
	f := w.method("datastore", "repoT", "saveToStore")
	if f == nil {
		r.undecided("datastore.repoT.saveToStore", "anchor not found")
		return
	}
	var ser, put ssa.Instruction
	for _, c := range calls(f) {
		if callee := staticCallee(c); callee != nil && callee.Name() == "Serialize" && relPkg(pkgPathOf(callee)) == "dvid" {
			ser = c
		}
		if methodNameOf(c) == "Put" && c.Common().IsInvoke() {
			put = c
		}
	}
	if !r.check(ser != nil && put != nil, "saveToStore:steps", "serialization and Put found", "Serialize or Put not found: rule needs review", w.fpos(f)) {
		return
	}
	ok := false
	for _, b := range f.Blocks {
		for _, in := range b.Instrs {
			op, isOp := asLockOp(in)
			if !isOp || !op.lock || !op.write {
				continue
			}
			h1, w1 := heldKeyAt(f, ser, op.key)
			h2, w2 := heldKeyAt(f, put, op.key)
			if h1 && w1 && h2 && w2 {
				ok = true
			}
		}
	}
	r.check(ok, "saveToStore:snapshot-and-write-under-one-lock", "one mutex is held from the serialization to the Put",
		"the repo is serialized and written without a lock across the two steps: of two concurrent changes the older snapshot can be written last, both requests are acknowledged, and after the next start one change is gone", w.pos(put.Pos()))
}
