package main

// Late C03 rules (restart rebuilds the state the live path had), written after mutation round c.
//
//   R3.10  the replay of the labelmap mutation log applies every supervoxel of a logged op
//   R3.11  the store of a new instance is resolved after the fields the resolution reads are final
//   R3.12  (=R16.9) stored neuronjson annotations are decoded with the annotation type's own decoder
//          wherever they are read back

import (
	"fmt"
	"go/token"
	"go/types"
	"strings"

	"golang.org/x/tools/go/ssa"
)

func init() {
	register(ruleDef{ID: "R3.10", Prop: "C03", Tier: "quick", Floor: 2,
		Title: "replay applies every logged entry: in the loader of the labelmap mutation log, the loops over a logged op's supervoxels set the mapping on every iteration (the live path did)",
		Fn:    ruleReplayAppliesAll})
	register(ruleDef{ID: "R3.11", Prop: "C03", Tier: "quick", Floor: 2,
		Title: "the store/log of a new data instance is resolved from its final identity: nothing that writes the name, tags, root uuid or type of the instance runs after the assignment was resolved (the loader resolves it again from the persisted fields)",
		Fn:    ruleStoreResolvedLast})
	register(ruleDef{ID: "R3.12", Prop: "C03", Tier: "quick", Floor: 3,
		Title: "stored neuronjson annotations are read back with the decoder the write path used: every json.Unmarshal of a stored value targets NeuronJSON (whose UnmarshalJSON keeps 64-bit integers and typed lists)",
		Fn:    ruleStoredAnnotationDecoder})
	register(ruleDef{ID: "R16.9", Prop: "C16", Tier: "quick", Floor: 3,
		Title: "the in-memory annotation database is filled from the store with the annotation type's own decoder (shared with R3.12)",
		Fn:    ruleStoredAnnotationDecoder})
}

// naturalLoops: header → set of blocks, from the back edges t→h with h dominating t.
func naturalLoops(f *ssa.Function) map[*ssa.BasicBlock]map[*ssa.BasicBlock]bool {
	loops := map[*ssa.BasicBlock]map[*ssa.BasicBlock]bool{}
	for _, t := range f.Blocks {
		for _, h := range t.Succs {
			if !h.Dominates(t) {
				continue
			}
			set := loops[h]
			if set == nil {
				set = map[*ssa.BasicBlock]bool{h: true}
				loops[h] = set
			}
			stack := []*ssa.BasicBlock{t}
			for len(stack) > 0 {
				x := stack[len(stack)-1]
				stack = stack[:len(stack)-1]
				if set[x] {
					continue
				}
				set[x] = true
				stack = append(stack, x.Preds...)
			}
		}
	}
	return loops
}

// innermostLoop: the smallest natural loop containing b, and whether it is nested in another one.
func innermostLoop(f *ssa.Function, b *ssa.BasicBlock) (h *ssa.BasicBlock, set map[*ssa.BasicBlock]bool, nested bool) {
	loops := naturalLoops(f)
	for hh, s := range loops {
		if s[b] && (set == nil || len(s) < len(set)) {
			h, set = hh, s
		}
	}
	if set == nil {
		return nil, nil, false
	}
	for hh, s := range loops {
		if hh != h && s[h] && len(s) > len(set) {
			nested = true
		}
	}
	return
}

func ruleReplayAppliesAll(r *Run) {
	w := r.W
	f := w.method("datatype/labelmap", "VCache", "loadVersionMapping")
	if f == nil || len(f.Blocks) == 0 {
		r.violation("labelmap.VCache.loadVersionMapping", "the loader of the mapping log was not found", "-")
		return
	}
	n, k := 0, 0
	for _, c := range calls(f) {
		if !callsMethodNamed(c, "setMapping") {
			continue
		}
		n++
		h, set, nested := innermostLoop(f, c.Block())
		if h == nil || !nested {
			continue // directly in the message loop: a message that cannot be decoded is skipped as a whole
		}
		k++
		r.check(!iterationCanSkip(set, h, c.Block()), fmt.Sprintf("loadVersionMapping:setMapping#%d:every-element", n),
			"the mapping is set for every supervoxel of the logged op",
			"the replay passes over some supervoxels of a logged op without setting their mapping: after a restart those supervoxels resolve differently from the live server (which recorded the entry as an override)", w.pos(c.Pos()))
	}
	r.check(n >= 4 && k >= 2, "loadVersionMapping:replay-sites", fmt.Sprintf("%d setMapping calls, %d inside per-op loops", n, k), "the replay no longer sets mappings per logged op: rule needs review", w.fpos(f))
}

func ruleStoreResolvedLast(r *Run) {
	w := r.W
	identity := map[string]bool{"tags": true, "name": true, "rootUUID": true, "typename": true, "typeurl": true, "id": true, "dataUUID": true}
	writes := func(g *ssa.Function) string {
		for _, b := range g.Blocks {
			for _, in := range b.Instrs {
				var addr ssa.Value
				switch x := in.(type) {
				case *ssa.Store:
					addr = x.Addr
				case *ssa.MapUpdate:
					if u, ok := x.Map.(*ssa.UnOp); ok {
						addr = u.X
					}
				}
				if fa, ok := addr.(*ssa.FieldAddr); ok {
					if name, _, ok := fieldName(fa); ok && identity[name] && typeIs(fa.X.Type(), "datastore", "Data") {
						return name
					}
				}
			}
		}
		return ""
	}
	var reachWrites func(g *ssa.Function, depth int, seen map[*ssa.Function]bool) string
	reachWrites = func(g *ssa.Function, depth int, seen map[*ssa.Function]bool) string {
		if g == nil || seen[g] || depth > 3 || len(g.Blocks) == 0 {
			return ""
		}
		seen[g] = true
		if fld := writes(g); fld != "" {
			return g.Name() + " writes " + fld
		}
		for _, c := range calls(g) {
			if s := reachWrites(staticCallee(c), depth+1, seen); s != "" {
				return s
			}
		}
		return ""
	}
	n := 0
	for _, f := range w.RepoFuncs {
		if relPkg(pkgPathOf(f)) != "datastore" || f.Parent() != nil || len(f.Blocks) == 0 || strings.HasSuffix(w.fposFile(f), "_test.go") {
			continue
		}
		for _, c := range calls(f) {
			cal := staticCallee(c)
			if cal == nil || relPkg(pkgPathOf(cal)) != "storage" || (cal.Name() != "GetAssignedStore" && cal.Name() != "GetAssignedLog") {
				continue
			}
			// only constructors: the resolved store is kept in the instance
			keeps := false
			if v, ok := c.(ssa.Value); ok && v.Referrers() != nil {
				for _, ref := range *v.Referrers() {
					if ex, ok := ref.(*ssa.Extract); ok && ex.Referrers() != nil {
						for _, r2 := range *ex.Referrers() {
							if st, ok := r2.(*ssa.Store); ok {
								if _, isF := st.Addr.(*ssa.FieldAddr); isF {
									keeps = true
								}
							}
						}
					}
				}
			}
			if !keeps {
				continue
			}
			n++
			late := func(in ssa.Instruction) bool {
				ci, ok := in.(ssa.CallInstruction)
				if !ok || in == ssa.Instruction(c) {
					return false
				}
				if g := staticCallee(ci); g != nil {
					return reachWrites(g, 0, map[*ssa.Function]bool{}) != ""
				}
				return false
			}
			p := findPath(f, c, nil, late, allEdges)
			detail := ""
			if p != nil {
				detail = reachWrites(staticCallee(p[len(p)-1].(ssa.CallInstruction)), 0, map[*ssa.Function]bool{})
			}
			r.check(p == nil, fmt.Sprintf("%s:%s:resolved-from-final-identity", fname(f), cal.Name()),
				"no writer of the instance's name/tags/uuid/type runs after the assignment is resolved",
				"the store assignment is resolved before the instance's identity is complete ("+detail+" afterwards): a tag- or name-based assignment is missed now and applied by the loader after a restart, so the instance changes store across the restart", w.pos(c.Pos()), w.renderPath(p)...)
		}
	}
	r.check(n >= 2, "datastore:store-resolution-sites", fmt.Sprintf("%d resolutions kept in an instance", n), "constructor-side store resolution not found: rule needs review", "-")
}

func ruleStoredAnnotationDecoder(r *Run) {
	w := r.W
	n := 0
	for _, f := range w.RepoFuncs {
		if relPkg(pkgPathOf(f)) != "datatype/neuronjson" || len(f.Blocks) == 0 || strings.HasSuffix(w.fposFile(f), "_test.go") {
			continue
		}
		k := 0
		for _, c := range calls(f) {
			o := calleeObj(c)
			if o == nil || o.Pkg() == nil || o.Pkg().Path() != "encoding/json" || o.Name() != "Unmarshal" {
				continue
			}
			// source is the V field of a storage.KeyValue
			stored := false
			for _, rt := range roots(c.Common().Args[0], f) {
				if u, ok := rt.V.(*ssa.UnOp); ok {
					if fa, ok := u.X.(*ssa.FieldAddr); ok {
						if name, _, ok := fieldName(fa); ok && name == "V" && hasKeyValueField2(fa.X.Type()) {
							stored = true
						}
					}
				}
				if fl, ok := rt.V.(*ssa.Field); ok {
					if name, _, ok := fieldName(fl); ok && name == "V" && hasKeyValueField2(fl.X.Type()) {
						stored = true
					}
				}
			}
			if !stored {
				continue
			}
			n++
			k++
			dst := c.Common().Args[1]
			if mi, ok := dst.(*ssa.MakeInterface); ok {
				dst = mi.X
			}
			okT := false
			if pt, ok := dst.Type().Underlying().(*types.Pointer); ok {
				okT = typeIs(pt.Elem(), "datatype/neuronjson", "NeuronJSON")
			}
			r.check(okT, fmt.Sprintf("%s:stored-value-decode#%d", fname(f), k), "decoded into NeuronJSON",
				"a stored annotation is decoded into "+dst.Type().String()+" instead of NeuronJSON: the generic decoder turns 64-bit integers into float64 and typed lists into []interface{}, so what is rebuilt from the store differs from what the write path put in memory", w.pos(c.Pos()))
		}
	}
	r.check(n >= 3, "neuronjson:stored-value-decodes", fmt.Sprintf("%d decodes of stored values", n), "decodes of stored annotation values not found: rule needs review", "-")
}

// hasKeyValueField2: t is (a pointer to) storage.KeyValue or a struct embedding it.
func hasKeyValueField2(t types.Type) bool {
	if p, ok := t.Underlying().(*types.Pointer); ok {
		t = p.Elem()
	}
	if typeIs(t, "storage", "KeyValue") || typeIs(t, "storage", "TKeyValue") {
		return true
	}
	if st, ok := t.Underlying().(*types.Struct); ok {
		for i := 0; i < st.NumFields(); i++ {
			if st.Field(i).Embedded() && hasKeyValueField2(st.Field(i).Type()) {
				return true
			}
		}
	}
	return false
}

// ---------------------------------------------------------------------------------------------
// R3.13 — the live cache of branch heads follows every change of the DAG's shape

func init() {
	register(ruleDef{ID: "R3.13", Prop: "C03", Tier: "quick", Floor: 3,
		Title: "the cached branch heads (what \"<uuid>:<branch>\" resolves to) follow the DAG: every repo-manager operation that adds or removes a node of a registered repo's DAG or renames a node's branch also updates the branch-head cache, which a restart recomputes from the DAG",
		Fn:    ruleBranchHeadCache})
}

func ruleBranchHeadCache(r *Run) {
	w := r.W
	updatesCache := func(g *ssa.Function) bool {
		for _, b := range g.Blocks {
			for _, in := range b.Instrs {
				if mu, ok := in.(*ssa.MapUpdate); ok {
					if u, ok := mu.Map.(*ssa.UnOp); ok {
						if fa, ok := u.X.(*ssa.FieldAddr); ok {
							if name, _, _ := fieldName(fa); name == "branchToUUID" {
								return true
							}
						}
					}
				}
			}
		}
		return false
	}
	var reaches func(g *ssa.Function, d int, seen map[*ssa.Function]bool) bool
	reaches = func(g *ssa.Function, d int, seen map[*ssa.Function]bool) bool {
		if g == nil || seen[g] || d > 3 || len(g.Blocks) == 0 {
			return false
		}
		seen[g] = true
		if updatesCache(g) {
			return true
		}
		for _, c := range calls(g) {
			if reaches(staticCallee(c), d+1, seen) {
				return true
			}
		}
		return false
	}
	n := 0
	for _, f := range w.RepoFuncs {
		if relPkg(pkgPathOf(f)) != "datastore" || f.Parent() != nil || len(f.Blocks) == 0 || strings.HasSuffix(w.fposFile(f), "_test.go") {
			continue
		}
		// methods of the repo manager only: they work on registered repos
		if f.Signature.Recv() == nil || recvName(f.Signature.Recv().Type()) != "repoManager" {
			continue
		}
		what, pos := "", ""
		for _, b := range f.Blocks {
			for _, in := range b.Instrs {
				switch x := in.(type) {
				case *ssa.MapUpdate:
					if isNodesMap(x.Map) {
						what, pos = "adds a DAG node", w.pos(x.Pos())
					}
				case *ssa.Call:
					if bi, ok := x.Call.Value.(*ssa.Builtin); ok && bi.Name() == "delete" && isNodesMap(x.Call.Args[0]) {
						what, pos = "removes a DAG node", w.pos(x.Pos())
					}
				case *ssa.Store:
					if fa, ok := x.Addr.(*ssa.FieldAddr); ok {
						if name, _, _ := fieldName(fa); name == "branch" && typeIs(fa.X.Type(), "datastore", "nodeT") {
							what, pos = "renames a node's branch", w.pos(x.Pos())
						}
					}
				}
			}
		}
		if what == "" {
			continue
		}
		if _, exc := r.exceptionFor("R3.13", fname(f)); exc {
			continue
		}
		n++
		r.check(reaches(f, 0, map[*ssa.Function]bool{}), fname(f)+":branch-head-cache-updated",
			what+" and updates the branch-head cache",
			"the operation "+what+" but never updates the cache of branch heads: until the next restart \"<uuid>:<branch>\" keeps resolving to the old head (or to a removed node), after the restart to the head recomputed from the DAG", pos)
	}
	r.check(n >= 3, "datastore:dag-shape-changes", fmt.Sprintf("%d repo-manager operations that change the DAG's shape", n), "too few: rule needs review", "-")
}

func isNodesMap(v ssa.Value) bool {
	u, ok := v.(*ssa.UnOp)
	if !ok {
		return false
	}
	fa, ok := u.X.(*ssa.FieldAddr)
	if !ok {
		return false
	}
	name, _, _ := fieldName(fa)
	return name == "nodes" && typeIs(fa.X.Type(), "datastore", "dagT")
}

// ---------------------------------------------------------------------------------------------
// R13.10 — a move keeps the per-body list current in every label case

func init() {
	register(ruleDef{ID: "R13.10", Prop: "C13", Tier: "quick", Floor: 4,
		Title: "moving an element updates the per-body element list in every case in which the element lies in a body: for each combination (same body / different bodies / from or to background) with a non-zero label, every success exit of the label half of a move lies behind a write of a label list",
		Fn:    ruleMoveLabelCases})
}

func ruleMoveLabelCases(r *Run) {
	w := r.W
	f := w.method("datatype/annotation", "Data", "moveElementInLabels")
	if f == nil || len(f.Blocks) == 0 {
		r.violation("annotation.Data.moveElementInLabels", "the label half of MoveElement was not found", "-")
		return
	}
	var labels []ssa.Value
	for _, b := range f.Blocks {
		for _, in := range b.Instrs {
			if ex, ok := in.(*ssa.Extract); ok && ex.Index == 0 {
				if c, ok := ex.Tuple.(*ssa.Call); ok && methodNameOf(c) == "GetLabelAtPoint" {
					labels = append(labels, ex)
				}
			}
		}
	}
	if len(labels) != 2 {
		r.undecided("moveElementInLabels:labels", fmt.Sprintf("expected the labels at the old and the new position (2 look-ups), found %d", len(labels)))
		return
	}
	oldL, newL := labels[0], labels[1]
	isPut := func(in ssa.Instruction) bool {
		c, ok := in.(ssa.CallInstruction)
		return ok && w.performs(in, []string{"putBatchElements"}, 2) && c != nil
	}
	for _, tc := range []struct {
		name              string
		eq, oldNZ, newNZ bool
	}{
		{"same-body", true, true, true},
		{"body-to-background", false, true, false},
		{"background-to-body", false, false, true},
		{"body-to-other-body", false, true, true},
	} {
		env := &AEnv{Atom: func(v ssa.Value) (AVal, bool) {
			// the consistent state: the old body's list does hold the element (delete reports a change)
			if ex, ok := v.(*ssa.Extract); ok && ex.Index == 1 {
				if c, ok := ex.Tuple.(*ssa.Call); ok && methodNameOf(c) == "delete" {
					return aBool(true), true
				}
			}
			bo, ok := v.(*ssa.BinOp)
			if !ok || (bo.Op != token.EQL && bo.Op != token.NEQ) {
				return unknown, false
			}
			x, y := stripConv(bo.X), stripConv(bo.Y)
			val, known := false, false
			switch {
			case (x == oldL && y == newL) || (x == newL && y == oldL):
				val, known = tc.eq, true
			case x == oldL || y == oldL:
				other := y
				if y == oldL {
					other = x
				}
				if k, isK := constInt(other); isK && k == 0 {
					val, known = !tc.oldNZ, true
				}
			case x == newL || y == newL:
				other := y
				if y == newL {
					other = x
				}
				if k, isK := constInt(other); isK && k == 0 {
					val, known = !tc.newNZ, true
				}
			}
			if !known {
				return unknown, false
			}
			if bo.Op == token.NEQ {
				val = !val
			}
			return aBool(val), true
		}}
		s := runSCCP(f, env)
		// start after the second look-up so that "no synced labels" exits do not count
		start := newL.(*ssa.Extract).Tuple.(*ssa.Call)
		p := findPath(f, start, isPut, isSuccessExit, s.EdgeFeasible)
		r.check(p == nil, "moveElementInLabels:"+tc.name+":label-list-written",
			"every success exit lies behind a write of a label list",
			"in the case "+tc.name+" the move can succeed without writing any label list: the body's list keeps the element at its old position (or keeps/loses it) while the element store has moved it", w.fpos(f), w.renderPath(p)...)
	}
}
