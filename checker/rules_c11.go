package main

import (
	"fmt"
	"go/token"
	"strings"

	"golang.org/x/tools/go/ssa"
)

func init() {
	register(ruleDef{ID: "R11.1", Prop: "C11", Tier: "quick", Floor: 3,
		Title: "covering lock for label-index read-modify-write: a function that reads a body's index and stores it back holds, from the read to the write, the index shard mutex selected by that same body label",
		Fn:    ruleR11_1})
	register(ruleDef{ID: "R11.2", Prop: "C11", Tier: "quick", Floor: 12,
		Title: "guarded-by: stores into shared in-memory state (DAG nodes, repo fields, id maps, branch heads, label counters, split records) happen with the owning mutex write-held",
		Fn:    ruleR11_2})
	register(ruleDef{ID: "R11.3", Prop: "C11", Tier: "quick", Floor: 4,
		Title: "check-then-act in one critical section: the membership test guarding an id-map insertion and the insertion are not separated by an unlock; values returned by allocators are read under the allocator's lock",
		Fn:    ruleR11_3})
	register(ruleDef{ID: "R11.4", Prop: "C11", Tier: "quick", Floor: 4,
		Title: "versioned put/delete are single transactions (a concurrent delete/put cannot interleave between data-key and tombstone operations; shared with C01 R1.2)",
		Fn:    func(r *Run) { ruleR1_2(r) }})
	register(ruleDef{ID: "R11.5", Prop: "C11", Tier: "quick", Floor: 20,
		Title: "lock hygiene: every struct-field / package-level mutex locked in a function is unlocked on every return path (or deferred), and never unlocked when not held",
		Fn:    ruleR11_5})
}

// ---------------------------------------------------------------------------------------------
// generic lock tracking: a lock class is the access path of the mutex operand

type lockOp struct {
	key   string // access-path key of the mutex ("load(param.m).idMutex", "global indexMu[*]")
	name  string // field / global name
	write bool
	lock  bool // true = acquire, false = release
	shard ssa.Value
}

func mutexKey(v ssa.Value) (key, name string, shard ssa.Value) {
	switch x := v.(type) {
	case *ssa.FieldAddr:
		n, _, _ := fieldName(x)
		return addrKey(x), n, nil
	case *ssa.IndexAddr:
		if g, ok := x.X.(*ssa.Global); ok {
			return "global@" + g.Name() + "[]", g.Name(), x.Index
		}
		if fa, ok := x.X.(*ssa.FieldAddr); ok {
			n, _, _ := fieldName(fa)
			return addrKey(fa) + "[]", n, x.Index
		}
	case *ssa.Global:
		return "global@" + x.Name(), x.Name(), nil
	case *ssa.UnOp:
		// *sync.Mutex held in a variable/field
		if fa, ok := x.X.(*ssa.FieldAddr); ok {
			n, _, _ := fieldName(fa)
			return "ptr:" + addrKey(fa), n, nil
		}
	case *ssa.Alloc:
		return "", "", nil // local mutex (semaphore idiom): not a class
	case *ssa.Phi:
		// a variable holding the accessor's result (shardMu := indexShardMu(label)) seen through a trivial phi
		if len(x.Edges) == 1 {
			return mutexKey(x.Edges[0])
		}
	case *ssa.Call:
		// an accessor of the package that returns the address of a mutex of a sharded table selected by one of its
		// parameters (indexShardMu(label) = &indexMu[label%numIndexShards]): the class is the table's, the shard
		// selector is the argument; the key carries the mark "|accessor" so that users can tell the two forms apart
		g := x.Call.StaticCallee()
		if g == nil || len(g.Blocks) != 1 || !inRepo(g) || mutexKeyDepth > 0 {
			return "", "", nil
		}
		ret, ok := g.Blocks[0].Instrs[len(g.Blocks[0].Instrs)-1].(*ssa.Return)
		if !ok || len(ret.Results) != 1 {
			return "", "", nil
		}
		mutexKeyDepth++
		k, n, sh := mutexKey(ret.Results[0])
		mutexKeyDepth--
		if k == "" {
			return "", "", nil
		}
		if sh == nil {
			return k, n, nil
		}
		for _, rv := range roots(sh, g) {
			if bo, ok := rv.V.(*ssa.BinOp); ok && bo.Op == token.REM {
				for i, prm := range g.Params {
					if stripConv(bo.X) == ssa.Value(prm) && i < len(x.Call.Args) {
						return k + "|accessor", n, x.Call.Args[i]
					}
				}
			}
		}
		return "", "", nil
	}
	return "", "", nil
}

var mutexKeyDepth int

// shardSelectors: the values whose remainder selects the shard of a sharded-mutex operation (x in table[x%n], or the
// argument of an accessor that computes the remainder itself).
func shardSelectors(op lockOp, f *ssa.Function) []ssa.Value {
	if op.shard == nil {
		return nil
	}
	if strings.HasSuffix(op.key, "|accessor") {
		return []ssa.Value{op.shard}
	}
	var out []ssa.Value
	for _, rv := range roots(op.shard, f) {
		if bo, ok := rv.V.(*ssa.BinOp); ok && bo.Op == token.REM {
			out = append(out, bo.X)
		}
	}
	return out
}

func asLockOp(in ssa.Instruction) (lockOp, bool) {
	var cc *ssa.CallCommon
	switch x := in.(type) {
	case *ssa.Call:
		cc = &x.Call
	case *ssa.Defer:
		return lockOp{}, false
	default:
		return lockOp{}, false
	}
	callee := cc.StaticCallee()
	if callee == nil || len(cc.Args) == 0 || !strings.HasPrefix(callee.String(), "(*sync.") {
		return lockOp{}, false
	}
	var op lockOp
	switch callee.Name() {
	case "Lock":
		op.lock, op.write = true, true
	case "RLock":
		op.lock = true
	case "Unlock":
		op.write = true
	case "RUnlock":
	default:
		return lockOp{}, false
	}
	op.key, op.name, op.shard = mutexKey(cc.Args[0])
	if op.key == "" {
		return lockOp{}, false
	}
	return op, true
}

// heldAt: must-hold analysis for the lock class with the given name (any receiver) at `at`.
// needWrite=true demands the write lock.  Returns the acquiring instruction when held.
func heldAt(f *ssa.Function, at ssa.Instruction, name string, needWrite bool) (bool, ssa.Instruction) {
	type st struct {
		held bool
		by   ssa.Instruction
	}
	in := map[*ssa.BasicBlock]st{}
	for _, b := range f.Blocks {
		in[b] = st{held: true}
	}
	in[f.Blocks[0]] = st{}
	step := func(s st, x ssa.Instruction) st {
		if op, ok := asLockOp(x); ok && op.name == name {
			if op.lock {
				if op.write || !needWrite {
					return st{true, x}
				}
				return st{}
			}
			return st{}
		}
		return s
	}
	out := func(b *ssa.BasicBlock, upto ssa.Instruction) st {
		s := in[b]
		for _, x := range b.Instrs {
			if x == upto {
				break
			}
			s = step(s, x)
		}
		return s
	}
	for changed := true; changed; {
		changed = false
		for _, b := range f.Blocks[1:] {
			v := st{held: true}
			if len(b.Preds) == 0 {
				v = st{}
			}
			for _, p := range b.Preds {
				o := out(p, nil)
				if !o.held {
					v = st{}
				} else if v.held && v.by == nil {
					v.by = o.by
				}
			}
			if v.held != in[b].held || v.by != in[b].by {
				in[b] = v
				changed = true
			}
		}
	}
	s := out(at.Block(), at)
	return s.held, s.by
}

// ---------------------------------------------------------------------------------------------

func ruleR11_1(r *Run) {
	w := r.W
	isGet := func(c ssa.CallInstruction) bool {
		callee := c.Common().StaticCallee()
		if callee == nil || relPkg(pkgPathOf(callee)) != "datatype/labelmap" {
			return false
		}
		switch callee.Name() {
		case "getCachedLabelIndex", "getLabelIndex", "GetLabelIndex":
			return true
		}
		return false
	}
	isPut := func(c ssa.CallInstruction) bool {
		callee := c.Common().StaticCallee()
		if callee == nil || relPkg(pkgPathOf(callee)) != "datatype/labelmap" {
			return false
		}
		switch callee.Name() {
		case "putCachedLabelIndex", "putLabelIndex", "putLabelIndexAndMax", "PutLabelIndex":
			return true
		}
		return false
	}
	n := 0
	for _, f := range w.RepoFuncs {
		if relPkg(pkgPathOf(f)) != "datatype/labelmap" || len(f.Blocks) == 0 {
			continue
		}
		for _, g := range calls(f) {
			if !isGet(g) {
				continue
			}
			gv, _ := g.(ssa.Value)
			if gv == nil {
				continue
			}
			// the index pointer obtained
			var idx ssa.Value
			if gv.Referrers() != nil {
				for _, ref := range *gv.Referrers() {
					if ex, ok := ref.(*ssa.Extract); ok && ex.Index == 0 {
						idx = ex
					}
				}
			}
			if idx == nil {
				continue
			}
			ga := g.Common().Args
			var label ssa.Value
			for i, a := range ga {
				if a.Type().String() == "uint64" {
					label = ga[i]
					break
				}
			}
			if label == nil {
				continue
			}
			for _, p := range calls(f) {
				if !isPut(p) {
					continue
				}
				pa := p.Common().Args
				same := false
				for _, rv := range roots(pa[len(pa)-1], f) {
					if rv.V == idx {
						same = true
					}
				}
				if !same {
					continue
				}
				n++
				construct := fmt.Sprintf("%s:index-rmw(%s)", fname(f), valueLabel(label))
				hg, lockG := heldAt(f, g, "indexMu", true)
				hp, lockP := heldAt(f, p, "indexMu", true)
				if !(hg && hp) {
					if reason, ok := r.exception(construct); ok {
						r.ok(construct, "exception: "+reason, w.pos(g.Pos()))
						continue
					}
					r.violation(construct, "a body's label index is read, modified and written back without holding an index shard mutex from the read to the write: two concurrent operations on that body lose one update", w.pos(g.Pos()))
					continue
				}
				// the shard must be selected by the same label
				okShard := false
				for _, l := range []ssa.Instruction{lockG, lockP} {
					if op, ok := asLockOp(l); ok && op.shard != nil {
						for _, sv := range shardSelectors(op, f) {
							if sameRoots(sv, label, f) {
								okShard = true
							}
						}
					}
				}
				r.check(okShard, construct, "read and write happen under the shard mutex chosen by the same label",
					"the index shard mutex held around the read-modify-write is selected by a different label than the body whose index is changed: concurrent operations on that body are not serialised", w.pos(g.Pos()))
			}
		}
	}
	if n < 3 {
		r.undecided("index-rmw-sites", fmt.Sprintf("only %d index read-modify-write sites found", n))
	}
}

func valueLabel(v ssa.Value) string {
	v = stripConv(v)
	switch x := v.(type) {
	case *ssa.Parameter:
		return x.Name()
	case *ssa.Field:
		n, _, _ := fieldName(x)
		return n
	case *ssa.UnOp:
		if fa, ok := x.X.(*ssa.FieldAddr); ok {
			n, _, _ := fieldName(fa)
			return n
		}
	case *ssa.Extract:
		return "result"
	}
	return "label"
}

// ---------------------------------------------------------------------------------------------

type guardedField struct{ pkg, typ, field, mutex string }

var guardedTable = []guardedField{
	{"datastore", "nodeT", "children", "RWMutex"}, {"datastore", "nodeT", "parents", "RWMutex"}, {"datastore", "nodeT", "locked", "RWMutex"},
	{"datastore", "nodeT", "note", "RWMutex"}, {"datastore", "nodeT", "log", "RWMutex"}, {"datastore", "nodeT", "branch", "RWMutex"},
	{"datastore", "repoT", "log", "RWMutex"}, {"datastore", "repoT", "alias", "RWMutex"}, {"datastore", "repoT", "description", "RWMutex"}, {"datastore", "repoT", "data", "RWMutex"},
	{"datastore", "dagT", "nodes", "RWMutex"},
	{"datastore", "repoManager", "uuidToVersion", "idMutex"}, {"datastore", "repoManager", "versionToUUID", "idMutex"}, {"datastore", "repoManager", "repoToUUID", "idMutex"},
	{"datastore", "repoManager", "repos", "repoMutex"}, {"datastore", "repoManager", "branchToUUID", "branchMutex"},
	{"datastore", "repoT", "mutCurID", "mutMu"}, {"datastore", "repoT", "mutSavedID", "mutMu"},
	{"datatype/labelmap", "VCache", "splits", "splitsMu"}, {"datatype/labelmap", "VCache", "mappedVersions", "mappedVersionsMu"},
}

func ruleR11_2(r *Run) {
	w := r.W
	n := 0
	for _, f := range w.RepoFuncs {
		pkg := relPkg(pkgPathOf(f))
		if !(pkg == "datastore" || pkg == "datatype/labelmap") || len(f.Blocks) == 0 {
			continue
		}
		fn := f.Name()
		if fn == "GobDecode" || strings.HasPrefix(fn, "init") {
			continue
		}
		for _, b := range f.Blocks {
			for _, in := range b.Instrs {
				var fa *ssa.FieldAddr
				switch x := in.(type) {
				case *ssa.Store:
					fa, _ = x.Addr.(*ssa.FieldAddr)
				case *ssa.MapUpdate:
					if u, ok := x.Map.(*ssa.UnOp); ok {
						fa, _ = u.X.(*ssa.FieldAddr)
					}
				case *ssa.Call:
					if bi, ok := x.Call.Value.(*ssa.Builtin); ok && bi.Name() == "delete" {
						if u, ok := x.Call.Args[0].(*ssa.UnOp); ok {
							fa, _ = u.X.(*ssa.FieldAddr)
						}
					}
				}
				if fa == nil {
					continue
				}
				name, _, _ := fieldName(fa)
				tn := namedOf(fa.X.Type())
				if tn == nil {
					continue
				}
				var gf *guardedField
				for i := range guardedTable {
					g := &guardedTable[i]
					if g.field == name && g.typ == tn.Obj().Name() && tn.Obj().Pkg() != nil && relPkg(tn.Obj().Pkg().Path()) == g.pkg {
						gf = g
					}
				}
				if gf == nil {
					continue
				}
				if isFreshObject(fa.X, f) {
					continue // object under construction, not yet shared
				}
				construct := fmt.Sprintf("%s:%s.%s", fname(f), gf.typ, gf.field)
				if reason, ok := r.exception(construct); ok {
					r.ok(construct, "exception: "+reason, w.pos(in.Pos()))
					continue
				}
				n++
				held := heldWriteForObject(f, in, gf.mutex, fa.X)
				r.check(held, construct+":under-"+gf.mutex, gf.mutex+" is write-locked at the store",
					fmt.Sprintf("%s.%s is written without holding %s for writing: a concurrent request can read a half-updated value or lose this update", gf.typ, gf.field, gf.mutex), w.pos(in.Pos()))
			}
		}
	}
	if n < 12 {
		r.undecided("guarded-stores", fmt.Sprintf("only %d stores to guarded fields found", n))
	}
}

// heldWriteForObject: the mutex field `mu` is write-held at `at`.  For embedded RWMutex (one per
// object) the lock must be on the same object as the field written.
func heldWriteForObject(f *ssa.Function, at ssa.Instruction, mu string, obj ssa.Value) bool {
	// embedded RWMutex: several objects of one function carry a mutex of that name (repo, dag, node);
	// follow the access path of the object's own mutex
	if mu == "RWMutex" {
		for _, b := range f.Blocks {
			for _, in := range b.Instrs {
				op, ok := asLockOp(in)
				if !ok || !op.lock || !op.write || op.name != mu {
					continue
				}
				c := in.(*ssa.Call)
				fa, ok := c.Call.Args[0].(*ssa.FieldAddr)
				if !ok || !(sameRoots(fa.X, obj, f) || placeKey(fa.X) == placeKey(obj)) {
					continue
				}
				if held, write := heldKeyAt(f, at, op.key); held && write {
					return true
				}
			}
		}
	}
	held, by := heldAt(f, at, mu, true)
	if !held {
		return false
	}
	if mu != "RWMutex" || by == nil {
		return true
	}
	if typeIs(obj.Type(), "datastore", "dagT") {
		// the DAG's node map is guarded by the owning repo's lock (readers take r.RLock) or the dag's own
		if c, ok := by.(*ssa.Call); ok {
			if fa, ok := c.Call.Args[0].(*ssa.FieldAddr); ok && (typeIs(fa.X.Type(), "datastore", "repoT") || typeIs(fa.X.Type(), "datastore", "dagT")) {
				return true
			}
		}
	}
	// same object: the lock operand's base has the same roots as the written object
	if c, ok := by.(*ssa.Call); ok {
		if fa, ok := c.Call.Args[0].(*ssa.FieldAddr); ok {
			return sameRoots(fa.X, obj, f) || placeKey(fa.X) == placeKey(obj)
		}
	}
	return true
}

// ---------------------------------------------------------------------------------------------

func ruleR11_3(r *Run) {
	w := r.W
	// (a) id-map insertions guarded by a membership test: no unlock of idMutex between test and insert
	for _, name := range []string{"newUUID", "newVersionID"} {
		f := w.method("datastore", "repoManager", name)
		if f == nil {
			r.violation("repoManager."+name, "not found", "-")
			continue
		}
		for _, b := range f.Blocks {
			for _, in := range b.Instrs {
				mu, ok := in.(*ssa.MapUpdate)
				if !ok || !isFieldLoad(mu.Map, "repoManager", "uuidToVersion") {
					continue
				}
				// the dominating membership test
				var test *ssa.Lookup
				for _, b2 := range f.Blocks {
					for _, in2 := range b2.Instrs {
						if lk, ok := in2.(*ssa.Lookup); ok && lk.CommaOk && isFieldLoad(lk.X, "repoManager", "uuidToVersion") && lk.Block().Dominates(b) {
							test = lk
						}
					}
				}
				construct := "repoManager." + name + ":uuid-check-and-insert-atomic"
				if test == nil {
					r.violation(construct, "no membership test dominates the insertion into uuidToVersion", w.pos(mu.Pos()))
					continue
				}
				isUnlock := func(x ssa.Instruction) bool {
					op, ok := asLockOp(x)
					return ok && !op.lock && op.name == "idMutex"
				}
				p := findPath(f, test, nil, func(x ssa.Instruction) bool { return x == ssa.Instruction(mu) }, nil)
				p2 := findPath(f, test, isUnlock, func(x ssa.Instruction) bool { return x == ssa.Instruction(mu) }, nil)
				if reason, ok := r.exception(construct); ok && !(p != nil && p2 != nil) {
					r.ok(construct, "exception: "+reason, w.pos(mu.Pos()))
					continue
				}
				r.check(p != nil && p2 != nil, construct, "the test and the insertion share one idMutex critical section",
					"idMutex is released between the test that the UUID is unused and its insertion: two concurrent requests with the same UUID both pass the test and one UUID ends up naming two nodes", w.pos(mu.Pos()))
			}
		}
	}
	// (b) allocators return values read under their lock
	type alloc struct{ pkg, recv, name, field, mutex string }
	for _, a := range []alloc{
		{"datatype/labelmap", "Data", "newLabel", "NextLabel", "mlMu"}, {"datatype/labelmap", "Data", "newLabel", "MaxRepoLabel", "mlMu"},
		{"datatype/labelmap", "Data", "newLabels", "NextLabel", "mlMu"}, {"datatype/labelmap", "Data", "newLabels", "MaxRepoLabel", "mlMu"},
		{"datastore", "repoT", "newMutationID", "mutCurID", "mutMu"},
	} {
		f := w.method(a.pkg, a.recv, a.name)
		if f == nil {
			r.violation(a.recv+"."+a.name, "allocator not found", "-")
			continue
		}
		bad := ""
		nl := 0
		for _, b := range f.Blocks {
			for _, in := range b.Instrs {
				v, ok := in.(ssa.Value)
				if !ok || !isFieldLoad(v, a.recv, a.field) {
					continue
				}
				nl++
				if held, _ := heldAt(f, in, a.mutex, false); !held {
					bad = w.pos(in.Pos())
				}
			}
		}
		r.check(bad == "" && nl > 0, fmt.Sprintf("%s.%s:%s-read-under-%s", a.recv, a.name, a.field, a.mutex),
			fmt.Sprintf("all %d reads of %s in the allocator happen with %s held", nl, a.field, a.mutex),
			fmt.Sprintf("the allocator reads %s after releasing %s: the value returned can be the one a concurrent allocation produced — the same identifier is handed out twice", a.field, a.mutex), bad)
	}
}

// ---------------------------------------------------------------------------------------------

func ruleR11_5(r *Run) {
	w := r.W
	n := 0
	for _, f := range w.RepoFuncs {
		pkg := relPkg(pkgPathOf(f))
		if !(pkg == "datastore" || strings.HasPrefix(pkg, "datatype/labelmap") || pkg == "datatype/neuronjson" || pkg == "datatype/annotation" || pkg == "storage/filelog" || pkg == "datatype/common/downres") || len(f.Blocks) == 0 {
			continue
		}
		// lock classes acquired in this function
		classes := map[string]lockOp{}
		deferred := map[string]bool{}
		for _, b := range f.Blocks {
			for _, in := range b.Instrs {
				if op, ok := asLockOp(in); ok && op.lock {
					classes[op.key+"/"+fmt.Sprint(op.write)] = op
				}
				if d, ok := in.(*ssa.Defer); ok {
					callee := d.Call.StaticCallee()
					if callee != nil && strings.HasPrefix(callee.String(), "(*sync.") && (callee.Name() == "Unlock" || callee.Name() == "RUnlock") {
						k, _, _ := mutexKey(d.Call.Args[0])
						deferred[k+"/"+fmt.Sprint(callee.Name() == "Unlock")] = true
					}
				}
			}
		}
		for ck, op := range classes {
			if deferred[ck] {
				n++
				r.okTrivial(fmt.Sprintf("%s:%s:released", fname(f), op.name), "unlock deferred", w.fpos(f))
				continue
			}
			// from each acquisition, every path to a return passes a release of the same class
			var leak []ssa.Instruction
			for _, b := range f.Blocks {
				for _, in := range b.Instrs {
					o, ok := asLockOp(in)
					if !ok || !o.lock || o.key != op.key || o.write != op.write {
						continue
					}
					rel := func(x ssa.Instruction) bool {
						o2, ok := asLockOp(x)
						return ok && !o2.lock && o2.key == op.key && o2.write == op.write
					}
					if p := findPath(f, in, rel, isReturn, nil); p != nil {
						leak = p
					}
				}
			}
			n++
			construct := fmt.Sprintf("%s:%s:released", fname(f), op.name)
			if leak != nil {
				if reason, ok := r.exception(construct); ok {
					r.ok(construct, "exception: "+reason, w.fpos(f))
					continue
				}
				r.violation(construct, fmt.Sprintf("the function can return while still holding %s (write=%v): every later request needing that lock blocks forever", op.name, op.write), w.fpos(f), w.renderPath(leak)...)
				continue
			}
			r.ok(construct, "released on every return path", w.fpos(f))
		}
	}
	if n < 20 {
		r.undecided("lock-sites", fmt.Sprintf("only %d lock acquisitions examined", n))
	}
}
