package main

import (
	"fmt"
	"go/ast"
	"go/constant"
	"go/token"
	"go/types"
	"sort"
	"strings"

	"golang.org/x/tools/go/ssa"
)

func init() {
	register(ruleDef{ID: "R6.1", Prop: "C06", Tier: "quick", Floor: 14,
		Title: "key layout agreement: every key constructor yields [prefix][instance][tkey][version][client][marker] (or a prefix of it) and every parser/rewriter addresses the same regions",
		Fn:    ruleR6_1})
	register(ruleDef{ID: "R6.3", Prop: "C06", Tier: "quick", Floor: 5,
		Title: "TKey class tables: within each data-type package the TKeyClass constants are pairwise distinct",
		Fn:    ruleR6_3})
	register(ruleDef{ID: "R6.4", Prop: "C06", Tier: "quick", Floor: 4,
		Title: "instance ids are never reused: tested against the live id set, incremented under idMutex and persisted after the increment",
		Fn:    ruleR6_4})
	register(ruleDef{ID: "R6.5", Prop: "C06", Tier: "quick", Floor: 2,
		Title: "instance key range: [prefix‖id, prefix‖(id+1)) built with the id's own fixed-width big-endian encoding",
		Fn:    ruleR6_5})
	register(ruleDef{ID: "R6.6", Prop: "C06", Tier: "quick", Floor: 1,
		Title: "iterator-owned key buffers (Item.Key()) are never retained by a write batch, slice or channel; copies are used",
		Fn:    ruleR6_6})
	register(ruleDef{ID: "R6.7", Prop: "C06", Tier: "quick", Floor: 3,
		Title: "scans stay inside one instance: the versioned scanner's bounds are instance-scoped context keys (shared with C05 R5.2)",
		Fn:    func(r *Run) { ruleR5_2(r) }})
}

// ---------------------------------------------------------------------------------------------
// constructors: component sequence of the byte slice returned

// kcBind binds the parameters of key-building helpers that keyComponents has entered to the arguments of the
// call it came through (constructDataKey → assembleDataKey(i, tk, v, c, marker)).
var kcBind = map[*ssa.Parameter]ssa.Value{}

func kcResolve(v ssa.Value) ssa.Value {
	for i := 0; i < 8; i++ {
		v = stripConv(v)
		p, ok := v.(*ssa.Parameter)
		if !ok {
			return v
		}
		b, ok := kcBind[p]
		if !ok {
			return v
		}
		v = b
	}
	return v
}

// components resolves an append chain into component names.
func keyComponents(v ssa.Value, f *ssa.Function, depth int) []string {
	if depth > 12 {
		return []string{"?"}
	}
	v = kcResolve(v)
	switch x := v.(type) {
	case *ssa.Extract:
		// component of a helper's (Key, error) result
		if c, ok := x.Tuple.(*ssa.Call); ok {
			if callee := c.Call.StaticCallee(); callee != nil && inRepo(callee) {
				if len(callee.Params) == len(c.Call.Args) {
					for i, p := range callee.Params {
						kcBind[p] = kcResolve(c.Call.Args[i])
					}
				}
				for _, b := range callee.Blocks {
					if ret, ok := b.Instrs[len(b.Instrs)-1].(*ssa.Return); ok && len(ret.Results) > x.Index {
						return keyComponents(ret.Results[x.Index], callee, depth+1)
					}
				}
			}
		}
		return []string{"?"}
	case *ssa.MakeSlice:
		// make([]byte, 0, n): an empty head of an append chain
		if k, ok := constInt(x.Len); ok && k == 0 {
			return nil
		}
		return []string{"?"}
	case *ssa.Call:
		if bi, ok := x.Call.Value.(*ssa.Builtin); ok && bi.Name() == "append" {
			head := keyComponents(x.Call.Args[0], f, depth+1)
			tail := keyComponents(x.Call.Args[1], f, depth+1)
			return append(head, tail...)
		}
		callee := x.Call.StaticCallee()
		if callee != nil && callee.Name() == "Bytes" && len(x.Call.Args) == 1 {
			t := x.Call.Args[0].Type()
			n := namedOf(t)
			if n != nil {
				extra := ""
				if k, ok := constInt(kcResolve(x.Call.Args[0])); ok {
					extra = fmt.Sprintf("=%d", uint32(k))
				} else if l := lin(x.Call.Args[0], 0); l.ok && l.c != 0 && len(l.terms) == 1 {
					extra = fmt.Sprintf("%+d", l.c)
				}
				return []string{strings.ToLower(strings.TrimSuffix(n.Obj().Name(), "ID")) + extra}
			}
		}
		if callee != nil && inRepo(callee) {
			// helper returning a key: inline, with its parameters bound to the arguments
			if len(callee.Params) == len(x.Call.Args) {
				for i, p := range callee.Params {
					kcBind[p] = kcResolve(x.Call.Args[i])
				}
			}
			for _, b := range callee.Blocks {
				if ret, ok := b.Instrs[len(b.Instrs)-1].(*ssa.Return); ok && len(ret.Results) > 0 {
					return keyComponents(ret.Results[0], callee, depth+1)
				}
			}
		}
		return []string{"?call"}
	case *ssa.Slice:
		// variadic literal: new [n]byte with constant stores, or a conversion of a TKey / Key
		if al, ok := x.X.(*ssa.Alloc); ok {
			var idx []int
			vals := map[int]string{}
			for _, ref := range *al.Referrers() {
				if ia, ok := ref.(*ssa.IndexAddr); ok {
					i, _ := constInt(ia.Index)
					for _, r2 := range *ia.Referrers() {
						if st, ok := r2.(*ssa.Store); ok {
							if k, ok := constInt(kcResolve(st.Val)); ok {
								vals[int(i)] = fmt.Sprintf("byte=%#x", k)
							} else {
								vals[int(i)] = "byte(" + typeShort(st.Val.Type()) + ")"
							}
							idx = append(idx, int(i))
						}
					}
				}
			}
			sort.Ints(idx)
			var out []string
			for _, i := range idx {
				out = append(out, vals[i])
			}
			return out
		}
		return keyComponents(x.X, f, depth+1)
	case *ssa.Parameter:
		return []string{paramKind(x.Type())}
	case *ssa.Phi:
		return keyComponents(x.Edges[0], f, depth+1)
	case *ssa.UnOp:
		return []string{"?" + typeShort(x.Type())}
	case *ssa.Const:
		return nil
	}
	return []string{"?"}
}

func typeShort(t types.Type) string {
	return types.TypeString(t, func(*types.Package) string { return "" })
}

func paramKind(t types.Type) string {
	if typeIs(t, "storage", "TKey") {
		return "tkey"
	}
	if typeIs(t, "storage", "Key") {
		return "key"
	}
	return "bytes"
}

func isPrefixSeq(a, full []string) bool {
	if len(a) > len(full) {
		return false
	}
	for i := range a {
		if !compMatch(a[i], full[i]) {
			return false
		}
	}
	return true
}

// compMatch: component kinds agree (constants in full are wildcards for the kind).
func compMatch(got, want string) bool {
	kind := func(s string) string {
		for i, ch := range s {
			if ch == '=' || ch == '+' || ch == '-' {
				return s[:i]
			}
		}
		return s
	}
	return kind(got) == kind(want)
}

func ruleR6_1(r *Run) {
	w := r.W
	full := []string{"byte", "instance", "tkey", "version", "client", "byte"}
	dataPrefix := int64(-1)
	if p := w.tpkg("storage"); p != nil {
		if c, ok := p.Scope().Lookup("dataKeyPrefix").(*types.Const); ok {
			dataPrefix, _ = constant.Int64Val(c.Val())
		}
	}
	type ctor struct {
		recv, name string
		fullKey    bool
		result     int
	}
	ctors := []ctor{
		{"", "constructDataKey", true, 0}, {"DataContext", "TombstoneKey", true, 0}, {"DataContext", "TombstoneKeyVersion", true, 0},
		{"DataContext", "MinVersionKey", true, 0}, {"DataContext", "MaxVersionKey", true, 0}, {"", "MaxVersionDataKey", true, 0},
		{"DataContext", "UnversionedKeyPrefix", false, 0}, {"DataContext", "UnversionedKey", false, 0}, {"DataContext", "SplitKey", false, 0},
		{"DataContext", "ConstructKey", true, 0}, {"DataContext", "ConstructKeyVersion", true, 0},
	}
	for _, c := range ctors {
		var f *ssa.Function
		if c.recv == "" {
			f = w.fn("storage", c.name)
		} else {
			f = w.method("storage", c.recv, c.name)
		}
		name := "storage." + c.name
		if f == nil {
			r.violation(name, "key constructor not found", "-")
			continue
		}
		var comps []string
		for _, b := range f.Blocks {
			if ret, ok := b.Instrs[len(b.Instrs)-1].(*ssa.Return); ok && len(ret.Results) > c.result {
				comps = keyComponents(ret.Results[c.result], f, 0)
			}
		}
		okSeq := false
		if c.fullKey {
			okSeq = len(comps) == len(full) && isPrefixSeq(comps, full)
		} else {
			okSeq = len(comps) >= 2 && isPrefixSeq(comps, full)
		}
		okPrefix := len(comps) > 0 && comps[0] == fmt.Sprintf("byte=%#x", dataPrefix)
		r.check(okSeq && okPrefix, name+":layout", "components "+strings.Join(comps, "|"),
			fmt.Sprintf("%s builds a key with components %v; the data-key layout is [prefix=%#x][instance][tkey][version][client][marker]", c.name, comps, dataPrefix), w.fpos(f))
		// min / max version keys bracket: ids and marker at their extremes
		switch c.name {
		case "MinVersionKey":
			r.check(len(comps) == 6 && comps[3] == "version=0" && comps[4] == "client=0" && comps[5] == "byte=0x0", name+":minimum",
				"version=0, client=0, marker=0x00", fmt.Sprintf("MinVersionKey does not use the minimal version/client/marker: %v", comps), w.fpos(f))
		case "MaxVersionKey", "MaxVersionDataKey":
			r.check(len(comps) == 6 && comps[3] == "version=4294967295" && comps[4] == "client=4294967295" && comps[5] == "byte=0xff", name+":maximum",
				"version=max, client=max, marker=0xff", fmt.Sprintf("%s does not use the maximal version/client/marker: %v", c.name, comps), w.fpos(f))
		}
	}

	// parsers / rewriters: regions addressed in the key parameter, as linear forms in len(key)
	const I, V, C = 4, 4, 4
	type region struct{ lo, hi string }
	want := map[string]region{
		"instance": {"1", "5"},
		"version":  {"len-9", "len-5"},
		"client":   {"len-5", "len-1"},
		"tkey":     {"5", "len-9"},
		"unvers":   {"", "len-9"},
		"versd":    {"len-9", "len"},
	}
	_ = I + V + C
	norm := func(l linForm) string {
		if !l.ok {
			return "?"
		}
		if len(l.terms) == 0 {
			return fmt.Sprintf("%d", l.c)
		}
		if len(l.terms) == 1 {
			for k, v := range l.terms {
				if v == 1 && strings.HasPrefix(k, "len(") {
					if l.c == 0 {
						return "len"
					}
					return fmt.Sprintf("len%+d", l.c)
				}
			}
		}
		return "?"
	}
	parsers := []struct {
		recv, name string
	}{{"", "TKeyFromKey"}, {"", "SplitKey"}, {"", "DataKeyToLocalIDs"}, {"", "UpdateDataKey"}, {"", "ChangeDataKeyInstance"}, {"", "ChangeDataKeyVersion"},
		{"DataContext", "UpdateInstance"}, {"DataContext", "InstanceFromKey"}, {"DataContext", "VersionFromKey"}, {"", "VersionFromDataKey"},
		{"DataContext", "ClientFromKey"}, {"", "MaxVersionDataKeyFromKey"}}
	for _, p := range parsers {
		var f *ssa.Function
		if p.recv == "" {
			f = w.fn("storage", p.name)
		} else {
			f = w.method("storage", p.recv, p.name)
		}
		name := "storage." + p.name
		if f == nil {
			r.violation(name, "key parser not found", "-")
			continue
		}
		var problems, seen []string
		for _, b := range f.Blocks {
			for _, in := range b.Instrs {
				sl, ok := in.(*ssa.Slice)
				if !ok || !(typeIs(sl.X.Type(), "storage", "Key") || isByteSlice(sl.X.Type())) {
					continue
				}
				// only slices of a key-typed parameter (or its copy)
				root := stripConv(sl.X)
				if _, isP := root.(*ssa.Parameter); !isP {
					if _, isMS := root.(*ssa.MakeSlice); !isMS {
						continue
					}
				}
				lo, hi := "", ""
				if sl.Low != nil {
					lo = norm(lin(sl.Low, 0))
				}
				if sl.High != nil {
					hi = norm(lin(sl.High, 0))
				} else {
					hi = "len"
				}
				kind := regionKind(sl, f)
				seen = append(seen, fmt.Sprintf("%s[%s:%s]", kind, lo, hi))
				if kind == "" {
					continue
				}
				wr := want[kind]
				if p.name == "TKeyFromKey" && lo == "1" && hi == "len" {
					continue // metadata keys: everything after the prefix byte
				}
				if lo != wr.lo && !(wr.lo == "" && (lo == "" || lo == "0")) || hi != wr.hi {
					problems = append(problems, fmt.Sprintf("%s region addressed as [%s:%s], layout says [%s:%s]", kind, lo, hi, wr.lo, wr.hi))
				}
			}
		}
		r.check(len(problems) == 0 && len(seen) > 0, name+":regions", strings.Join(seen, " "),
			fmt.Sprintf("%s addresses key regions inconsistently with the constructors: %s (seen %v)", p.name, strings.Join(problems, "; "), seen), w.fpos(f))
	}
	// id encoders: fixed-width big-endian
	for _, tn := range []string{"InstanceID", "VersionID", "ClientID"} {
		f := w.method("dvid", tn, "Bytes")
		if f == nil {
			r.violation("dvid."+tn+".Bytes", "not found", "-")
			continue
		}
		be, width := false, int64(0)
		for _, c := range calls(f) {
			if c.Common().StaticCallee() != nil && strings.HasPrefix(c.Common().StaticCallee().Name(), "PutUint32") {
				be = byteOrderOf(c.Common().Args[0]) == "BigEndian"
			}
			if c2, ok := c.(*ssa.Call); ok && isMake(c2) {
				width, _ = constInt(c2.Call.Args[1])
			}
		}
		for _, b := range f.Blocks {
			for _, in := range b.Instrs {
				if ms, ok := in.(*ssa.MakeSlice); ok {
					width, _ = constInt(ms.Len)
				}
				if al, ok := in.(*ssa.Alloc); ok {
					if p, ok := al.Type().(*types.Pointer); ok {
						if arr, ok := p.Elem().Underlying().(*types.Array); ok {
							width = arr.Len()
						}
					}
				}
			}
		}
		r.check(be && width == 4, "dvid."+tn+".Bytes:big-endian-fixed-width", "4 bytes, big-endian (byte order = numeric order)",
			fmt.Sprintf("%s.Bytes is not a 4-byte big-endian encoding (bigEndian=%v width=%d): keys no longer sort by id", tn, be, width), w.fpos(f))
	}
}

func isByteSlice(t types.Type) bool {
	s, ok := t.Underlying().(*types.Slice)
	if !ok {
		return false
	}
	b, ok := s.Elem().Underlying().(*types.Basic)
	return ok && b.Kind() == types.Uint8
}

func isMake(c *ssa.Call) bool {
	bi, ok := c.Call.Value.(*ssa.Builtin)
	return ok && bi.Name() == "make"
}

// regionKind classifies what a slice of the key is used as.
func regionKind(sl *ssa.Slice, f *ssa.Function) string {
	for _, ref := range *sl.Referrers() {
		switch x := ref.(type) {
		case *ssa.Call:
			callee := x.Call.StaticCallee()
			if callee != nil {
				switch callee.Name() {
				case "InstanceIDFromBytes":
					return "instance"
				case "VersionIDFromBytes":
					return "version"
				case "ClientIDFromBytes":
					return "client"
				}
			}
			if bi, ok := x.Call.Value.(*ssa.Builtin); ok && bi.Name() == "copy" && x.Call.Args[0] == ssa.Value(sl) {
				// destination of a copy: what is copied in?
				src := stripConv(x.Call.Args[1])
				if c, ok := src.(*ssa.Call); ok && c.Call.StaticCallee() != nil && c.Call.StaticCallee().Name() == "Bytes" {
					if n := namedOf(c.Call.Args[0].Type()); n != nil {
						return strings.ToLower(strings.TrimSuffix(n.Obj().Name(), "ID"))
					}
				}
			}
		case *ssa.ChangeType:
			if typeIs(x.Type(), "storage", "TKey") {
				return "tkey"
			}
			for _, r2 := range *x.Referrers() {
				if c, ok := r2.(*ssa.Call); ok && c.Call.StaticCallee() != nil {
					switch c.Call.StaticCallee().Name() {
					case "InstanceIDFromBytes":
						return "instance"
					case "VersionIDFromBytes":
						return "version"
					case "ClientIDFromBytes":
						return "client"
					}
				}
			}
		case *ssa.Return:
			// SplitKey: unversioned / versioned parts
			for i, res := range x.Results {
				if res == ssa.Value(sl) {
					if i == 0 {
						return "unvers"
					}
					return "versd"
				}
			}
		case *ssa.Store:
			// named results
			if al, ok := x.Addr.(*ssa.Alloc); ok {
				if strings.Contains(al.Comment, "unversioned") {
					return "unvers"
				}
				if strings.Contains(al.Comment, "versioned") {
					return "versd"
				}
			}
		}
	}
	return ""
}

// ---------------------------------------------------------------------------------------------

func ruleR6_3(r *Run) {
	w := r.W
	n := 0
	var paths []string
	for p := range w.ByPath {
		if strings.HasPrefix(p, modPath+"/datatype/") {
			paths = append(paths, p)
		}
	}
	sort.Strings(paths)
	for _, p := range paths {
		pkg := w.ByPath[p]
		if pkg.Types == nil {
			continue
		}
		vals := map[int64][]string{}
		cnt := 0
		for _, file := range pkg.Syntax {
			for _, d := range file.Decls {
				gd, ok := d.(*ast.GenDecl)
				if !ok || gd.Tok != token.CONST {
					continue
				}
				isClassGroup := false
				for _, sp := range gd.Specs {
					vs := sp.(*ast.ValueSpec)
					for _, nm := range vs.Names {
						if c, ok := pkg.TypesInfo.Defs[nm].(*types.Const); ok && typeIs(c.Type(), "storage", "TKeyClass") {
							isClassGroup = true
						}
					}
				}
				if !isClassGroup {
					continue
				}
				for _, sp := range gd.Specs {
					vs := sp.(*ast.ValueSpec)
					for _, nm := range vs.Names {
						c, ok := pkg.TypesInfo.Defs[nm].(*types.Const)
						if !ok || c.Val().Kind() != constant.Int || nm.Name == "_" {
							continue
						}
						v, _ := constant.Int64Val(c.Val())
						vals[v] = append(vals[v], nm.Name)
						cnt++
					}
				}
			}
		}
		if cnt == 0 {
			continue
		}
		n++
		var dups []string
		for v, names := range vals {
			if len(names) > 1 {
				dups = append(dups, fmt.Sprintf("%d=%v", v, names))
			}
		}
		sort.Strings(dups)
		r.check(len(dups) == 0, relPkg(p)+":tkey-classes-distinct", fmt.Sprintf("%d TKeyClass constants, pairwise distinct", cnt),
			"two key classes of "+relPkg(p)+" share a class byte, so their keys interleave in one range: "+strings.Join(dups, ", "), "-")
	}
	if n < 5 {
		r.undecided("tkey-class-tables", fmt.Sprintf("only %d packages declare TKeyClass constants", n))
	}
}

func ruleR6_4(r *Run) {
	w := r.W
	checkCounterPersist(r)
	f := w.method("datastore", "repoManager", "newInstanceID")
	if f == nil {
		r.violation("repoManager.newInstanceID", "not found", "-")
		return
	}
	// the id returned is tested against the live id set: a Lookup on repoManager.iids whose found
	// edge does not reach a return
	var lk *ssa.Lookup
	for _, b := range f.Blocks {
		for _, in := range b.Instrs {
			if l, ok := in.(*ssa.Lookup); ok && l.CommaOk && isFieldLoad(l.X, "repoManager", "iids") {
				lk = l
			}
		}
	}
	if !r.check(lk != nil, "repoManager.newInstanceID:tested-against-live-ids", "the candidate id is looked up in the live instance-id set",
		"newInstanceID no longer tests the candidate against the ids in use", w.fpos(f)) {
		return
	}
	s := runSCCP(f, &AEnv{Atom: func(v ssa.Value) (AVal, bool) {
		if ex, ok := v.(*ssa.Extract); ok && ex.Tuple == ssa.Value(lk) && ex.Index == 1 {
			return aBool(true), true
		}
		return unknown, false
	}})
	p := findPath(f, lk, nil, isReturn, s.EdgeFeasible)
	r.check(p == nil, "repoManager.newInstanceID:in-use-id-not-returned", "with the candidate found in use no return is reachable without another candidate",
		"an instance id that is already in use can be returned", w.pos(lk.Pos()), w.renderPath(p)...)
}

func ruleR6_5(r *Run) {
	w := r.W
	for _, c := range []struct{ recv, name string }{{"DataContext", "KeyRange"}, {"", "DataInstanceKeyRange"}} {
		var f *ssa.Function
		if c.recv == "" {
			f = w.fn("storage", c.name)
		} else {
			f = w.method("storage", c.recv, c.name)
		}
		if f == nil {
			r.violation("storage."+c.name, "not found", "-")
			continue
		}
		var mn, mx []string
		for _, b := range f.Blocks {
			if ret, ok := b.Instrs[len(b.Instrs)-1].(*ssa.Return); ok && len(ret.Results) == 2 {
				mn = keyComponents(retOperand(ret, 0), f, 0)
				mx = keyComponents(retOperand(ret, 1), f, 0)
			}
		}
		ok := len(mn) == 2 && len(mx) == 2 && strings.HasPrefix(mn[0], "byte=") && mn[0] == mx[0] && mn[1] == "instance" && mx[1] == "instance+1"
		r.check(ok, "storage."+c.name+":range-shape", fmt.Sprintf("min=%v max=%v", mn, mx),
			fmt.Sprintf("%s does not return [prefix‖id, prefix‖(id+1)) built with InstanceID.Bytes(): min=%v max=%v — the range can leak into neighbouring instances", c.name, mn, mx), w.fpos(f))
	}
}

func ruleR6_6(r *Run) {
	w := r.W
	n := 0
	for _, f := range w.RepoFuncs {
		if !strings.HasPrefix(relPkg(pkgPathOf(f)), "storage/") || len(f.Blocks) == 0 {
			continue
		}
		for _, c := range calls(f) {
			callee := c.Common().StaticCallee()
			if callee == nil || callee.Name() != "Key" || callee.Signature.Recv() == nil || !strings.Contains(callee.String(), "badger") || !strings.Contains(callee.String(), "Item") {
				continue
			}
			n++
			v, _ := c.(ssa.Value)
			bad := ""
			var visit func(v ssa.Value, depth int)
			visit = func(v ssa.Value, depth int) {
				if v.Referrers() == nil || depth > 4 {
					return
				}
				for _, ref := range *v.Referrers() {
					switch x := ref.(type) {
					case *ssa.Call:
						cal := x.Call.StaticCallee()
						if bi, ok := x.Call.Value.(*ssa.Builtin); ok {
							if bi.Name() == "append" && x.Call.Args[0] != v {
								// appended as element(s): bytes are copied for []byte... spread
								continue
							}
							if bi.Name() == "len" || bi.Name() == "copy" {
								continue
							}
						}
						if cal != nil {
							s := cal.String()
							if strings.HasPrefix(s, "bytes.") || strings.HasSuffix(s, "KeyCopy") {
								continue
							}
							if !inRepo(cal) && cal.Signature.Recv() != nil && (cal.Name() == "Delete" || cal.Name() == "Set" || cal.Name() == "SetEntry") {
								bad = w.pos(x.Pos()) + ": passed to " + cal.String()
							}
						}
					case *ssa.ChangeType, *ssa.Convert, *ssa.Slice:
						visit(x.(ssa.Value), depth+1)
					case *ssa.Store:
						if x.Val == v {
							if _, ok := x.Addr.(*ssa.Alloc); !ok {
								bad = w.pos(x.Pos()) + ": stored into a heap location"
							} else {
								// local variable: follow loads
								for _, r2 := range *x.Addr.Referrers() {
									if ld, ok := r2.(*ssa.UnOp); ok {
										visit(ld, depth+1)
									}
								}
							}
						}
					case *ssa.Send:
						bad = w.pos(x.Pos()) + ": sent on a channel"
					case *ssa.MakeInterface:
						bad = w.pos(x.Pos()) + ": boxed into an interface"
					}
				}
			}
			visit(v, 0)
			r.check(bad == "", fmt.Sprintf("%s:Item.Key-not-retained", fname(f)),
				"the iterator-owned key is only compared / measured / copied",
				"the iterator-owned buffer returned by Item.Key() is retained beyond the iterator step ("+bad+"): the batch later deletes/writes whatever key the buffer holds then — other instances' keys", w.pos(c.Pos()))
		}
	}
	if n == 0 {
		r.okTrivial("Item.Key-uses", "no use of the borrowing accessor Item.Key() in the storage back ends (all scans copy keys)", "-")
	}
	r.note("R6.6: %d uses of badger Item.Key() examined", n)
}

var _ = token.ADD
