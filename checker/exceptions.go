package main

// exceptionTable: single named constructs (rule|construct) with the reason why a report there is
// infeasible or outside the property's quantifier.  Never used for genuine defects (those are
// fixed or listed in /verif/known_findings.json).
var exceptionTable = map[string]string{}
