package main

// exceptionTable: single named constructs (rule|construct) with the reason why a report there is
// infeasible or outside the property's quantifier.  Never used for genuine defects (those are
// fixed or listed in /verif/known_findings.json).
var exceptionTable = map[string]string{
	// R3.3 — RPC-only repo surgery
	"R3.3|datastore.FlattenMetadata:repoT.alias": "RPC-only admin command (push / flatten / limit-versions) working on a duplicated or received repo object that is registered afterwards or written to a separate store; RPC histories are outside the HTTP API histories C03 quantifies over",
	"R3.3|datastore.FlattenMetadata:repoT.description": "RPC-only admin command (push / flatten / limit-versions) working on a duplicated or received repo object that is registered afterwards or written to a separate store; RPC histories are outside the HTTP API histories C03 quantifies over",
	"R3.3|datastore.FlattenMetadata:repoT.log": "RPC-only admin command (push / flatten / limit-versions) working on a duplicated or received repo object that is registered afterwards or written to a separate store; RPC histories are outside the HTTP API histories C03 quantifies over",
	"R3.3|datastore.FlattenMetadata:nodeT.note": "RPC-only admin command (push / flatten / limit-versions) working on a duplicated or received repo object that is registered afterwards or written to a separate store; RPC histories are outside the HTTP API histories C03 quantifies over",
	"R3.3|datastore.FlattenMetadata:nodeT.log": "RPC-only admin command (push / flatten / limit-versions) working on a duplicated or received repo object that is registered afterwards or written to a separate store; RPC histories are outside the HTTP API histories C03 quantifies over",
	"R3.3|datastore.FlattenMetadata:nodeT.branch": "RPC-only admin command (push / flatten / limit-versions) working on a duplicated or received repo object that is registered afterwards or written to a separate store; RPC histories are outside the HTTP API histories C03 quantifies over",
	"R3.3|datastore.LimitVersions:dagT.nodes": "RPC-only admin command (push / flatten / limit-versions) working on a duplicated or received repo object that is registered afterwards or written to a separate store; RPC histories are outside the HTTP API histories C03 quantifies over",
	"R3.3|datastore.LimitVersions:nodeT.parents": "RPC-only admin command (push / flatten / limit-versions) working on a duplicated or received repo object that is registered afterwards or written to a separate store; RPC histories are outside the HTTP API histories C03 quantifies over",
	"R3.3|datastore.LimitVersions:nodeT.children": "RPC-only admin command (push / flatten / limit-versions) working on a duplicated or received repo object that is registered afterwards or written to a separate store; RPC histories are outside the HTTP API histories C03 quantifies over",
	"R3.3|(*datastore.repoT).remapLocalIDs:nodeT.version": "RPC-only admin command (push / flatten / limit-versions) working on a duplicated or received repo object that is registered afterwards or written to a separate store; RPC histories are outside the HTTP API histories C03 quantifies over",
	"R3.3|(*datastore.repoT).remapLocalIDs:dagT.nodes": "RPC-only admin command (push / flatten / limit-versions) working on a duplicated or received repo object that is registered afterwards or written to a separate store; RPC histories are outside the HTTP API histories C03 quantifies over",
	"R3.3|(*datastore.pusher).readRepo:repoT.id": "RPC-only admin command (push / flatten / limit-versions) working on a duplicated or received repo object that is registered afterwards or written to a separate store; RPC histories are outside the HTTP API histories C03 quantifies over",
	"R3.3|(*datastore.pusher).readRepo:Data.rootUUID": "RPC-only admin command (push / flatten / limit-versions) working on a duplicated or received repo object that is registered afterwards or written to a separate store; RPC histories are outside the HTTP API histories C03 quantifies over",
	"R3.3|(*datastore.repoT).remapLocalIDs:Data.id": "RPC-only admin command (push / flatten / limit-versions) working on a duplicated or received repo object that is registered afterwards or written to a separate store; RPC histories are outside the HTTP API histories C03 quantifies over",
	// R20.3 — process-terminating calls on impossible paths
	"R20.3|site:(*datatype/imageblk.Data).putChunk": "log.Fatalf on an impossible dynamic type of chunk.Op: the op is always created by the same package immediately before the chunk handler is registered (same-package invariant, not input dependent)",
	"R20.3|site:(*datatype/imageblk.Data).readChunk": "log.Fatalf on an impossible dynamic type of chunk.Op: the op is always created by the same package immediately before the chunk handler is registered (same-package invariant, not input dependent)",
	"R20.3|site:(*datatype/labelmap.Data).readChunk": "log.Fatalf on an impossible dynamic type of chunk.Op: the op is always created by the same package immediately before the chunk handler is registered (same-package invariant, not input dependent)",
	"R20.3|site:(*datatype/labelblk.Data).readChunk": "log.Fatalf on an impossible dynamic type of chunk.Op: the op is always created by the same package immediately before the chunk handler is registered (same-package invariant, not input dependent)",
	"R20.3|site:(*datatype/labelarray.Data).readChunk": "log.Fatalf on an impossible dynamic type of chunk.Op: the op is always created by the same package immediately before the chunk handler is registered (same-package invariant, not input dependent)",
	// R12.2 — stores into the label counters that are not allocations:
	"R12.2|(*datatype/labelmap.Data).CopyPropertiesFrom:MaxRepoLabel": "copy constructor: fills a destination instance that is not yet published; the copy operation saves the instance afterwards (out of the quantifier: no allocation is served from it meanwhile)",
	"R12.2|(*datatype/labelmap.Data).CopyPropertiesFrom:NextLabel":    "copy constructor, see MaxRepoLabel",
	"R12.2|(*datatype/labelmap.Data).CopyPropertiesFrom:MaxLabel":     "copy constructor, see MaxRepoLabel",
	"R12.2|(*datatype/labelmap.Data).loadLabelIDs:MaxRepoLabel":       "start-up loader: rebuilds the counters from the persisted keys before the instance serves requests; nothing new to persist, no concurrent allocator yet",
	"R12.2|(*datatype/labelmap.Data).loadLabelIDs:NextLabel":          "start-up loader, see MaxRepoLabel",
	"R12.2|(*datatype/labelmap.Data).loadLabelIDs:MaxLabel":           "start-up loader, see MaxRepoLabel",
}
