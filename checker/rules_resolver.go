package main

// Late rules for the versioned resolvers (C01, C05), written after mutation round c.
//
//   R1.7 / R5.7  every stored version of a datum takes part in the resolution: the two resolver entry
//                points enter every candidate they are given into the candidate map, one distinct entry per
//                candidate; the back end's collector of a datum's versions stops only at the datum's own key
//                bounds; Exists answers from the resolver's result alone.
//   R5.8         the two ends of a range request are built by the same key constructor.

import (
	"fmt"
	"go/token"
	"go/types"
	"strings"

	"golang.org/x/tools/go/ssa"
)

func init() {
	register(ruleDef{ID: "R1.7", Prop: "C01", Tier: "quick", Floor: 6,
		Title: "every stored version of a datum takes part in the resolution: the resolvers enter each candidate they are given, as a distinct entry; the collector of a datum's versions ends only at the datum's key bounds; Exists answers from the resolver's result alone",
		Fn:    ruleCandidates})
	register(ruleDef{ID: "R5.7", Prop: "C05", Tier: "quick", Floor: 6,
		Title: "point and range reads resolve the same candidates (shared with R1.7): GetBestKeyVersion and VersionedKeyValue enter every candidate unfiltered into the candidate map; the point-read collector does not stop before the datum's last stored version",
		Fn:    ruleCandidates})
	register(ruleDef{ID: "R5.8", Prop: "C05", Tier: "quick", Floor: 3,
		Title: "both ends of a range request are built by the same key constructor (a bound built without the constructor's terminator/padding turns a closed interval into a prefix match)",
		Fn:    ruleRangeEndsSameConstructor})
}

// loopOf: the strongly connected component of the CFG that contains b (nil when b is not in a cycle).
func loopOf(b *ssa.BasicBlock) map[*ssa.BasicBlock]bool {
	fwd := map[*ssa.BasicBlock]bool{}
	var walk func(x *ssa.BasicBlock)
	walk = func(x *ssa.BasicBlock) {
		for _, s := range x.Succs {
			if !fwd[s] {
				fwd[s] = true
				walk(s)
			}
		}
	}
	walk(b)
	if !fwd[b] {
		return nil
	}
	bwd := map[*ssa.BasicBlock]bool{}
	var back func(x *ssa.BasicBlock)
	back = func(x *ssa.BasicBlock) {
		for _, p := range x.Preds {
			if !bwd[p] {
				bwd[p] = true
				back(p)
			}
		}
	}
	back(b)
	scc := map[*ssa.BasicBlock]bool{}
	for x := range fwd {
		if bwd[x] {
			scc[x] = true
		}
	}
	return scc
}

// loopHeader: the block of the loop that is entered from outside.
func loopHeader(scc map[*ssa.BasicBlock]bool) *ssa.BasicBlock {
	var h *ssa.BasicBlock
	for b := range scc {
		for _, p := range b.Preds {
			if !scc[p] {
				if h != nil && h != b {
					return nil
				}
				h = b
			}
		}
	}
	return h
}

// iterationCanSkip: is there a way round the loop, header to header, that does not execute block t?
func iterationCanSkip(scc map[*ssa.BasicBlock]bool, h, t *ssa.BasicBlock) bool {
	if h == t {
		return false
	}
	seen := map[*ssa.BasicBlock]bool{}
	var q []*ssa.BasicBlock
	for _, s := range h.Succs {
		if scc[s] && s != t {
			q = append(q, s)
		}
	}
	for len(q) > 0 {
		x := q[0]
		q = q[1:]
		if x == h {
			return true
		}
		if seen[x] {
			continue
		}
		seen[x] = true
		for _, s := range x.Succs {
			if scc[s] && s != t {
				q = append(q, s)
			}
		}
	}
	return false
}

// blockPos: a source position for a block (its terminator often has none).
func blockPos(b *ssa.BasicBlock) token.Pos {
	for i := len(b.Instrs) - 1; i >= 0; i-- {
		if p := b.Instrs[i].Pos(); p.IsValid() {
			return p
		}
		if ifi, ok := b.Instrs[i].(*ssa.If); ok && ifi.Cond.Pos().IsValid() {
			return ifi.Cond.Pos()
		}
	}
	return token.NoPos
}

// successReachable: can a non-error return be reached from b without entering the loop again?
func successReachable(b *ssa.BasicBlock, scc map[*ssa.BasicBlock]bool) *ssa.Return {
	seen := map[*ssa.BasicBlock]bool{}
	var found *ssa.Return
	var walk func(x *ssa.BasicBlock)
	walk = func(x *ssa.BasicBlock) {
		if seen[x] || scc[x] || found != nil {
			return
		}
		seen[x] = true
		if ret, ok := x.Instrs[len(x.Instrs)-1].(*ssa.Return); ok {
			if !isErrorExit(ret) {
				found = ret
			}
			return
		}
		for _, s := range x.Succs {
			walk(s)
		}
	}
	walk(b)
	return found
}

// earlyLeaves: edges that leave the loop from a block other than its header and lead to a success
// exit, except those whose deciding condition is computed from one of the `allowed` calls.
func earlyLeaves(scc map[*ssa.BasicBlock]bool, h *ssa.BasicBlock, allowed func(c ssa.CallInstruction) bool) []*ssa.BasicBlock {
	var out []*ssa.BasicBlock
	for b := range scc {
		if b == h {
			continue
		}
		for _, s := range b.Succs {
			if scc[s] || successReachable(s, scc) == nil {
				continue
			}
			ok := false
			if ifi, isIf := b.Instrs[len(b.Instrs)-1].(*ssa.If); isIf && allowed != nil {
				for d := range dataDeps(ifi.Cond) {
					if c, isC := d.(ssa.CallInstruction); isC && allowed(c) {
						ok = true
					}
				}
			}
			if !ok {
				out = append(out, b)
			}
		}
	}
	return out
}

func ruleCandidates(r *Run) {
	w := r.W
	// ---- (a),(b) the two resolver entry points
	for _, mname := range []string{"GetBestKeyVersion", "VersionedKeyValue"} {
		f := w.method("datastore", "VersionedCtx", mname)
		if f == nil || len(f.Blocks) == 0 {
			r.violation("VersionedCtx."+mname, "resolver entry point datastore.VersionedCtx."+mname+" not found", "-")
			continue
		}
		var mus []*ssa.MapUpdate
		for _, b := range f.Blocks {
			for _, in := range b.Instrs {
				if mu, ok := in.(*ssa.MapUpdate); ok && typeIs(mu.Map.Type(), "datastore", "kvVersions") {
					mus = append(mus, mu)
				}
			}
		}
		// the insertion, or the call of a helper of the package that makes it on every success path
		// (vctx.addVersion(versionMap, kv)): the helper's arguments stand for the inserted value
		var mu ssa.Instruction
		var muVals []ssa.Value
		if len(mus) == 1 {
			mu, muVals = mus[0], []ssa.Value{mus[0].Value}
		}
		if len(mus) == 0 {
			nh := 0
			for _, c := range calls(f) {
				g := staticCallee(c)
				cc, isCall := c.(*ssa.Call)
				if g == nil || !isCall || g == f || g.Pkg != f.Pkg || len(g.Blocks) == 0 {
					continue
				}
				isIns := func(x ssa.Instruction) bool {
					m, ok := x.(*ssa.MapUpdate)
					if !ok || !typeIs(m.Map.Type(), "datastore", "kvVersions") {
						return false
					}
					_, isParam := m.Map.(*ssa.Parameter)
					return isParam
				}
				has := false
				for _, gb := range g.Blocks {
					for _, gi := range gb.Instrs {
						if isIns(gi) {
							has = true
						}
					}
				}
				if has && findPath(g, nil, isIns, successExit, nil) == nil {
					mu, muVals = cc, cc.Call.Args
					nh++
				}
			}
			if nh != 1 {
				mu = nil
			}
		}
		if mu == nil {
			r.undecided("VersionedCtx."+mname+":candidate-map", fmt.Sprintf("expected one insertion into the candidate map, found %d", len(mus)))
			continue
		}
		scc := loopOf(mu.Block())
		var h *ssa.BasicBlock
		if scc != nil {
			h = loopHeader(scc)
		}
		if h == nil {
			r.undecided("VersionedCtx."+mname+":candidate-loop", "the insertion into the candidate map is not inside a single-entry loop over the candidates")
			continue
		}
		skip := iterationCanSkip(scc, h, mu.Block())
		r.check(!skip, "VersionedCtx."+mname+":every-candidate-entered",
			"no iteration over the candidates can go round without entering its candidate into the map (only an error leaves the loop)",
			mname+" can pass over a stored version without entering it into the candidate map: the ancestry walk then resolves against an incomplete set of entries, and the point and range resolvers no longer agree", w.pos(mu.Pos()))
		early := earlyLeaves(scc, h, nil)
		pos := ""
		if len(early) > 0 {
			pos = w.pos(blockPos(early[0]))
		}
		r.check(len(early) == 0, "VersionedCtx."+mname+":all-candidates-scanned",
			"the loop over the candidates is left early only by an error",
			mname+" can leave the loop over the stored versions early and still succeed: later candidates never reach the ancestry walk", pos)
		// distinct entry per candidate
		bad := ""
		for _, mv := range muVals {
			deps := map[ssa.Value]bool{mv: true}
			for d := range dataDeps(mv) {
				deps[d] = true
			}
			for d := range deps {
				if al, ok := d.(*ssa.Alloc); ok && al.Heap && !scc[al.Block()] {
					bad = w.pos(al.Pos())
				}
			}
		}
		r.check(bad == "", "VersionedCtx."+mname+":one-entry-per-candidate",
			"whatever the entries point to is allocated per iteration (or is the caller's element)",
			mname+" stores in every candidate entry the address of one variable declared outside the loop: all entries alias the last candidate, so the walk finds the right version but returns the last stored key", bad)
	}

	// ---- (c) collectors of a datum's versions in the back ends
	nColl := 0
	for _, f := range w.RepoFuncs {
		if f.Name() != "getKeyVersions" || f.Parent() != nil || len(f.Blocks) == 0 || !strings.HasPrefix(relPkg(pkgPathOf(f)), "storage/") {
			continue
		}
		nColl++
		name := fname(f)
		found := false
		for _, g := range withClosures(f) {
			for _, c := range calls(g) {
				bi, ok := c.Common().Value.(*ssa.Builtin)
				if !ok || bi.Name() != "append" {
					continue
				}
				sl, ok := c.Common().Args[0].Type().Underlying().(*types.Slice)
				if !ok || !typeIs(sl.Elem(), "storage", "Key") {
					continue
				}
				scc := loopOf(c.Block())
				if scc == nil {
					continue
				}
				h := loopHeader(scc)
				if h == nil {
					continue
				}
				found = true
				r.check(!iterationCanSkip(scc, h, c.Block()), name+":every-version-collected",
					"every key the iteration visits is appended to the candidates",
					"the collector of a datum's stored versions can pass over a key without collecting it", w.pos(c.Pos()))
				bounds := func(ci ssa.CallInstruction) bool {
					o := calleeObj(ci)
					if o == nil {
						return false
					}
					switch o.Name() {
					case "MaxVersionKey", "UnversionedKeyPrefix", "UnversionedKey":
						return true
					}
					return false
				}
				early := earlyLeaves(scc, h, bounds)
				pos := ""
				if len(early) > 0 {
					pos = w.pos(blockPos(early[0]))
				}
				r.check(len(early) == 0, name+":scan-ends-at-datum-bounds",
					"the iteration over a datum's versions ends only where the loop condition (the datum's key prefix / maximum version key) ends it",
					"the collector stops before the datum's last stored version (an early exit decided by something other than the datum's key bounds): entries that sort later, e.g. the tombstone of the same version, which sorts after its data key, never reach the resolver", pos)
				// the loop condition itself is the prefix / max-key bound of the same datum
				okCond := false
				if ifi, isIf := h.Instrs[len(h.Instrs)-1].(*ssa.If); isIf {
					for d := range dataDeps(ifi.Cond) {
						if ci, isC := d.(ssa.CallInstruction); isC && bounds(ci) {
							okCond = true
						}
						// the bound may be computed in the enclosing function and captured
						if u, isU := d.(*ssa.UnOp); isU {
							if _, isFV := u.X.(*ssa.FreeVar); !isFV {
								continue
							}
							for _, rt := range roots(u, g) {
								if ci, isC := rt.V.(ssa.CallInstruction); isC && bounds(ci) {
									okCond = true
								}
							}
						}
					}
				}
				r.check(okCond, name+":loop-bounded-by-datum-keys", "the loop condition compares with the datum's own prefix / maximum version key",
					"the collector's loop is not bounded by the datum's own key prefix or maximum version key", w.pos(h.Instrs[len(h.Instrs)-1].Pos()))
			}
		}
		if !found {
			r.undecided(name+":collector-loop", "no loop appending to a []storage.Key found")
		}
	}
	r.check(nColl >= 1, "storage:getKeyVersions-present", fmt.Sprintf("%d collectors", nColl), "no getKeyVersions collector found in the compiled back ends", "-")

	// ---- (d) Exists answers from the resolver's result alone
	for _, b := range orderedBackends(w) {
		f := w.methodOf(b, "Exists")
		if f == nil || len(f.Blocks) == 0 {
			continue
		}
		var res *ssa.Call
		for _, c := range calls(f) {
			if isInvokeCall(c, "GetBestKeyVersion") {
				if cc, ok := c.(*ssa.Call); ok {
					res = cc
				}
			}
		}
		if res == nil {
			continue // R1.1 reports a missing resolver call
		}
		n, bad := 0, ""
		for _, blk := range f.Blocks {
			ifi, ok := blk.Instrs[len(blk.Instrs)-1].(*ssa.If)
			if !ok || !res.Block().Dominates(blk) {
				continue
			}
			n++
			for d := range dataDepsUntil(ifi.Cond, func(x ssa.Value) bool { return x == ssa.Value(res) }) {
				c, isC := d.(ssa.CallInstruction)
				if !isC || c == ssa.CallInstruction(res) {
					continue
				}
				if bi, isB := c.Common().Value.(*ssa.Builtin); isB && bi.Name() == "len" {
					continue
				}
				// a call made on the resolver's answer alone (key.IsTombstone()) still looks only at that answer
				pure := true
				ops := append([]ssa.Value{}, c.Common().Args...)
				if c.Common().IsInvoke() {
					ops = append(ops, c.Common().Value)
				}
				for _, a := range ops {
					if _, isK := a.(*ssa.Const); isK {
						continue
					}
					if !dataDepsUntil(a, func(x ssa.Value) bool { return x == ssa.Value(res) })[ssa.Value(res)] {
						pure = false
					}
				}
				if pure {
					continue
				}
				bad = w.pos(ifi.Cond.Pos())
			}
		}
		r.check(n > 0 && bad == "", qname(b)+".Exists:verdict-from-resolver-only",
			fmt.Sprintf("the %d tests made after GetBestKeyVersion look only at its results", n),
			"Exists decides on something other than the resolver's answer (e.g. the version of the resolved key): a key inherited from an ancestor is readable with Get but reported absent", bad)
	}
}

// ---------------------------------------------------------------------------------------------

func ruleRangeEndsSameConstructor(r *Run) {
	w := r.W
	rangeNames := map[string]bool{"GetRange": true, "KeysInRange": true, "SendKeysInRange": true, "ProcessRange": true, "DeleteRange": true, "RawRangeQuery": true}
	ctor := func(v ssa.Value, f *ssa.Function) (string, bool) {
		names := map[string]bool{}
		for _, rt := range roots(v, f) {
			x := rt.V
			if ex, ok := x.(*ssa.Extract); ok {
				x = ex.Tuple
			}
			c, ok := x.(*ssa.Call)
			if !ok {
				return "", false
			}
			cal := c.Call.StaticCallee()
			if cal == nil {
				return "", false
			}
			names[cal.String()] = true
		}
		if len(names) != 1 {
			return "", false
		}
		for k := range names {
			return k, true
		}
		return "", false
	}
	n := 0
	for _, f := range w.RepoFuncs {
		if len(f.Blocks) == 0 || strings.HasSuffix(w.fposFile(f), "_test.go") || !strings.HasPrefix(relPkg(pkgPathOf(f)), "datatype/") {
			continue
		}
		k := 0
		for _, c := range calls(f) {
			if !rangeNames[methodNameOf(c)] {
				continue
			}
			var tk []ssa.Value
			for _, a := range c.Common().Args {
				if typeIs(a.Type(), "storage", "TKey") {
					tk = append(tk, a)
				}
			}
			if len(tk) != 2 {
				continue
			}
			a, okA := ctor(tk[0], f)
			b, okB := ctor(tk[1], f)
			if !okA || !okB {
				continue
			}
			// Min/Max pairs are R5.6's business
			if strings.HasSuffix(a, "MinTKey") || strings.HasSuffix(b, "MaxTKey") {
				continue
			}
			n++
			k++
			r.check(a == b, fmt.Sprintf("%s:range#%d:ends-same-constructor", fname(f), k),
				"begin and end key of the range come from "+a,
				fmt.Sprintf("the range begins at a key built by %s and ends at one built by %s: the two ends are encoded differently (terminator, padding), so the closed interval the request names is not the interval that is scanned", a, b), w.pos(c.Pos()))
		}
	}
	r.check(n >= 3, "repo:constructed-range-ends", fmt.Sprintf("%d ranges with both ends built by a key constructor examined", n), "too few such ranges: rule needs review", "-")
}

// ---------------------------------------------------------------------------------------------
// R6.10 — the instance-id counter survives restarts monotonically (shares its check with R12.5)

func init() {
	register(ruleDef{ID: "R6.10", Prop: "C06", Tier: "quick", Floor: 1,
		Title: "instance ids are not reissued after a restart: the load-time correction of the instance-id counter (configured start) only ever raises the persisted counter",
		Fn: func(r *Run) {
			lm := r.W.method("datastore", "repoManager", "loadMetadata")
			if lm == nil {
				r.violation("repoManager.loadMetadata", "not found", "-")
				return
			}
			// the corrections may sit in a helper of the loader (m.correctNewIDs())
			for _, g := range withHelpers(lm) {
				if len(fieldStores(g, "repoManager", "instanceID")) > 0 {
					lm = g
					break
				}
			}
			checkCorrectionsOnlyRaise(r, lm, []string{"instanceID"}, 1)
		}})
	register(ruleDef{ID: "R6.9", Prop: "C06", Tier: "quick", Floor: 4,
		Title: "a bounded scan does nothing with a key before testing it against the scan's upper bound: deletes, sends and collected results of the current iterator position lie behind the bound test (the first key past an instance's range belongs to the next instance)",
		Fn:    ruleBoundBeforeEffect})
	register(ruleDef{ID: "R5.9", Prop: "C05", Tier: "quick", Floor: 4,
		Title: "range scans and range deletes act only on keys inside the interval (shared with R6.9): the current key is tested against the upper bound before it is deleted, sent or collected",
		Fn:    ruleBoundBeforeEffect})
}

func ruleBoundBeforeEffect(r *Run) {
	w := r.W
	isItemCall := func(v ssa.Value) bool {
		c, ok := v.(*ssa.Call)
		if !ok {
			return false
		}
		o := calleeObj(c)
		return o != nil && o.Name() == "Item" && o.Pkg() != nil && strings.Contains(o.Pkg().Path(), "badger")
	}
	nLoops, nEff := 0, 0
	for _, top := range w.RepoFuncs {
		if top.Parent() != nil || len(top.Blocks) == 0 || !strings.HasPrefix(relPkg(pkgPathOf(top)), "storage/") || strings.HasSuffix(w.fposFile(top), "_test.go") {
			continue
		}
		for _, g := range withClosures(top) {
			for _, b := range g.Blocks {
				ifi, ok := b.Instrs[len(b.Instrs)-1].(*ssa.If)
				if !ok {
					continue
				}
				scc := loopOf(b)
				if scc == nil {
					continue
				}
				stay := -1
				if !scc[b.Succs[0]] && scc[b.Succs[1]] {
					stay = 1
				} else if scc[b.Succs[0]] && !scc[b.Succs[1]] {
					stay = 0
				}
				if stay < 0 {
					continue
				}
				// iteration-local dependences: do not follow loop-carried values or cells that live outside the loop
				local := func(x ssa.Value) bool {
					if phi, ok := x.(*ssa.Phi); ok {
						return !scc[phi.Block()] || len(phi.Block().Preds) > 0 && phi.Block() == loopHeader(scc)
					}
					if u, ok := x.(*ssa.UnOp); ok && u.Op == token.MUL {
						if _, isFV := u.X.(*ssa.FreeVar); isFV {
							return true
						}
						if al, isAl := u.X.(*ssa.Alloc); isAl && !scc[al.Block()] {
							return true
						}
					}
					return false
				}
				fromItem := func(v ssa.Value) bool {
					for d := range dataDepsUntil(v, local) {
						if isItemCall(d) {
							return true
						}
					}
					return false
				}
				// the test: bytes.Compare(current key, bound)
				var cmp *ssa.Call
				for d := range dataDepsUntil(ifi.Cond, local) {
					if c, ok := d.(*ssa.Call); ok {
						if cal := c.Call.StaticCallee(); cal != nil && cal.Pkg != nil && cal.Pkg.Pkg.Path() == "bytes" && cal.Name() == "Compare" && fromItem(c.Call.Args[0]) {
							cmp = c
						}
					}
				}
				if cmp == nil {
					continue
				}
				nLoops++
				k := 0
				for _, blk := range g.Blocks {
					if !scc[blk] {
						continue
					}
					for _, in := range blk.Instrs {
						var operands []ssa.Value
						what := ""
						switch x := in.(type) {
						case *ssa.Send:
							if _, basic := x.Chan.Type().Underlying().(*types.Chan).Elem().Underlying().(*types.Basic); basic {
								continue
							}
							operands, what = []ssa.Value{x.X}, "sent"
						case *ssa.Select:
							for _, st := range x.States {
								if st.Send != nil {
									operands = append(operands, st.Send)
								}
							}
							what = "sent"
						case ssa.CallInstruction:
							if bi, ok := x.Common().Value.(*ssa.Builtin); ok {
								if bi.Name() == "append" {
									operands, what = x.Common().Args[1:], "collected"
								}
							} else if o := calleeObj(x); o != nil && o.Pkg() != nil && strings.Contains(o.Pkg().Path(), "badger") && !strings.HasPrefix(o.Pkg().Path(), modPath) {
								switch o.Name() {
								case "Delete", "Set", "SetEntry":
									operands, what = x.Common().Args, "written/deleted"
								}
							}
						}
						if what == "" {
							continue
						}
						hit := false
						for _, op := range operands {
							if fromItem(op) {
								hit = true
							}
						}
						if !hit {
							continue
						}
						nEff++
						k++
						r.check(guardedByEdge(ifi, stay, in), fmt.Sprintf("%s:%s-after-bound-test#%d", fname(g), strings.Split(what, "/")[0], k),
							"the current key is "+what+" only after it passed the upper-bound test",
							"the key at the iterator's current position is "+what+" before (or regardless of) the comparison with the scan's upper bound: the first key beyond the range, which belongs to the next datum or the next instance, is affected too", w.pos(in.Pos()))
					}
				}
			}
		}
	}
	r.check(nLoops >= 3 && nEff >= 3, "storage:bounded-scans", fmt.Sprintf("%d bounded scan loops, %d effects on the current key", nLoops, nEff), "too few bounded scan loops found: rule needs review", "-")
}

// ---------------------------------------------------------------------------------------------
// R6.11 — cache keys are scoped by the plain instance id

func init() {
	register(ruleDef{ID: "R6.11", Prop: "C06", Tier: "quick", Floor: 2,
		Title: "cache keys that carry an instance header carry the instance id itself: the fixed-width header written in front of a type-specific key is computed from InstanceID() alone (mixing anything else in lets two instances share a header)",
		Fn:    ruleInstanceHeaderPlain})
}

func ruleInstanceHeaderPlain(r *Run) {
	w := r.W
	n := 0
	for _, f := range w.RepoFuncs {
		if len(f.Blocks) == 0 || relPkg(pkgPathOf(f)) != "storage" || strings.HasSuffix(w.fposFile(f), "_test.go") {
			continue
		}
		k := 0
		for _, c := range calls(f) {
			o := calleeObj(c)
			if o == nil || o.Pkg() == nil || o.Pkg().Path() != "encoding/binary" || !strings.HasPrefix(o.Name(), "PutUint") {
				continue
			}
			args := c.Common().Args
			val := args[len(args)-1]
			isID := func(x ssa.Value) bool {
				ci, ok := x.(*ssa.Call)
				return ok && methodNameOf(ci) == "InstanceID"
			}
			deps := dataDepsUntil(val, isID)
			has, bad := false, ""
			for d := range deps {
				if isID(d) {
					has = true
				}
			}
			if !has {
				continue
			}
			for d := range deps {
				switch x := d.(type) {
				case *ssa.BinOp:
					bad = w.pos(x.Pos())
				case *ssa.Call:
					if !isID(x) {
						bad = w.pos(x.Pos())
					}
				}
			}
			n++
			k++
			r.check(bad == "", fmt.Sprintf("%s:instance-header#%d", fname(f), k), "the header is the instance id, converted only",
				"the instance header of a cache/storage key is computed from the instance id and something else: two different instances can get the same header and read each other's cached values", bad)
		}
	}
	r.check(n >= 2, "storage:instance-headers", fmt.Sprintf("%d instance headers examined", n), "instance headers not found: rule needs review", "-")
}
