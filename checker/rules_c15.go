package main

import (
	"fmt"
	"go/constant"
	"go/token"
	"go/types"
	"sort"
	"strings"

	"golang.org/x/tools/go/ssa"
)

func init() {
	register(ruleDef{ID: "R15.1", Prop: "C15", Tier: "quick", Floor: 2,
		Title: "checksum must-pass-through: with a CRC32-protected value every success exit of the deserialiser is guarded by the stored-vs-recomputed CRC comparison",
		Fn:    ruleR15_1})
	register(ruleDef{ID: "R15.2", Prop: "C15", Tier: "quick", Floor: 5,
		Title: "envelope layout agreement: format byte bit fields, CRC width/endianness/offset and the LZ4 length prefix agree between serialiser and deserialiser",
		Fn:    ruleR15_2})
	register(ruleDef{ID: "R15.3", Prop: "C15", Tier: "quick", Floor: 2,
		Title: "format exhaustiveness: every compression / checksum constant the serialiser writes has a case in the deserialiser and vice versa",
		Fn:    ruleR15_3})
	register(ruleDef{ID: "R15.4", Prop: "C15", Tier: "quick", Floor: 4,
		Title: "guarded decode: no slice, index or type assertion on input-derived data without a dominating guard; every decoder error reaches an error exit; the LZ4 raw-copy fallback is taken only for a zero length prefix",
		Fn:    ruleR15_4})
}

func dvidConst(w *World, name string) (int64, bool) {
	p := w.tpkg("dvid")
	if p == nil {
		return 0, false
	}
	c, ok := p.Scope().Lookup(name).(*types.Const)
	if !ok || c.Val().Kind() != constant.Int {
		return 0, false
	}
	v, ok := constant.Int64Val(c.Val())
	return v, ok
}

func ruleR15_1(r *Run) {
	w := r.W
	f := w.fn("dvid", "DeserializeData")
	if f == nil {
		r.violation("dvid.DeserializeData", "not found", "-")
		return
	}
	crc, ok := dvidConst(w, "CRC32")
	if !ok {
		r.undecided("dvid.CRC32", "constant not found")
		return
	}
	// the decoded checksum kind
	var kind ssa.Value
	for _, b := range f.Blocks {
		for _, in := range b.Instrs {
			if ex, ok := in.(*ssa.Extract); ok && ex.Index == 1 {
				if c, ok := ex.Tuple.(*ssa.Call); ok && isCallTo(c, "dvid", "", "DecodeSerializationFormat") {
					kind = ex
				}
			}
		}
	}
	if kind == nil {
		r.violation("DeserializeData:checksum-kind", "the deserialiser does not decode the checksum kind from the format byte (DecodeSerializationFormat)", w.fpos(f))
		return
	}
	s := runSCCP(f, &AEnv{Atom: func(v ssa.Value) (AVal, bool) {
		if v == kind {
			return AVal{K: AInt, I: crc}, true
		}
		return unknown, false
	}})
	// the comparison: an If on (ChecksumIEEE(...) != / == stored)
	var cmp *ssa.If
	eqEdge := 0
	for _, b := range f.Blocks {
		ifi, ok := b.Instrs[len(b.Instrs)-1].(*ssa.If)
		if !ok {
			continue
		}
		bo, ok := ifi.Cond.(*ssa.BinOp)
		if !ok || (bo.Op != token.NEQ && bo.Op != token.EQL) {
			continue
		}
		for _, op := range []ssa.Value{bo.X, bo.Y} {
			if c, ok := op.(*ssa.Call); ok && c.Call.StaticCallee() != nil && (strings.HasPrefix(c.Call.StaticCallee().String(), "hash/crc32.Checksum") || wholeSliceCRCHelper(c.Call.StaticCallee())) {
				cmp = ifi
				if bo.Op == token.NEQ {
					eqEdge = 1
				}
			}
		}
	}
	if cmp == nil {
		// the comparison may sit in a verifying helper (verifyChecksum(cdata, checksum, stored) error): the helper is
		// judged the way the deserialiser is, and the deserialiser has to act on its verdict
		if r15_1Helper(r, f, kind, s, crc) {
			return
		}
	}
	if !r.check(cmp != nil, "DeserializeData:crc-compared", "the recomputed CRC32 is compared with the stored one", "the deserialiser never compares a recomputed CRC32 with the stored checksum", w.fpos(f)) {
		return
	}
	// mismatch edge → error exit
	mis := cmp.Block().Succs[1-eqEdge]
	okErr := false
	for _, in := range mis.Instrs {
		if ret, ok := in.(*ssa.Return); ok && isErrorExit(ret) {
			okErr = true
		}
	}
	r.check(okErr, "DeserializeData:crc-mismatch-is-error", "a checksum mismatch returns an error", "a checksum mismatch does not lead to an error return", w.pos(cmp.Pos()))
	// every feasible success exit (checksum kind = CRC32, non-empty input) lies behind the comparison,
	// and the mismatch edge reaches no success exit
	succ := func(in ssa.Instruction) bool {
		ret, ok := in.(*ssa.Return)
		return ok && !isErrorExit(ret) && kind.(*ssa.Extract).Block().Dominates(ret.Block())
	}
	isCmp := func(in ssa.Instruction) bool { return in == ssa.Instruction(cmp) }
	p1 := findPath(f, nil, isCmp, succ, s.EdgeFeasible)
	var p2 []ssa.Instruction
	if len(mis.Instrs) > 0 {
		first := mis.Instrs[0]
		if succ(first) {
			p2 = []ssa.Instruction{first}
		} else {
			p2 = findPath(f, first, nil, succ, s.EdgeFeasible)
		}
	}
	bad := p1
	if bad == nil {
		bad = p2
	}
	r.check(p1 == nil && p2 == nil, "DeserializeData:crc-before-payload",
		"for a CRC32-protected value every success exit is reached only through the checksum comparison's equal edge",
		"a CRC32-protected value can be returned as data without its checksum having been verified (corruption goes undetected on that path)", w.fpos(f), w.renderPath(bad)...)
}

// r15_1Helper: the CRC comparison lives in an error-returning helper of the deserialiser.  Decides the rule for that
// shape and returns true; returns false when there is no such helper.
func r15_1Helper(r *Run, f *ssa.Function, kind ssa.Value, s *SCCP, crc int64) bool {
	w := r.W
	isCRCCall := func(v ssa.Value) bool {
		c, ok := v.(*ssa.Call)
		return ok && c.Call.StaticCallee() != nil && (strings.HasPrefix(c.Call.StaticCallee().String(), "hash/crc32.Checksum") || wholeSliceCRCHelper(c.Call.StaticCallee()))
	}
	for _, call := range calls(f) {
		g := staticCallee(call)
		cc, isCall := call.(*ssa.Call)
		if g == nil || !isCall || g == f || g.Pkg != f.Pkg || len(g.Blocks) == 0 || errResultIndex(g) < 0 {
			continue
		}
		var cmp *ssa.If
		eqEdge := 0
		for _, b := range g.Blocks {
			ifi, ok := b.Instrs[len(b.Instrs)-1].(*ssa.If)
			if !ok {
				continue
			}
			bo, ok := ifi.Cond.(*ssa.BinOp)
			if !ok || (bo.Op != token.NEQ && bo.Op != token.EQL) {
				continue
			}
			if isCRCCall(bo.X) || isCRCCall(bo.Y) {
				cmp = ifi
				eqEdge = 0
				if bo.Op == token.NEQ {
					eqEdge = 1
				}
			}
		}
		if cmp == nil {
			continue
		}
		name := g.Name()
		r.check(true, "DeserializeData:crc-compared", "the recomputed CRC32 is compared with the stored one (in "+name+")", "", w.fpos(g))
		// in the helper: mismatch → error; with the kind CRC32 every nil-error return lies behind the comparison
		mis := cmp.Block().Succs[1-eqEdge]
		okErr := false
		for _, in := range mis.Instrs {
			if ret, ok := in.(*ssa.Return); ok && isErrorExit(ret) {
				okErr = true
			}
		}
		r.check(okErr, "DeserializeData:crc-mismatch-is-error", "a checksum mismatch returns an error", "a checksum mismatch does not lead to an error return", w.pos(cmp.Pos()))
		env := &AEnv{Params: map[*ssa.Parameter]AVal{}}
		for i, prm := range g.Params {
			if typeIs(prm.Type(), "dvid", "Checksum") && i < len(cc.Call.Args) && stripConv(cc.Call.Args[i]) == stripConv(kind) {
				env.Params[prm] = AVal{K: AInt, I: crc}
			}
		}
		gs := runSCCP(g, env)
		isCmp := func(in ssa.Instruction) bool { return in == ssa.Instruction(cmp) }
		gp := findPath(g, nil, isCmp, successExit, gs.EdgeFeasible)
		var gp2 []ssa.Instruction
		if len(mis.Instrs) > 0 && !successExit(mis.Instrs[0]) {
			gp2 = findPath(g, mis.Instrs[0], nil, successExit, gs.EdgeFeasible)
		}
		// in the deserialiser: every success exit lies behind the call, and a non-nil verdict reaches no success exit
		succ := func(in ssa.Instruction) bool {
			ret, ok := in.(*ssa.Return)
			return ok && !isErrorExit(ret) && kind.(*ssa.Extract).Block().Dominates(ret.Block())
		}
		p1 := findPath(f, nil, func(in ssa.Instruction) bool { return in == ssa.Instruction(cc) }, succ, s.EdgeFeasible)
		var errV ssa.Value = cc
		if cc.Type() != nil && !isErrorType(cc.Type()) {
			for _, ref := range *cc.Referrers() {
				if ex, ok := ref.(*ssa.Extract); ok && isErrorType(ex.Type()) {
					errV = ex
				}
			}
		}
		s2 := runSCCP(f, &AEnv{Atom: func(v ssa.Value) (AVal, bool) {
			if v == kind {
				return AVal{K: AInt, I: crc}, true
			}
			if bo, ok := v.(*ssa.BinOp); ok && (bo.Op == token.NEQ || bo.Op == token.EQL) {
				for _, pr := range [][2]ssa.Value{{bo.X, bo.Y}, {bo.Y, bo.X}} {
					if isNilConst(pr[1]) && sameErrValue(pr[0], errV) {
						return aBool(bo.Op == token.NEQ), true
					}
				}
			}
			return unknown, false
		}})
		p2 := findPath(f, cc, nil, func(x ssa.Instruction) bool {
			ret, ok := x.(*ssa.Return)
			if !ok || isErrorExit(ret) {
				return false
			}
			if idx := errResultIndex(f); idx >= 0 && sameErrValue(retOperand(ret, idx), errV) {
				return false
			}
			return true
		}, s2.EdgeFeasible)
		bad := gp
		for _, p := range [][]ssa.Instruction{gp2, p1, p2} {
			if bad == nil {
				bad = p
			}
		}
		r.check(gp == nil && gp2 == nil && p1 == nil && p2 == nil, "DeserializeData:crc-before-payload",
			"for a CRC32-protected value every success exit is reached only through "+name+", whose nil verdict lies behind the comparison's equal edge",
			"a CRC32-protected value can be returned as data without its checksum having been verified (corruption goes undetected on that path)", w.fpos(f), w.renderPath(bad)...)
		return true
	}
	return false
}

// shiftMask describes v = (x & mask) << shl or (x >> shr) & mask patterns.
type shiftMask struct {
	shl, shr, mask int64
	hasMask        bool
}

func shiftMaskOf(v ssa.Value, depth int) shiftMask {
	var sm shiftMask
	for i := 0; i < 8 && v != nil; i++ {
		switch x := v.(type) {
		case *ssa.Convert:
			v = x.X
		case *ssa.ChangeType:
			v = x.X
		case *ssa.BinOp:
			k, ok := constInt(x.Y)
			if !ok {
				return sm
			}
			switch x.Op {
			case token.SHL:
				sm.shl += k
			case token.SHR:
				sm.shr += k
			case token.AND:
				sm.mask, sm.hasMask = k, true
			default:
				return sm
			}
			v = x.X
		default:
			return sm
		}
	}
	return sm
}

func bitsOf(mask int64) int64 {
	n := int64(0)
	for mask > 0 {
		n++
		mask >>= 1
	}
	return n
}

func ruleR15_2(r *Run) {
	w := r.W
	enc := w.fn("dvid", "EncodeSerializationFormat")
	dec := w.fn("dvid", "DecodeSerializationFormat")
	if enc == nil || dec == nil {
		r.violation("SerializationFormat", "Encode/DecodeSerializationFormat not found", "-")
		return
	}
	// encoder: returned value = a | b
	var parts []shiftMask
	for _, b := range enc.Blocks {
		if ret, ok := b.Instrs[len(b.Instrs)-1].(*ssa.Return); ok {
			v := stripConv(ret.Results[0])
			if or, ok := v.(*ssa.BinOp); ok && or.Op == token.OR {
				parts = append(parts, shiftMaskOf(or.X, 0), shiftMaskOf(or.Y, 0))
			}
		}
	}
	var dparts []shiftMask
	for _, b := range dec.Blocks {
		if ret, ok := b.Instrs[len(b.Instrs)-1].(*ssa.Return); ok {
			for _, res := range ret.Results {
				dparts = append(dparts, shiftMaskOf(res, 0))
			}
		}
	}
	if len(parts) != 2 || len(dparts) != 2 {
		r.undecided("SerializationFormat:shape", fmt.Sprintf("unexpected shape: %d encoder fields, %d decoder fields", len(parts), len(dparts)))
		return
	}
	sort.Slice(parts, func(i, j int) bool { return parts[i].shl > parts[j].shl }) // format (high) first
	fmtE, ckE := parts[0], parts[1]
	fmtD, ckD := dparts[0], dparts[1]
	r.note("R15.2 bit fields: encoder format(mask %#x<<%d) checksum(mask %#x<<%d); decoder format(>>%d mask %#x/%v) checksum(>>%d mask %#x)", fmtE.mask, fmtE.shl, ckE.mask, ckE.shl, fmtD.shr, fmtD.mask, fmtD.hasMask, ckD.shr, ckD.mask)
	r.check(fmtE.shl == fmtD.shr && fmtE.shl+bitsOf(fmtE.mask) <= 8 && (!fmtD.hasMask || fmtD.mask == fmtE.mask), "SerializationFormat:compression-field",
		"compression field: same shift, fits the byte, same mask", "the compression bit field is written and read at different positions/widths", w.fpos(enc))
	r.check(ckE.shl == ckD.shr && ckD.hasMask && ckD.mask == ckE.mask, "SerializationFormat:checksum-field",
		"checksum field: same shift and mask", "the checksum bit field is written and read at different positions/widths", w.fpos(enc))
	r.check(ckE.shl+bitsOf(ckE.mask) <= fmtE.shl, "SerializationFormat:fields-disjoint", "the two bit fields do not overlap", "the compression and checksum bit fields overlap", w.fpos(enc))

	// CRC: writer PutUint32 little endian into buf[1:5]; reader binary.Read LittleEndian of a uint32 after the format byte
	ser := w.fn("dvid", "SerializePrecompressedData")
	des := w.fn("dvid", "DeserializeData")
	if ser == nil || des == nil {
		r.violation("envelope", "SerializePrecompressedData / DeserializeData not found", "-")
		return
	}
	wEnd, wLo, wHi := "", int64(-1), int64(-1)
	callsWithHelpers := func(top *ssa.Function) []ssa.CallInstruction {
		var out []ssa.CallInstruction
		for _, g := range withHelpers(top) {
			out = append(out, calls(g)...)
		}
		return out
	}
	for _, c := range callsWithHelpers(ser) {
		if c.Common().IsInvoke() || c.Common().StaticCallee() == nil {
			continue
		}
		if c.Common().StaticCallee().Name() == "PutUint32" {
			wEnd = byteOrderOf(c.Common().Args[0])
			if sl, ok := c.Common().Args[1].(*ssa.Slice); ok {
				wLo, _ = constIntExpr(sl.Low)
				wHi, _ = constIntExpr(sl.High)
			}
		}
	}
	rEnd := ""
	var readSizes []int64
	for _, c := range callsWithHelpers(des) {
		if callee := c.Common().StaticCallee(); callee != nil && callee.String() == "encoding/binary.Read" {
			rEnd = byteOrderOf(c.Common().Args[1])
			if mi, ok := c.Common().Args[2].(*ssa.MakeInterface); ok {
				if p, ok := mi.X.Type().(*types.Pointer); ok {
					if b, ok := p.Elem().Underlying().(*types.Basic); ok {
						readSizes = append(readSizes, sizeOfBasic(b))
					}
				}
			}
		}
	}
	r.check(wEnd != "" && wEnd == rEnd, "envelope:crc-endianness", "CRC written and read "+wEnd, fmt.Sprintf("CRC written %q but read %q", wEnd, rEnd), w.fpos(ser))
	r.check(wLo == 1 && wHi == 5 && len(readSizes) == 2 && readSizes[0] == 1 && readSizes[1] == 4, "envelope:crc-offset-width",
		"format byte at 0, 4-byte CRC at 1..5 in both directions", fmt.Sprintf("writer puts the CRC at [%d:%d]; reader consumes fields of sizes %v", wLo, wHi, readSizes), w.fpos(ser))
	// LZ4 prefix: writer PutUint32(byteData[0:4]) + Compress into [4:]; reader Uint32(cdata[0:4]) + Uncompress(cdata[4:])
	sd := w.fn("dvid", "SerializeData")
	lz4PrefixWithHelpers := func(top *ssa.Function, intFn, lzFn string) string {
		if top == nil {
			return ""
		}
		for _, g := range withHelpers(top) {
			if s := lz4Prefix(g, intFn, lzFn); s != "" {
				return s
			}
		}
		return ""
	}
	wp, rp := lz4PrefixWithHelpers(sd, "PutUint32", "Compress"), lz4PrefixWithHelpers(des, "Uint32", "Uncompress")
	r.check(wp == rp && wp != "", "envelope:lz4-length-prefix", "LZ4 prefix "+wp+" on both sides", fmt.Sprintf("LZ4 length prefix differs: writer %q, reader %q", wp, rp), w.fpos(des))
}

func sizeOfBasic(b *types.Basic) int64 {
	switch b.Kind() {
	case types.Uint8, types.Int8, types.Bool:
		return 1
	case types.Uint16, types.Int16:
		return 2
	case types.Uint32, types.Int32, types.Float32:
		return 4
	case types.Uint64, types.Int64, types.Float64:
		return 8
	}
	return 0
}

func byteOrderOf(v ssa.Value) string {
	v = stripConv(v)
	if u, ok := v.(*ssa.UnOp); ok {
		if g, ok := u.X.(*ssa.Global); ok {
			return g.Name()
		}
	}
	if g, ok := v.(*ssa.Global); ok {
		return g.Name()
	}
	return ""
}

// lz4Prefix summarises "<endianness>:<prefix slice>:<payload offset>" for the lz4 branch.
func lz4Prefix(f *ssa.Function, intFn, lzFn string) string {
	if f == nil {
		return ""
	}
	end, pre, off := "", "", ""
	for _, c := range calls(f) {
		callee := c.Common().StaticCallee()
		if callee == nil {
			continue
		}
		if callee.Name() == intFn && strings.Contains(callee.String(), "binary") {
			a := c.Common().Args
			end = byteOrderOf(a[0])
			sl, ok := a[1].(*ssa.Slice)
			if !ok || sl.High == nil {
				continue
			}
			hi, hok := constInt(sl.High)
			lo, lok := int64(0), true
			if sl.Low != nil {
				lo, lok = constInt(sl.Low)
			}
			if !hok || !lok {
				continue // not a fixed-position prefix (e.g. a trailer read at len-4)
			}
			pre = fmt.Sprintf("[%d:%d]", lo, hi)
		}
		if callee.Name() == lzFn && strings.Contains(callee.String(), "lz4") {
			for _, a := range c.Common().Args {
				if sl, ok := a.(*ssa.Slice); ok && sl.Low != nil {
					lo, _ := constInt(sl.Low)
					off = fmt.Sprintf("payload@%d", lo)
				}
			}
		}
	}
	if end == "" {
		return ""
	}
	return end + pre + off
}

// switchConsts: the integer constants a value of the named type is compared with (== or !=, i.e. switch cases and
// if/else-if chains alike) in f.
func switchConsts(top *ssa.Function, typName string) map[int64]bool {
	out := map[int64]bool{}
	for _, f := range withHelpers(top) {
		for k := range switchConstsIn(f, typName) {
			out[k] = true
		}
	}
	return out
}

func switchConstsIn(f *ssa.Function, typName string) map[int64]bool {
	out := map[int64]bool{}
	for _, b := range f.Blocks {
		for _, in := range b.Instrs {
			bo, ok := in.(*ssa.BinOp)
			if !ok || (bo.Op != token.EQL && bo.Op != token.NEQ) {
				continue
			}
			for _, pr := range [][2]ssa.Value{{bo.X, bo.Y}, {bo.Y, bo.X}} {
				if k, ok := constInt(pr[1]); ok && typeIs(pr[0].Type(), "dvid", typName) {
					if _, isC := pr[0].(*ssa.Const); !isC {
						out[k] = true
					}
				}
			}
		}
	}
	return out
}

func ruleR15_3(r *Run) {
	w := r.W
	sd, sp, des := w.fn("dvid", "SerializeData"), w.fn("dvid", "SerializePrecompressedData"), w.fn("dvid", "DeserializeData")
	if sd == nil || sp == nil || des == nil {
		r.violation("serialisers", "SerializeData / SerializePrecompressedData / DeserializeData not found", "-")
		return
	}
	wc, rc := switchConsts(sd, "CompressionFormat"), switchConsts(des, "CompressionFormat")
	keys := func(m map[int64]bool) []int64 {
		var k []int64
		for x := range m {
			k = append(k, x)
		}
		sort.Slice(k, func(i, j int) bool { return k[i] < k[j] })
		return k
	}
	missR, missW := []int64{}, []int64{}
	for k := range wc {
		if !rc[k] {
			missR = append(missR, k)
		}
	}
	for k := range rc {
		if !wc[k] {
			missW = append(missW, k)
		}
	}
	r.check(len(wc) >= 4 && len(missR) == 0 && len(missW) == 0, "compression-formats:agree",
		fmt.Sprintf("serialiser cases %v = deserialiser cases %v", keys(wc), keys(rc)),
		fmt.Sprintf("compression formats handled differ: serialiser %v, deserialiser %v (written but unreadable: %v; readable but never written: %v)", keys(wc), keys(rc), missR, missW), w.fpos(des))
	wk, rk := switchConsts(sp, "Checksum"), switchConsts(des, "Checksum")
	same := len(wk) == len(rk) && len(wk) >= 2
	for k := range wk {
		if !rk[k] {
			same = false
		}
	}
	r.check(same, "checksum-kinds:agree", fmt.Sprintf("serialiser %v = deserialiser %v", keys(wk), keys(rk)),
		fmt.Sprintf("checksum kinds handled differ: serialiser %v, deserialiser %v", keys(wk), keys(rk)), w.fpos(des))
}

func ruleR15_4(r *Run) {
	w := r.W
	f := w.fn("dvid", "DeserializeData")
	if f == nil {
		r.violation("dvid.DeserializeData", "not found", "-")
		return
	}
	// the deserialiser may be a pipeline of helpers (readStoredChecksum, verifyChecksum, uncompressData): each part of
	// this rule is a per-function statement and is made for every one of them
	top := f
	nerrAll := 0
	var prefixFn *ssa.Function
	for _, f := range withHelpers(top) {
		tag := "DeserializeData"
		if f != top {
			tag = f.Name()
		}
		n, viol := checkBufferBounds(f, nil)
		var wit []string
		for _, v := range viol {
			wit = append(wit, fmt.Sprintf("%s: %s %s of %s", w.pos(v.In.Pos()), v.What, shortForm(v.Bound), shortForm(v.Buffer)))
		}
		r.check(len(viol) == 0, tag+":bounds",
			fmt.Sprintf("%d slice/index expressions on input-derived buffers, each dominated by a length comparison", n),
			fmt.Sprintf("%d of %d slice/index expressions on the input are not dominated by a comparison with its length: a short or malformed value makes deserialisation panic", len(viol), n), w.fpos(f), wit...)
		// type assertions on decoded values must be comma-ok
		bad := ""
		nta := 0
		for _, b := range f.Blocks {
			for _, in := range b.Instrs {
				if ta, ok := in.(*ssa.TypeAssert); ok {
					// values handed back by a sync.Pool are the program's own, not decoded input
					if c, isCall := ta.X.(*ssa.Call); isCall {
						if callee := c.Call.StaticCallee(); callee != nil && callee.Pkg != nil && callee.Pkg.Pkg.Path() == "sync" {
							continue
						}
					}
					nta++
					if !ta.CommaOk {
						bad = w.pos(ta.Pos())
					}
				}
			}
		}
		r.check(bad == "", tag+":type-assertions", fmt.Sprintf("%d type assertions, all comma-ok", nta),
			"a decoded value is type-asserted without the comma-ok form: an unexpected concrete type (e.g. a colour JPEG) panics", bad)
		// every error produced by a call reaches an error exit when non-nil
		nerr := 0
		var leak []ssa.Instruction
		for _, b := range f.Blocks {
			for _, in := range b.Instrs {
				var errV ssa.Value
				switch x := in.(type) {
				case *ssa.Call:
					if isErrorType(x.Type()) {
						errV = x
					}
				case *ssa.Extract:
					if isErrorType(x.Type()) {
						if _, ok := x.Tuple.(*ssa.Call); ok {
							errV = x
						}
					}
				}
				if errV == nil {
					continue
				}
				nerr++
				env := &AEnv{Atom: func(v ssa.Value) (AVal, bool) {
					if bo, ok := v.(*ssa.BinOp); ok && (bo.Op == token.NEQ || bo.Op == token.EQL) {
						for _, pr := range [][2]ssa.Value{{bo.X, bo.Y}, {bo.Y, bo.X}} {
							if isNilConst(pr[1]) && sameErrValue(pr[0], errV) {
								return aBool(bo.Op == token.NEQ), true
							}
						}
					}
					return unknown, false
				}}
				s := runSCCP(f, env)
				p := findPath(f, in, nil, func(x ssa.Instruction) bool {
					ret, ok := x.(*ssa.Return)
					if !ok || isErrorExit(ret) {
						return false
					}
					// returning the error value itself is an error exit under the assumption
					if idx := errResultIndex(f); idx >= 0 && sameErrValue(retOperand(ret, idx), errV) {
						return false
					}
					return true
				}, s.EdgeFeasible)
				if p != nil {
					leak = p
				}
			}
		}
		nerrAll += nerr
		r.check(leak == nil, tag+":errors-propagate",
			fmt.Sprintf("%d error results of decoder calls; each, when non-nil, can only reach an error exit", nerr),
			"an error reported by a decoding step can be ignored and the (possibly truncated or corrupted) bytes returned as data", w.fpos(f), w.renderPath(leak)...)
		for _, c := range calls(f) {
			callee := c.Common().StaticCallee()
			if callee != nil && callee.Name() == "Uint32" && strings.Contains(callee.String(), "binary") {
				if lo, hi, _, ok := sliceRegion(c.Common().Args[len(c.Common().Args)-1]); ok && lo == 0 && hi == 4 {
					prefixFn = f
				}
			}
		}
	}
	r.check(nerrAll >= 4, "DeserializeData:decoder-errors", fmt.Sprintf("%d", nerrAll), "too few error results of decoder calls found: rule needs review", w.fpos(top))
	// LZ4 legacy raw copy only for a zero length prefix
	var prefix ssa.Value
	if prefixFn != nil {
		f = prefixFn
	}
	for _, c := range calls(f) {
		callee := c.Common().StaticCallee()
		if callee != nil && callee.Name() == "Uint32" && strings.Contains(callee.String(), "binary") {
			// the LZ4 length prefix is read from a fixed position at the start of the value
			if lo, hi, _, ok := sliceRegion(c.Common().Args[len(c.Common().Args)-1]); ok && lo == 0 && hi == 4 {
				prefix, _ = c.(ssa.Value)
			}
		}
	}
	if prefix == nil {
		r.undecided("DeserializeData:lz4-prefix", "no length prefix read found")
		return
	}
	s := runSCCP(f, &AEnv{Atom: func(v ssa.Value) (AVal, bool) {
		if v == prefix {
			return AVal{K: AInt, I: 7}, true
		}
		return unknown, false
	}})
	isUnc := func(in ssa.Instruction) bool {
		c, ok := in.(ssa.CallInstruction)
		return ok && c.Common().StaticCallee() != nil && c.Common().StaticCallee().Name() == "Uncompress"
	}
	p := findPath(f, prefix.(ssa.Instruction), isUnc, func(x ssa.Instruction) bool {
		ret, ok := x.(*ssa.Return)
		return ok && !isErrorExit(ret)
	}, s.EdgeFeasible)
	r.check(p == nil, "DeserializeData:lz4-raw-fallback-only-for-zero-prefix",
		"with a non-zero length prefix every success exit passes through lz4.Uncompress",
		"an LZ4 value with a non-zero length prefix can be returned without being decompressed (compressed bytes handed out as the original data)", w.fpos(f), w.renderPath(p)...)
}

// sameErrValue: a is the error value e or a reload of the local it was stored to.
func sameErrValue(a, e ssa.Value) bool {
	if a == nil {
		return false
	}
	if a == e {
		return true
	}
	if u, ok := a.(*ssa.UnOp); ok && u.Op == token.MUL {
		if al, ok := u.X.(*ssa.Alloc); ok {
			if v := lastStoreBefore(al, u); v == e {
				return true
			}
		}
	}
	return false
}

// ---------------------------------------------------------------------------------------------
// R15.5: integrity checks cannot be side-stepped

func init() {
	register(ruleDef{ID: "R15.5", Prop: "C15", Tier: "quick", Floor: 3,
		Title: "no format loses its integrity check: the requested checksum is dropped at write time only for the compression that carries its own (gzip); a gzip stream is read to its end (where its checksum is verified); a buffer handed back to a pool is never returned to the caller",
		Fn:    ruleR15_5})
}

func ruleR15_5(r *Run) {
	w := r.W
	const gzipConst = 2
	// (a) writers: a store of NoChecksum (0) into the checksum parameter is guarded only by format == Gzip
	n := 0
	for _, name := range []string{"SerializePrecompressedData", "SerializeData"} {
		f := w.fn("dvid", name)
		if f == nil {
			continue
		}
		// the checksum parameter may be re-assigned: as a phi of (param, const) or a store to its spill
		var guards []*ssa.If
		for _, b := range f.Blocks {
			for _, in := range b.Instrs {
				var val ssa.Value
				var at ssa.Instruction
				switch x := in.(type) {
				case *ssa.Phi:
					if !typeIs(x.Type(), "dvid", "Checksum") {
						continue
					}
					for i, e := range x.Edges {
						if c, ok := e.(*ssa.Const); ok && c.Value != nil && c.Value.String() == "0" {
							// the predecessor block through which the constant arrives
							pred := b.Preds[i]
							val, at = e, pred.Instrs[len(pred.Instrs)-1]
						}
					}
				case *ssa.Store:
					if c, ok := x.Val.(*ssa.Const); ok && typeIs(c.Type(), "dvid", "Checksum") && c.Value != nil && c.Value.String() == "0" {
						val, at = x.Val, x
					}
				}
				if val == nil {
					continue
				}
				n++
				// every If whose true edge guards `at`
				okG := false
				bad := ""
				for _, b2 := range f.Blocks {
					ifi, ok := b2.Instrs[len(b2.Instrs)-1].(*ssa.If)
					if !ok {
						continue
					}
					inThen := guardedByEdge(ifi, 0, at) || (at.Block() == b2.Succs[0] && len(b2.Succs[0].Preds) == 1)
					if !inThen {
						continue
					}
					guards = append(guards, ifi)
					bo, ok := ifi.Cond.(*ssa.BinOp)
					if ok && bo.Op == token.EQL {
						if k, isK := constInt(bo.Y); isK && k == gzipConst {
							okG = true
							continue
						}
					}
					bad = w.pos(ifi.Pos())
				}
				r.check(okG && bad == "", "dvid."+name+":checksum-dropped-only-for-gzip", "the requested checksum is replaced by NoChecksum only under format == Gzip",
					"the requested checksum is dropped for a compression other than gzip (the only one with its own integrity check): values of that format are stored and read back with no corruption detection at all", firstNonEmpty(bad, w.fpos(f)))
			}
		}
	}
	des := w.fn("dvid", "DeserializeData")
	if des == nil {
		r.violation("dvid.DeserializeData", "not found", "-")
		return
	}
	// (b) gzip readers are drained by a read-to-EOF function
	for _, c := range calls(des) {
		callee := c.Common().StaticCallee()
		if callee == nil || callee.Name() != "NewReader" || callee.Pkg == nil || callee.Pkg.Pkg.Path() != "compress/gzip" {
			continue
		}
		n++
		cv := c.(*ssa.Call)
		var rd ssa.Value
		for _, ref := range *cv.Referrers() {
			if ex, ok := ref.(*ssa.Extract); ok && ex.Index == 0 {
				rd = ex
			}
		}
		drained, partial := false, ""
		if rd != nil {
			var uses []ssa.Instruction
			var walk func(v ssa.Value, d int)
			walk = func(v ssa.Value, d int) {
				if d > 4 || v.Referrers() == nil {
					return
				}
				for _, ref := range *v.Referrers() {
					switch x := ref.(type) {
					case *ssa.MakeInterface:
						walk(x, d+1)
					case *ssa.ChangeInterface:
						walk(x, d+1)
					case ssa.CallInstruction:
						uses = append(uses, x)
					}
				}
			}
			walk(rd, 0)
			for _, u := range uses {
				uc := u.(ssa.CallInstruction)
				cal := uc.Common().StaticCallee()
				nm := callName(uc)
				switch {
				case cal != nil && cal.Pkg != nil && (cal.Pkg.Pkg.Path() == "io" || cal.Pkg.Pkg.Path() == "io/ioutil") && (nm == "Copy" || nm == "ReadAll"):
					drained = true
				case nm == "Close":
				case nm == "ReadFull" || nm == "Read" || nm == "ReadAtLeast" || nm == "CopyN":
					partial = w.pos(uc.Pos())
				}
			}
		}
		r.check(drained && partial == "", "dvid.DeserializeData:gzip-read-to-end", "the gzip stream is consumed by a read-to-EOF function",
			"the gzip stream is read with a bounded read: gzip verifies its CRC only when the reader reaches the end of the stream, so a corrupted value that inflates to the expected length is returned without error", firstNonEmpty(partial, w.pos(c.Pos())))
	}
	// (c) no returned slice aliases a buffer put back into a sync.Pool
	for _, f := range []*ssa.Function{des, w.fn("dvid", "SerializeData"), w.fn("dvid", "SerializePrecompressedData")} {
		if f == nil {
			continue
		}
		var pooled []ssa.Value
		for _, g := range withClosures(f) {
			for _, c := range calls(g) {
				if cal := c.Common().StaticCallee(); cal != nil && cal.Pkg != nil && cal.Pkg.Pkg.Path() == "sync" && cal.Name() == "Put" && len(c.Common().Args) == 2 {
					for _, rt := range roots(c.Common().Args[1], g) {
						pooled = append(pooled, peelAssert(rt.V))
					}
				}
			}
		}
		n++
		bad := ""
		if len(pooled) > 0 {
			for _, b := range f.Blocks {
				ret, ok := b.Instrs[len(b.Instrs)-1].(*ssa.Return)
				if !ok || len(ret.Results) == 0 {
					continue
				}
				for _, rt := range roots(ret.Results[0], f) {
					if c, ok := rt.V.(*ssa.Call); ok && callName(c) == "Bytes" {
						for _, r2 := range roots(recvOfCall(c), f) {
							for _, p := range pooled {
								if peelAssert(r2.V) == p {
									bad = w.pos(ret.Pos())
								}
							}
						}
					}
				}
			}
		}
		r.check(bad == "", "dvid."+f.Name()+":result-not-aliasing-pooled-buffer", "no returned slice is backed by a buffer handed back to a pool",
			"the returned bytes are backed by a buffer that the function puts back into a sync.Pool: the next call overwrites a value already handed to the caller", firstNonEmpty(bad, w.fpos(f)))
	}
	r.check(n >= 3, "dvid:integrity-paths", fmt.Sprintf("%d integrity-relevant sites examined", n), "sites not found", "-")
}

// wholeSliceCRCHelper: a repository function that returns crc32.Checksum*(p, …) of one of its own
// slice parameters as a whole (a helper that checksums re-slicings of the parameter is not accepted:
// whether its pieces cover every byte is not decided here).
func wholeSliceCRCHelper(g *ssa.Function) bool {
	if g == nil || len(g.Blocks) == 0 || !inRepo(g) {
		return false
	}
	for _, c := range calls(g) {
		callee := staticCallee(c)
		if callee == nil || !strings.HasPrefix(callee.String(), "hash/crc32.Checksum") || len(c.Common().Args) == 0 {
			continue
		}
		arg := c.Common().Args[0]
		isParam := false
		for _, p := range g.Params {
			if ssa.Value(p) == arg {
				isParam = true
			}
		}
		if !isParam {
			return false
		}
		cv, ok := c.(*ssa.Call)
		if !ok {
			return false
		}
		for _, b := range g.Blocks {
			if ret, ok := b.Instrs[len(b.Instrs)-1].(*ssa.Return); ok && len(ret.Results) == 1 && ret.Results[0] == ssa.Value(cv) {
				return true
			}
		}
	}
	return false
}
