package main

// R5.10 — the error of a range scan is looked at before the variable holding it is reused.
//
// `err = db.ProcessRange(...)` followed, on some path, by another assignment to err (or by a return
// that does not return it) before err was tested: a failed scan is reported as success with a
// partial result.

import (
	"fmt"
	"go/token"
	"strings"

	"golang.org/x/tools/go/ssa"
)

func init() {
	register(ruleDef{ID: "R5.10", Prop: "C05", Tier: "quick", Floor: 20,
		Title: "a failed range scan is not reported as success: the error returned by a storage range call (ProcessRange, GetRange, KeysInRange, SendKeysInRange, DeleteRange, RawRangeQuery) in the data types is tested, passed on or returned before the variable holding it is assigned again or the function returns something else",
		Fn:    ruleRangeErrNotDropped})
}

func ruleRangeErrNotDropped(r *Run) {
	w := r.W
	rangeNames := map[string]bool{"GetRange": true, "KeysInRange": true, "SendKeysInRange": true, "ProcessRange": true, "DeleteRange": true, "RawRangeQuery": true}
	n := 0
	for _, f := range w.RepoFuncs {
		if len(f.Blocks) == 0 || strings.HasSuffix(w.fposFile(f), "_test.go") || !strings.HasPrefix(relPkg(pkgPathOf(f)), "datatype/") {
			continue
		}
		k := 0
		for _, c := range calls(f) {
			if !rangeNames[methodNameOf(c)] {
				continue
			}
			if o := calleeObj(c); o == nil || o.Pkg() == nil || !strings.HasSuffix(o.Pkg().Path(), "/storage") {
				continue
			}
			cv, ok := c.(*ssa.Call)
			if !ok {
				continue // go / defer
			}
			// the error value
			var ev ssa.Value
			if isErrorType(cv.Type()) {
				ev = cv
			} else if cv.Referrers() != nil {
				for _, ref := range *cv.Referrers() {
					if ex, ok := ref.(*ssa.Extract); ok && isErrorType(ex.Type()) {
						ev = ex
					}
				}
			}
			k++
			construct := fmt.Sprintf("%s:%s#%d:error-looked-at", fname(f), methodNameOf(c), k)
			if _, exc := r.exceptionFor("R5.10", construct); exc {
				continue
			}
			if ev == nil || ev.Referrers() == nil || len(*ev.Referrers()) == 0 {
				// `_ = db.ProcessRange(...)` or the result ignored altogether
				if ev == nil && !isErrorType(cv.Type()) && cv.Type().String() != "()" {
					n++
					r.violation(construct, "the error result of the range call is discarded", w.pos(c.Pos()))
				} else if ev != nil {
					n++
					r.violation(construct, "the error result of the range call is never used", w.pos(c.Pos()))
				}
				continue
			}
			n++
			p := errDropPath(f, c, ev)
			r.check(p == nil, construct, "on every path the error is tested, passed on or returned before err is assigned again",
				"the error of the range scan can be lost: on some path the variable is assigned again (or the function returns) before the error was looked at, so a failed scan ends as a success with a partial answer", w.pos(c.Pos()), w.renderPath(p)...)
		}
	}
	r.check(n >= 20, "datatype:range-call-errors", fmt.Sprintf("%d range calls examined", n), "too few: rule needs review", "-")
}

// errDropPath: a path from call c (whose error value is ev) to a point where the error is lost: the
// variable holding it is assigned again, or the function returns something else, before the error was
// tested, passed on or returned.  nil when there is none.
func errDropPath(f *ssa.Function, c ssa.CallInstruction, ev ssa.Value) []ssa.Instruction {
	// spilled to a local (captured by a closure / address taken): follow the cell instead
	var cell *ssa.Alloc
	for _, ref := range *ev.Referrers() {
		if st, ok := ref.(*ssa.Store); ok && st.Val == ev {
			if al, ok := st.Addr.(*ssa.Alloc); ok {
				cell = al
			}
		}
	}
	web := map[ssa.Value]bool{ev: true}
	if cell == nil {
		for changed := true; changed; {
			changed = false
			for v := range web {
				if v.Referrers() == nil {
					continue
				}
				for _, ref := range *v.Referrers() {
					if phi, ok := ref.(*ssa.Phi); ok && !web[phi] {
						web[phi] = true
						changed = true
					}
				}
			}
		}
	}
	inWebPhi := func(v ssa.Value) bool {
		_, isPhi := v.(*ssa.Phi)
		return web[v] && (isPhi || v == ev)
	}
	usesErr := func(v ssa.Value) bool {
		if inWebPhi(v) {
			return true
		}
		if cell != nil {
			if u, ok := v.(*ssa.UnOp); ok && u.Op == token.MUL && u.X == ssa.Value(cell) {
				return true
			}
		}
		return false
	}
	// the variable is read by a closure (a deferred reporter, a sentinel compared inside a callback):
	// its uses cannot be followed along the paths of this function
	if cell != nil {
		for _, ref := range *cell.Referrers() {
			if mc, ok := ref.(*ssa.MakeClosure); ok {
				if cl, ok := mc.Fn.(*ssa.Function); ok {
					for i, b := range mc.Bindings {
						if b != ssa.Value(cell) {
							continue
						}
						for _, r2 := range *cl.FreeVars[i].Referrers() {
							if ld, ok := r2.(*ssa.UnOp); ok && ld.Op == token.MUL {
								return nil
							}
						}
					}
				}
			}
		}
	}
	looked := func(in ssa.Instruction) bool {
		switch x := in.(type) {
		case *ssa.If:
			if bo, ok := x.Cond.(*ssa.BinOp); ok && (usesErr(bo.X) || usesErr(bo.Y)) {
				return true
			}
		case *ssa.BinOp:
			return usesErr(x.X) || usesErr(x.Y)
		case ssa.CallInstruction:
			if in == ssa.Instruction(c) {
				return false
			}
			for _, a := range x.Common().Args {
				if usesErr(a) {
					return true
				}
				if mi, ok := a.(*ssa.MakeInterface); ok && usesErr(mi.X) {
					return true
				}
			}
		case *ssa.MakeInterface:
			return usesErr(x.X)
		case *ssa.Send:
			return usesErr(x.X)
		case *ssa.Store:
			// handed to another variable / field
			return usesErr(x.Val) && x.Addr != ssa.Value(cell)
		case *ssa.Return:
			for _, rv := range x.Results {
				if usesErr(rv) {
					return true
				}
			}
		}
		return false
	}
	dropped := func(in ssa.Instruction) bool {
		switch x := in.(type) {
		case *ssa.Return:
			// reached without having looked at the error (looked() is the barrier); leaving with another,
			// provably non-nil error is still a refusal
			return !isErrorExit(x)
		case *ssa.Store:
			if cell != nil && x.Addr == ssa.Value(cell) && x.Val != ev {
				return true
			}
		case *ssa.Phi:
			_ = x
		}
		if cell == nil {
			// another definition joins the web: an instruction whose value is a non-phi member's edge
			if v, ok := in.(ssa.Value); ok && v != ev {
				if v.Referrers() != nil {
					for _, ref := range *v.Referrers() {
						if phi, ok := ref.(*ssa.Phi); ok && web[phi] {
							return true
						}
					}
				}
			}
		}
		return false
	}
	return findPath(f, c, looked, dropped, allEdges)
}

// ---------------------------------------------------------------------------------------------
// R20.27 — a validation error that was constructed is also returned

func init() {
	register(ruleDef{ID: "R20.27", Prop: "C20", Tier: "quick", Floor: 50,
		Title: "a request that is found invalid is refused: an error built with fmt.Errorf / errors.New and assigned to the function's error variable is tested, passed on or returned before that variable is assigned again (`if bad { err = … }` without a return lets the request go on and overwrites the verdict)",
		Fn:    ruleConstructedErrNotDropped})
	register(ruleDef{ID: "R12.9", Prop: "C12", Tier: "quick", Floor: 50,
		Title: "an allocation request that is found invalid does not allocate (shared with R20.27)",
		Fn:    ruleConstructedErrNotDropped})
}

func ruleConstructedErrNotDropped(r *Run) {
	w := r.W
	n := 0
	for _, f := range w.RepoFuncs {
		if len(f.Blocks) == 0 || strings.HasSuffix(w.fposFile(f), "_test.go") {
			continue
		}
		p := relPkg(pkgPathOf(f))
		if !strings.HasPrefix(p, "datatype/") && p != "datastore" && p != "server" && p != "dvid" && !strings.HasPrefix(p, "storage") {
			continue
		}
		k := 0
		for _, c := range calls(f) {
			o := calleeObj(c)
			if o == nil || o.Pkg() == nil {
				continue
			}
			if !(o.Pkg().Path() == "fmt" && o.Name() == "Errorf") && !(o.Pkg().Path() == "errors" && o.Name() == "New") {
				continue
			}
			cv, ok := c.(*ssa.Call)
			if !ok || cv.Referrers() == nil {
				continue
			}
			// only errors kept in a variable that lives on: stored to a cell or flowing into a phi
			// (a value returned or passed directly is looked at by construction)
			kept := false
			for _, ref := range *cv.Referrers() {
				switch x := ref.(type) {
				case *ssa.Store:
					if _, isAl := x.Addr.(*ssa.Alloc); isAl && x.Val == ssa.Value(cv) {
						kept = true
					}
				case *ssa.Phi:
					kept = true
				}
			}
			if !kept {
				continue
			}
			n++
			k++
			p := errDropPath(f, c, cv)
			r.check(p == nil, fmt.Sprintf("%s:constructed-error#%d:returned-or-tested", fname(f), k), "the error is looked at before the variable is reused",
				"an error is constructed and assigned, but on some path the variable is assigned again (or the function returns something else) before anyone looked at it: the condition the error describes does not stop the request", w.pos(c.Pos()), w.renderPath(p)...)
		}
	}
	r.check(n >= 50, "repo:constructed-errors-kept-in-variables", fmt.Sprintf("%d constructed errors kept in variables", n), "too few: rule needs review", "-")
}
