package main

// R5.10 — the error of a range scan is looked at before the variable holding it is reused.
//
// `err = db.ProcessRange(...)` followed, on some path, by another assignment to err (or by a return
// that does not return it) before err was tested: a failed scan is reported as success with a
// partial result.

import (
	"fmt"
	"go/token"
	"strings"

	"golang.org/x/tools/go/ssa"
)

func init() {
	register(ruleDef{ID: "R5.10", Prop: "C05", Tier: "quick", Floor: 20,
		Title: "a failed range scan is not reported as success: the error returned by a storage range call (ProcessRange, GetRange, KeysInRange, SendKeysInRange, DeleteRange, RawRangeQuery) in the data types is tested, passed on or returned before the variable holding it is assigned again or the function returns something else",
		Fn:    ruleRangeErrNotDropped})
}

func ruleRangeErrNotDropped(r *Run) {
	w := r.W
	rangeNames := map[string]bool{"GetRange": true, "KeysInRange": true, "SendKeysInRange": true, "ProcessRange": true, "DeleteRange": true, "RawRangeQuery": true}
	n := 0
	for _, f := range w.RepoFuncs {
		if len(f.Blocks) == 0 || strings.HasSuffix(w.fposFile(f), "_test.go") || !strings.HasPrefix(relPkg(pkgPathOf(f)), "datatype/") {
			continue
		}
		k := 0
		for _, c := range calls(f) {
			if !rangeNames[methodNameOf(c)] {
				continue
			}
			if o := calleeObj(c); o == nil || o.Pkg() == nil || !strings.HasSuffix(o.Pkg().Path(), "/storage") {
				continue
			}
			cv, ok := c.(*ssa.Call)
			if !ok {
				continue // go / defer
			}
			// the error value
			var ev ssa.Value
			if isErrorType(cv.Type()) {
				ev = cv
			} else if cv.Referrers() != nil {
				for _, ref := range *cv.Referrers() {
					if ex, ok := ref.(*ssa.Extract); ok && isErrorType(ex.Type()) {
						ev = ex
					}
				}
			}
			k++
			construct := fmt.Sprintf("%s:%s#%d:error-looked-at", fname(f), methodNameOf(c), k)
			if _, exc := r.exceptionFor("R5.10", construct); exc {
				continue
			}
			if ev == nil || ev.Referrers() == nil || len(*ev.Referrers()) == 0 {
				// `_ = db.ProcessRange(...)` or the result ignored altogether
				if ev == nil && !isErrorType(cv.Type()) && cv.Type().String() != "()" {
					n++
					r.violation(construct, "the error result of the range call is discarded", w.pos(c.Pos()))
				} else if ev != nil {
					n++
					r.violation(construct, "the error result of the range call is never used", w.pos(c.Pos()))
				}
				continue
			}
			// spilled to a local (captured by a closure / address taken): follow the cell instead
			var cell *ssa.Alloc
			for _, ref := range *ev.Referrers() {
				if st, ok := ref.(*ssa.Store); ok && st.Val == ev {
					if al, ok := st.Addr.(*ssa.Alloc); ok {
						cell = al
					}
				}
			}
			n++
			web := map[ssa.Value]bool{ev: true}
			if cell == nil {
				for changed := true; changed; {
					changed = false
					for v := range web {
						if v.Referrers() == nil {
							continue
						}
						for _, ref := range *v.Referrers() {
							if phi, ok := ref.(*ssa.Phi); ok && !web[phi] {
								web[phi] = true
								changed = true
							}
						}
					}
				}
			}
			inWebPhi := func(v ssa.Value) bool {
				_, isPhi := v.(*ssa.Phi)
				return web[v] && (isPhi || v == ev)
			}
			usesErr := func(v ssa.Value) bool {
				if inWebPhi(v) {
					return true
				}
				if cell != nil {
					if u, ok := v.(*ssa.UnOp); ok && u.Op == token.MUL && u.X == ssa.Value(cell) {
						return true
					}
				}
				return false
			}
			looked := func(in ssa.Instruction) bool {
				switch x := in.(type) {
				case *ssa.If:
					if bo, ok := x.Cond.(*ssa.BinOp); ok && (usesErr(bo.X) || usesErr(bo.Y)) {
						return true
					}
				case *ssa.BinOp:
					return usesErr(x.X) || usesErr(x.Y)
				case ssa.CallInstruction:
					if in == ssa.Instruction(c) {
						return false
					}
					for _, a := range x.Common().Args {
						if usesErr(a) {
							return true
						}
						if mi, ok := a.(*ssa.MakeInterface); ok && usesErr(mi.X) {
							return true
						}
					}
				case *ssa.MakeInterface:
					return usesErr(x.X)
				case *ssa.Send:
					return usesErr(x.X)
				case *ssa.Store:
					// handed to another variable / field
					return usesErr(x.Val) && x.Addr != ssa.Value(cell)
				case *ssa.Return:
					for _, rv := range x.Results {
						if usesErr(rv) {
							return true
						}
					}
				}
				return false
			}
			dropped := func(in ssa.Instruction) bool {
				switch x := in.(type) {
				case *ssa.Return:
					return true // reached without having looked at the error (looked() is the barrier)
				case *ssa.Store:
					if cell != nil && x.Addr == ssa.Value(cell) && x.Val != ev {
						return true
					}
				case *ssa.Phi:
					_ = x
				}
				if cell == nil {
					// another definition joins the web: an instruction whose value is a non-phi member's edge
					if v, ok := in.(ssa.Value); ok && v != ev {
						if v.Referrers() != nil {
							for _, ref := range *v.Referrers() {
								if phi, ok := ref.(*ssa.Phi); ok && web[phi] {
									return true
								}
							}
						}
					}
				}
				return false
			}
			p := findPath(f, c, looked, dropped, allEdges)
			r.check(p == nil, construct, "on every path the error is tested, passed on or returned before err is assigned again",
				"the error of the range scan can be lost: on some path the variable is assigned again (or the function returns) before the error was looked at, so a failed scan ends as a success with a partial answer", w.pos(c.Pos()), w.renderPath(p)...)
		}
	}
	r.check(n >= 20, "datatype:range-call-errors", fmt.Sprintf("%d range calls examined", n), "too few: rule needs review", "-")
}
