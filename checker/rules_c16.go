package main

import (
	"fmt"
	"go/token"
	"go/types"
	"strings"

	"golang.org/x/tools/go/ssa"
)

func init() {
	register(ruleDef{ID: "R16.1", Prop: "C16", Tier: "quick", Floor: 2,
		Title: "write-through completeness: every function that writes or deletes an annotation in the store first consults the in-memory database of the request's own version and applies the same change there",
		Fn:    ruleR16_1})
	register(ruleDef{ID: "R16.2", Prop: "C16", Tier: "quick", Floor: 4,
		Title: "guarded-by: the in-memory database's maps and id list are modified only with its mutex write-held",
		Fn:    ruleR16_2})
	register(ruleDef{ID: "R16.3", Prop: "C16", Tier: "quick", Floor: 8,
		Title: "dual read paths select by the same key: every read entry chooses between memory and store by getMemDBbyVersion of the request context's own version",
		Fn:    ruleR16_3})
	register(ruleDef{ID: "R16.5", Prop: "C16", Tier: "quick", Floor: 2,
		Title: "head tracking: a head database is handed out only for a version that GetBranchHead reports as that branch's head; the loader builds the databases with the typed annotation decoder",
		Fn:    ruleR16_5})
	register(ruleDef{ID: "R16.6", Prop: "C16", Tier: "quick", Floor: 2,
		Title: "head-only caches: the in-memory schema/metadata cache serving the head is written by request paths only when the request's context is the head",
		Fn:    ruleR16_6})
}

func njFuncs(w *World) []*ssa.Function {
	var out []*ssa.Function
	for _, f := range w.RepoFuncs {
		if relPkg(pkgPathOf(f)) == "datatype/neuronjson" && len(f.Blocks) > 0 {
			out = append(out, f)
		}
	}
	return out
}

func isMemDBLookup(c ssa.CallInstruction) bool {
	callee := c.Common().StaticCallee()
	return callee != nil && callee.Name() == "getMemDBbyVersion"
}

// foundOf returns the `found` result of a getMemDBbyVersion call.
func foundOf(c ssa.CallInstruction) ssa.Value {
	v, ok := c.(ssa.Value)
	if !ok || v.Referrers() == nil {
		return nil
	}
	for _, ref := range *v.Referrers() {
		if ex, ok := ref.(*ssa.Extract); ok && ex.Index == 1 {
			return ex
		}
	}
	return nil
}

// memdbMutator: g is a method of the in-memory database that, the key being present, changes the record map on every
// path to a return (put: a MapUpdate on memdb.data; delete: a delete on it) — the in-memory half of an update moved
// into a method (mdb.replaceAnnotation / mdb.removeAnnotation).
func memdbMutator(g *ssa.Function, isPut bool) bool {
	if g == nil || len(g.Blocks) == 0 || g.Signature.Recv() == nil || !typeIs(g.Signature.Recv().Type(), "datatype/neuronjson", "memdb") {
		return false
	}
	direct := func(in ssa.Instruction) bool {
		switch x := in.(type) {
		case *ssa.MapUpdate:
			return isPut && isFieldLoad(x.Map, "memdb", "data")
		case *ssa.Call:
			if bi, ok := x.Call.Value.(*ssa.Builtin); ok && bi.Name() == "delete" && !isPut {
				return isFieldLoad(x.Call.Args[0], "memdb", "data")
			}
		}
		return false
	}
	has := false
	for _, b := range g.Blocks {
		for _, in := range b.Instrs {
			if direct(in) {
				has = true
			}
		}
	}
	if !has {
		return false
	}
	s := runSCCP(g, &AEnv{Atom: func(v ssa.Value) (AVal, bool) {
		if ex, ok := v.(*ssa.Extract); ok && ex.Index == 1 {
			if lk, ok := ex.Tuple.(*ssa.Lookup); ok && isFieldLoad(lk.X, "memdb", "data") {
				return aBool(true), true
			}
		}
		return unknown, false
	}})
	anyRet := func(x ssa.Instruction) bool { _, ok := x.(*ssa.Return); return ok }
	return findPath(g, nil, direct, anyRet, s.EdgeFeasible) == nil
}

func ruleR16_1(r *Run) {
	w := r.W
	n := 0
	for _, f := range njFuncs(w) {
		for _, c := range calls(f) {
			callee := c.Common().StaticCallee()
			if callee == nil || (callee.Name() != "putStoreData" && callee.Name() != "deleteStoreData") {
				continue
			}
			n++
			isPut := callee.Name() == "putStoreData"
			ctxArg := c.Common().Args[1]
			// a memdb lookup for ctx.VersionID() of the same ctx
			var lk ssa.CallInstruction
			for _, c2 := range calls(f) {
				if !isMemDBLookup(c2) {
					continue
				}
				a := c2.Common().Args
				va := stripConv(a[len(a)-1])
				if vc, ok := va.(*ssa.Call); ok && (callsMethodNamed(vc, "VersionID") || isInvokeCall(vc, "VersionID")) {
					recv := vc.Call.Value
					if !vc.Call.IsInvoke() && len(vc.Call.Args) > 0 {
						recv = vc.Call.Args[0]
					}
					if pr := ctxParamOf(recv, f); pr != nil && pr == ctxParamOf(ctxArg, f) {
						lk = c2
					}
				}
			}
			construct := fmt.Sprintf("%s:%s", fname(f), callee.Name())
			if !r.check(lk != nil, construct+":consults-memdb-of-request-version",
				"the in-memory database is looked up for the same context's version",
				"an annotation is written to / deleted from the store without consulting the in-memory database of the request's version: the in-memory head and the store diverge", w.pos(c.Pos())) {
				continue
			}
			fv := foundOf(lk)
			s := runSCCP(f, &AEnv{Atom: func(v ssa.Value) (AVal, bool) {
				if v == fv {
					return aBool(true), true
				}
				return unknown, false
			}})
			isMemUpdate := func(in ssa.Instruction) bool {
				switch x := in.(type) {
				case *ssa.MapUpdate:
					return isPut && isFieldLoad(x.Map, "memdb", "data")
				case *ssa.Call:
					if bi, ok := x.Call.Value.(*ssa.Builtin); ok && bi.Name() == "delete" && !isPut {
						return isFieldLoad(x.Call.Args[0], "memdb", "data")
					}
					if memdbMutator(x.Call.StaticCallee(), isPut) {
						return true
					}
				}
				return false
			}
			p := findPath(f, lk, isMemUpdate, func(in ssa.Instruction) bool { return in == ssa.Instruction(c) }, s.EdgeFeasible)
			if !isPut {
				// a delete may legitimately skip the map delete when the key is not in memory: prune on the
				// comma-ok of the lookup in memdb.data
				p = findPathAssumingPresent(f, lk, isMemUpdate, c, s)
			}
			r.check(p == nil, construct+":memdb-updated-before-store",
				"with a database present for the version, the in-memory map is updated on every path to the store write",
				"with an in-memory database present for the version the store is changed without the same change in memory: reads through the in-memory path return stale annotations", w.pos(c.Pos()), w.renderPath(p)...)
		}
	}
	if n < 2 {
		r.undecided("store-writes", fmt.Sprintf("only %d annotation store writes found", n))
	}
	// vice versa: no in-memory annotation change without a store write (outside the loader)
	for _, f := range njFuncs(w) {
		if strings.Contains(f.Name(), "loadMemDB") || strings.Contains(f.Name(), "initMemoryDB") || f.Name() == "init" || strings.HasPrefix(f.Name(), "addBodyID") || strings.HasPrefix(f.Name(), "load") {
			continue
		}
		// the methods of the in-memory database that make the change are judged at their call sites
		if memdbMutator(f, true) || memdbMutator(f, false) {
			continue
		}
		for _, b := range f.Blocks {
			for _, in := range b.Instrs {
				isChange := false
				if mu, ok := in.(*ssa.MapUpdate); ok && isFieldLoad(mu.Map, "memdb", "data") {
					isChange = true
				}
				if c, ok := in.(*ssa.Call); ok && memdbMutator(c.Call.StaticCallee(), true) {
					isChange = true
				}
				if !isChange {
					continue
				}
				isStore := func(x ssa.Instruction) bool {
					c, ok := x.(ssa.CallInstruction)
					if !ok {
						return false
					}
					callee := c.Common().StaticCallee()
					return callee != nil && (callee.Name() == "putStoreData" || callee.Name() == "deleteStoreData")
				}
				p := findPath(f, in, isStore, func(x ssa.Instruction) bool {
					ret, ok := x.(*ssa.Return)
					return ok && !isErrorExit(ret)
				}, nil)
				if reason, ok := r.exception(fname(f) + ":memdb-change-reaches-store"); ok {
					r.ok(fname(f)+":memdb-change-reaches-store", "exception: "+reason, w.pos(in.Pos()))
					continue
				}
				r.check(p == nil, fname(f)+":memdb-change-reaches-store",
					"every in-memory annotation change is followed by the store write before success",
					"the in-memory database is changed but a success exit skips the store write: the change is served from memory and lost at restart", w.pos(in.Pos()), w.renderPath(p)...)
			}
		}
	}
}

// derivesFromSame: a and b are the same parameter seen through an interface conversion.
func derivesFromSame(a, b ssa.Value, f *ssa.Function) bool {
	ra, rb := roots(a, f), roots(b, f)
	for _, x := range ra {
		for _, y := range rb {
			if x.V == y.V {
				return true
			}
		}
	}
	return false
}

// findPathAssumingPresent: like findPath but additionally assumes the key is present in the
// in-memory map (comma-ok of a lookup on memdb.data is true).
func findPathAssumingPresent(f *ssa.Function, from ssa.Instruction, barrier func(ssa.Instruction) bool, target ssa.Instruction, base *SCCP) []ssa.Instruction {
	env := &AEnv{Atom: func(v ssa.Value) (AVal, bool) {
		if ex, ok := v.(*ssa.Extract); ok && ex.Index == 1 {
			if lk, ok := ex.Tuple.(*ssa.Lookup); ok && isFieldLoad(lk.X, "memdb", "data") {
				return aBool(true), true
			}
		}
		if base.Env != nil && base.Env.Atom != nil {
			return base.Env.Atom(v)
		}
		return unknown, false
	}}
	s := runSCCP(f, env)
	return findPath(f, from, barrier, func(in ssa.Instruction) bool { return in == target }, s.EdgeFeasible)
}

func ruleR16_2(r *Run) {
	w := r.W
	n := 0
	for _, f := range njFuncs(w) {
		if strings.Contains(f.Name(), "loadMemDB") || strings.Contains(f.Name(), "initMemoryDB") {
			continue
		}
		for _, b := range f.Blocks {
			for _, in := range b.Instrs {
				var fa *ssa.FieldAddr
				switch x := in.(type) {
				case *ssa.Store:
					fa, _ = x.Addr.(*ssa.FieldAddr)
				case *ssa.MapUpdate:
					if u, ok := x.Map.(*ssa.UnOp); ok {
						fa, _ = u.X.(*ssa.FieldAddr)
					}
				case *ssa.Call:
					if bi, ok := x.Call.Value.(*ssa.Builtin); ok && bi.Name() == "delete" {
						if u, ok := x.Call.Args[0].(*ssa.UnOp); ok {
							fa, _ = u.X.(*ssa.FieldAddr)
						}
					}
				}
				if fa == nil || !typeIs(fa.X.Type(), "datatype/neuronjson", "memdb") {
					continue
				}
				name, _, _ := fieldName(fa)
				if name == "mu" {
					continue
				}
				if isFreshObject(fa.X, f) {
					continue
				}
				n++
				held, _ := heldAt(f, in, "mu", true)
				construct := fmt.Sprintf("%s:memdb.%s", fname(f), name)
				if !held {
					// helper methods of memdb called with the lock held by every caller
					if callersHold(w, f, "mu") {
						held = true
					}
					// … or by every caller that is not the start-up loader, which fills a database that is not yet
					// published (initMemoryDB builds it and only then stores it into d.dbs)
					if !held {
						var byCallers func(fn *ssa.Function, depth int) bool
						byCallers = func(fn *ssa.Function, depth int) bool {
							sites, ok2 := 0, true
							for _, cs := range callSitesOf(w)[fn] {
								g := cs.Parent()
								if strings.HasSuffix(w.fposFile(g), "_test.go") {
									continue
								}
								sites++
								if strings.Contains(g.Name(), "loadMemDB") || strings.Contains(g.Name(), "initMemoryDB") {
									continue
								}
								if h, _ := heldAt(g, cs, "mu", true); h {
									continue
								}
								// a helper of the memory database that is itself only called with the lock held
								if depth < 2 && g.Signature.Recv() != nil && typeIs(g.Signature.Recv().Type(), "datatype/neuronjson", "memdb") && byCallers(g, depth+1) {
									continue
								}
								ok2 = false
							}
							return sites > 0 && ok2
						}
						if byCallers(f, 0) {
							held = true
						}
					}
				}
				if reason, ok := r.exceptionFor("R16.2", construct+":under-mu"); ok && !held {
					r.ok(construct+":under-mu", "exception: "+reason, w.pos(in.Pos()))
					continue
				}
				r.check(held, construct+":under-mu", "memdb.mu is write-locked at the modification (here or in every caller)",
					"the in-memory database field "+name+" is modified without holding its mutex for writing: concurrent reads see a half-updated database / concurrent map writes crash the server", w.pos(in.Pos()))
			}
		}
	}
	if n < 4 {
		r.undecided("memdb-stores", fmt.Sprintf("only %d modifications of memdb fields found", n))
	}
}

// callersHold: every static call site of f (in its package) holds the lock class `name` for writing.
func callersHold(w *World, f *ssa.Function, name string) bool {
	n := 0
	for _, g := range w.RepoFuncs {
		if pkgPathOf(g) != pkgPathOf(f) {
			continue
		}
		for _, c := range calls(g) {
			if c.Common().StaticCallee() != f {
				continue
			}
			n++
			if held, _ := heldAt(g, c, name, true); !held {
				return false
			}
		}
	}
	return n > 0
}

func ruleR16_3(r *Run) {
	w := r.W
	n := 0
	for _, f := range njFuncs(w) {
		for _, c := range calls(f) {
			if !isMemDBLookup(c) {
				continue
			}
			n++
			a := c.Common().Args
			va := stripConv(a[len(a)-1])
			ok := false
			what := "?"
			switch x := va.(type) {
			case *ssa.Call:
				if callsMethodNamed(x, "VersionID") || isInvokeCall(x, "VersionID") {
					recv := x.Call.Value
					if !x.Call.IsInvoke() && len(x.Call.Args) > 0 {
						recv = x.Call.Args[0]
					}
					if p := ctxParamOf(recv, f); p != nil && (typeIs(p.Type(), "datastore", "VersionedCtx") || typeIs(p.Type(), "storage", "VersionedCtx") || typeIs(p.Type(), "storage", "Context")) {
						ok = true
						what = "VersionID() of context parameter " + p.Name()
					}
				}
			case *ssa.Parameter:
				if typeIs(x.Type(), "dvid", "VersionID") {
					ok = true
					what = "version parameter " + x.Name()
				}
			}
			r.check(ok, fmt.Sprintf("%s:memdb-selected-by-request-version#%d", fname(f), ordinalOf(c, f)), "selected by "+what,
				"the in-memory database is selected by something other than the request context's own version: answers for one version are served from another version's head copy", w.pos(c.Pos()))
		}
	}
	if n < 8 {
		r.undecided("memdb-lookups", fmt.Sprintf("only %d getMemDBbyVersion call sites found", n))
	}
}

func ordinalOf(c ssa.CallInstruction, f *ssa.Function) int {
	k := 0
	for _, x := range calls(f) {
		if x.Common().StaticCallee() == c.Common().StaticCallee() {
			k++
		}
		if x == c {
			return k
		}
	}
	return 0
}

func ruleR16_5(r *Run) {
	w := r.W
	f := w.method("datatype/neuronjson", "Data", "getMemDBbyVersion")
	if f == nil {
		r.violation("neuronjson.getMemDBbyVersion", "not found", "-")
		return
	}
	vparam := f.Params[len(f.Params)-1]
	// the branch-head comparison
	var cmp *ssa.If
	for _, b := range f.Blocks {
		ifi, ok := b.Instrs[len(b.Instrs)-1].(*ssa.If)
		if !ok {
			continue
		}
		bo, ok := ifi.Cond.(*ssa.BinOp)
		if !ok || bo.Op != token.EQL {
			continue
		}
		for _, pr := range [][2]ssa.Value{{bo.X, bo.Y}, {bo.Y, bo.X}} {
			if pr[1] == ssa.Value(vparam) {
				if ex, ok := pr[0].(*ssa.Extract); ok {
					if c, ok := ex.Tuple.(*ssa.Call); ok && isCallTo(c, "datastore", "", "GetBranchHead") {
						cmp = ifi
					}
				}
			}
		}
	}
	if !r.check(cmp != nil, "getMemDBbyVersion:compares-with-branch-head", "the requested version is compared with GetBranchHead's version",
		"getMemDBbyVersion no longer compares the requested version with the branch head reported by the datastore", w.fpos(f)) {
		return
	}
	// every read of a head database (a lookup in dbs.head) is behind the equal edge
	bad := ""
	n := 0
	for _, b := range f.Blocks {
		for _, in := range b.Instrs {
			lk, ok := in.(*ssa.Lookup)
			if !ok || !isFieldLoad(lk.X, "memdbs", "head") {
				continue
			}
			n++
			if !guardedByEdge(cmp, 0, lk) {
				bad = w.pos(lk.Pos())
			}
		}
	}
	r.check(n > 0 && bad == "", "getMemDBbyVersion:head-db-only-for-head-version", "a head database is read only on the 'version is the branch head' edge",
		"a head database can be returned for a version that is not the branch head: a committed parent is served from (and written into) the head copy", bad)
	// every database handed out comes from the pinned-version table or from the head table (read on the
	// edge above): no other cache of version → database may answer, since nothing would move it when the
	// branch head moves
	okOrigin := true
	badOrigin := ""
	for _, b := range f.Blocks {
		ret, ok := b.Instrs[len(b.Instrs)-1].(*ssa.Return)
		if !ok || len(ret.Results) == 0 {
			continue
		}
		for _, rt := range roots(ret.Results[0], f) {
			v := rt.V
			if ex, ok := v.(*ssa.Extract); ok {
				v = ex.Tuple
			}
			switch x := v.(type) {
			case *ssa.Const:
				continue
			case *ssa.Lookup:
				if isFieldLoad(x.X, "memdbs", "head") || isFieldLoad(x.X, "memdbs", "static") {
					continue
				}
			}
			okOrigin = false
			badOrigin = w.pos(ret.Pos())
		}
	}
	r.check(okOrigin, "getMemDBbyVersion:database-from-static-or-head-table", "every returned database is read from the pinned-version table or the head table",
		"getMemDBbyVersion can answer from another cache of version → database (e.g. a memo of earlier answers): after a commit and a new version the committed parent keeps being served from, and written into, the head's in-memory copy", firstNonEmpty(badOrigin, w.fpos(f)))
	// the error of GetBranchHead must be nil on that edge
	// loader decodes with the typed annotation type
	for _, g := range njFuncs(w) {
		if !strings.Contains(g.Name(), "loadMemDB") && g.Parent() == nil {
			continue
		}
		for _, c := range calls(g) {
			callee := c.Common().StaticCallee()
			if callee == nil || callee.String() != "encoding/json.Unmarshal" {
				continue
			}
			root := g
			for root.Parent() != nil {
				root = root.Parent()
			}
			if !strings.Contains(root.Name(), "loadMemDB") && !strings.Contains(root.Name(), "GetAll") && !strings.Contains(root.Name(), "processStoreRange") {
				continue
			}
			dst := c.Common().Args[1]
			t := dst.Type()
			if mi, ok := dst.(*ssa.MakeInterface); ok {
				t = mi.X.Type()
			}
			if p, ok := t.(*types.Pointer); ok {
				t = p.Elem()
			}
			if _, isMap := t.Underlying().(*types.Map); !isMap {
				continue
			}
			r.check(typeIs(t, "datatype/neuronjson", "NeuronJSON"), fmt.Sprintf("%s:annotation-decoded-typed", fname(root)),
				"stored annotations are decoded into NeuronJSON (typed numbers and lists)",
				"stored annotations are decoded into an untyped map in "+root.Name()+" while the live write path and the store read path use the typed NeuronJSON decoder: after a restart the in-memory head answers queries on numbers and lists differently from the store", w.pos(c.Pos()))
		}
	}
}

func ruleR16_6(r *Run) {
	w := r.W
	n := 0
	for _, f := range njFuncs(w) {
		nm := f.Name()
		if strings.Contains(nm, "load") || strings.Contains(nm, "Initialize") || strings.Contains(nm, "init") || nm == "GobDecode" || strings.Contains(nm, "NewData") {
			continue
		}
		for _, b := range f.Blocks {
			for _, in := range b.Instrs {
				var fa *ssa.FieldAddr
				switch x := in.(type) {
				case *ssa.Store:
					fa, _ = x.Addr.(*ssa.FieldAddr)
				case *ssa.MapUpdate:
					if u, ok := x.Map.(*ssa.UnOp); ok {
						fa, _ = u.X.(*ssa.FieldAddr)
					}
				case *ssa.Call:
					if bi, ok := x.Call.Value.(*ssa.Builtin); ok && bi.Name() == "delete" {
						if u, ok := x.Call.Args[0].(*ssa.UnOp); ok {
							fa, _ = u.X.(*ssa.FieldAddr)
						}
					}
				}
				if fa == nil || !typeIs(fa.X.Type(), "datatype/neuronjson", "Data") {
					continue
				}
				name, _, _ := fieldName(fa)
				if name != "metadata" && name != "compiledSchema" {
					continue
				}
				n++
				guarded := false
				for _, b2 := range f.Blocks {
					ifi, ok := b2.Instrs[len(b2.Instrs)-1].(*ssa.If)
					if !ok {
						continue
					}
					if c, ok := ifi.Cond.(*ssa.Call); ok && (isInvokeCall(c, "Head") || callsMethodNamed(c, "Head")) && guardedByEdge(ifi, 0, in) {
						guarded = true
					}
				}
				r.check(guarded, fmt.Sprintf("%s:%s-written-only-at-head", fname(f), name), "behind the ctx.Head() edge",
					"the in-memory "+name+" cache that serves the branch head is written by a request on a version that need not be the head: a schema posted on another branch leaks into the head (and reverts at restart)", w.pos(in.Pos()))
			}
		}
	}
	if n < 2 {
		r.undecided("head-cache-writes", fmt.Sprintf("only %d writes of the head metadata cache found", n))
	}
}

// ctxParamOf resolves a context value (possibly the embedded *storage.DataContext of a
// *datastore.VersionedCtx, or an interface conversion) to the parameter it comes from.
func ctxParamOf(v ssa.Value, f *ssa.Function) *ssa.Parameter {
	for _, rv := range roots(v, f) {
		x := rv.V
		for i := 0; i < 6 && x != nil; i++ {
			x = stripConv(x)
			switch y := x.(type) {
			case *ssa.Parameter:
				return y
			case *ssa.UnOp:
				x = y.X
			case *ssa.FieldAddr:
				x = y.X
			case *ssa.Field:
				x = y.X
			default:
				x = nil
			}
		}
	}
	return nil
}
