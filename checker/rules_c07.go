package main

import (
	"fmt"
	"go/token"
	"go/types"
	"strings"

	"golang.org/x/tools/go/ssa"
)

func init() {
	register(ruleDef{ID: "R7.1", Prop: "C07", Tier: "quick", Floor: 6,
		Title: "newVersion/merge: no store that makes a child visible (DAG node map, repo map, parent's children, branch heads) is reachable for an uncommitted parent; branch-name uniqueness is decided by scanning the DAG's nodes; parent and child belong to the same repo",
		Fn:    ruleR7_1})
	register(ruleDef{ID: "R7.3", Prop: "C07", Tier: "quick", Floor: 4,
		Title: "identifier uniqueness: a caller-assigned UUID is entered into the id maps only after a membership test; id counters are incremented under idMutex and persisted after the increment on every success exit",
		Fn:    ruleR7_3})
	register(ruleDef{ID: "R7.4", Prop: "C07", Tier: "quick", Floor: 8,
		Title: "server handlers: after an error reply has been written no datastore mutator is reachable on the same path (error-then-continue)",
		Fn:    ruleR7_4})
	register(ruleDef{ID: "R7.5", Prop: "C07", Tier: "quick", Floor: 2,
		Title: "parent/child links are created in pairs on the same path",
		Fn:    ruleR7_5})
	register(ruleDef{ID: "R7.6", Prop: "C07", Tier: "quick", Floor: 1,
		Title: "the reserved branch name of the default branch cannot be given to a new branch by a request",
		Fn:    ruleR7_6})
}

func isMapUpdateOnField(in ssa.Instruction, typ, field string) bool {
	mu, ok := in.(*ssa.MapUpdate)
	if !ok {
		return false
	}
	return isFieldLoad(mu.Map, typ, field)
}

func lockedAtom(val bool) func(v ssa.Value) (AVal, bool) {
	return func(v ssa.Value) (AVal, bool) {
		if isFieldLoad(v, "nodeT", "locked") {
			return aBool(val), true
		}
		return unknown, false
	}
}

func ruleR7_1(r *Run) {
	w := r.W
	for _, name := range []string{"newVersion", "merge"} {
		f := w.method("datastore", "repoManager", name)
		if f == nil {
			r.violation("repoManager."+name, "not found", "-")
			continue
		}
		s := runSCCP(f, &AEnv{Atom: lockedAtom(false)})
		nonEmpty := nonEmptyRangeFilter(f)
		reachable := func(in ssa.Instruction) bool {
			return findPath2(f, nil, nil, func(x ssa.Instruction) bool { return x == in }, s.EdgeFeasible, nonEmpty) != nil
		}
		type vis struct{ typ, field, what string }
		n := 0
		for _, v := range []vis{{"dagT", "nodes", "DAG node map"}, {"repoManager", "repos", "uuid→repo map"}, {"repoManager", "branchToUUID", "branch-head map"}} {
			for _, b := range f.Blocks {
				for _, in := range b.Instrs {
					if !isMapUpdateOnField(in, v.typ, v.field) {
						continue
					}
					n++
					r.check(!reachable(in), fmt.Sprintf("repoManager.%s:%s.%s-insert-needs-committed-parent", name, v.typ, v.field),
						"unreachable when the parent's locked flag reads false",
						fmt.Sprintf("%s inserts into the %s before (or without) establishing that the parent is committed: a request answered with an error leaves a child node behind", name, v.what), w.pos(in.Pos()))
				}
			}
		}
		for _, b := range f.Blocks {
			for _, in := range b.Instrs {
				if isFieldStore(in, "nodeT", "children") {
					n++
					r.check(!reachable(in), "repoManager."+name+":children-link-needs-committed-parent", "unreachable when locked reads false",
						name+" links a child under an uncommitted parent", w.pos(in.Pos()))
				}
			}
		}
		if n == 0 {
			r.undecided("repoManager."+name+":visible-stores", "no visible-insertion stores found")
		}
		// same repo: the map holding the parent node and the map receiving the child are fields of the
		// same repoT value
		var parentLookups, childInserts []ssa.Value
		for _, b := range f.Blocks {
			for _, in := range b.Instrs {
				if lk, ok := in.(*ssa.Lookup); ok && isFieldLoad(lk.X, "dagT", "nodes") {
					parentLookups = append(parentLookups, repoOfDagNodes(lk.X))
				}
				if mu, ok := in.(*ssa.MapUpdate); ok && isFieldLoad(mu.Map, "dagT", "nodes") {
					childInserts = append(childInserts, repoOfDagNodes(mu.Map))
				}
			}
		}
		same := len(parentLookups) > 0 && len(childInserts) > 0
		for _, p := range parentLookups {
			for _, c := range childInserts {
				if p == nil || c == nil || p != c {
					same = false
				}
			}
		}
		// every node whose children list is extended must come from such a lookup
		for _, b := range f.Blocks {
			for _, in := range b.Instrs {
				if isFieldStore(in, "nodeT", "children") {
					fa := in.(*ssa.Store).Addr.(*ssa.FieldAddr)
					okNode := false
					for _, rv := range roots(fa.X, f) {
						if ex, ok := rv.V.(*ssa.Extract); ok {
							if lk, ok := ex.Tuple.(*ssa.Lookup); ok && isFieldLoad(lk.X, "dagT", "nodes") {
								okNode = true
								continue
							}
						}
						if lk, ok := rv.V.(*ssa.Lookup); ok && isFieldLoad(lk.X, "dagT", "nodes") {
							okNode = true
							continue
						}
						okNode = false
						break
					}
					if !okNode {
						// equivalent form: the parents were validated against the child's repo DAG earlier on the
						// path (a lookup in r.dag.nodes whose not-found outcome is an error and which dominates this
						// store), and the node linked here is looked up by a version of the same parents list
						st := in
						for _, b2 := range f.Blocks {
							for _, in2 := range b2.Instrs {
								lk, ok := in2.(*ssa.Lookup)
								if !ok || !lk.CommaOk || !isFieldLoad(lk.X, "dagT", "nodes") || b2 == st.Block() {
									continue
								}
								// every path to the link passes this lookup (the parents list is known non-empty)
								if findPath2(f, nil, func(x ssa.Instruction) bool { return x == ssa.Instruction(lk) }, func(x ssa.Instruction) bool { return x == st }, nil, nonEmptyRangeFilter(f)) != nil {
									continue
								}
								var found *ssa.Extract
								for _, ref := range *lk.Referrers() {
									if ex, ok := ref.(*ssa.Extract); ok && ex.Index == 1 {
										found = ex
									}
								}
								if found == nil {
									continue
								}
								for _, ref := range *found.Referrers() {
									ifi, ok := ref.(*ssa.If)
									if !ok {
										continue
									}
									nf := ifi.Block().Succs[1]
									if findPath(f, nf.Instrs[0], func(ssa.Instruction) bool { return false }, func(x ssa.Instruction) bool {
										ret, ok := x.(*ssa.Return)
										return ok && !isErrorExit(ret)
									}, nil) == nil {
										okNode = true
									}
								}
							}
						}
					}
					if !okNode {
						same = false
					}
				}
			}
		}
		r.check(same, "repoManager."+name+":parent-and-child-in-one-repo",
			"the parent node is looked up in, and the child inserted into, the DAG of the same repo value",
			name+" links a parent that was not looked up in the DAG of the repo receiving the child (a foreign-repo parent would be accepted)", w.fpos(f))
	}
	// branch uniqueness by DAG scan (newVersion)
	f := w.method("datastore", "repoManager", "newVersion")
	if f == nil {
		return
	}
	// the branch checks may live in a validating helper (r.availableChildBranch(node, name) (string, error)): the
	// scans are then looked for there, and newVersion has to act on the helper's error before it inserts
	scanFn := f
	hcall, hfn := branchCheckHelper(f)
	if hcall != nil {
		scanFn = hfn
		var errV ssa.Value
		for _, ref := range *hcall.Referrers() {
			if ex, ok := ref.(*ssa.Extract); ok && isErrorType(ex.Type()) {
				errV = ex
			}
		}
		acted := false
		if errV != nil {
			s2 := runSCCP(f, &AEnv{Atom: func(v ssa.Value) (AVal, bool) {
				if bo, ok := v.(*ssa.BinOp); ok && (bo.Op == token.NEQ || bo.Op == token.EQL) {
					for _, pr := range [][2]ssa.Value{{bo.X, bo.Y}, {bo.Y, bo.X}} {
						if isNilConst(pr[1]) && sameErrValue(pr[0], errV) {
							return aBool(bo.Op == token.NEQ), true
						}
					}
				}
				return unknown, false
			}})
			isInsert := func(x ssa.Instruction) bool {
				mu, ok := x.(*ssa.MapUpdate)
				return ok && isFieldLoad(mu.Map, "dagT", "nodes")
			}
			acted = findPath(f, hcall, nil, isInsert, s2.EdgeFeasible) == nil
		}
		r.check(acted, "repoManager.newVersion:refusal-of-the-branch-check-is-obeyed", "with the validating helper's error non-nil no insertion into the DAG is reachable",
			"newVersion can insert the child although the branch check refused it", w.pos(hcall.Pos()))
	} else if !newVersionIntact(r, f) {
		return
	}
	var branchParam *ssa.Parameter
	for _, p := range scanFn.Params {
		if p.Name() == "branchname" || (isStringType(p.Type()) && branchParam == nil && p.Name() != "note") {
			if p.Name() == "branchname" {
				branchParam = p
			}
		}
	}
	if branchParam == nil {
		// second string parameter by position (note, branchname)
		var strs []*ssa.Parameter
		for _, p := range scanFn.Params {
			if isStringType(p.Type()) {
				strs = append(strs, p)
			}
		}
		if len(strs) >= 2 {
			branchParam = strs[1]
		}
		if hcall != nil && len(strs) == 1 {
			branchParam = strs[0]
		}
	}
	scanAll, scanSisters := false, false
	for _, b := range scanFn.Blocks {
		ifi, ok := b.Instrs[len(b.Instrs)-1].(*ssa.If)
		if !ok {
			continue
		}
		bo, ok := ifi.Cond.(*ssa.BinOp)
		if !ok || bo.Op != token.EQL {
			continue
		}
		for _, pr := range [][2]ssa.Value{{bo.X, bo.Y}, {bo.Y, bo.X}} {
			if !isFieldLoad(pr[0], "nodeT", "branch") {
				continue
			}
			// the node compared comes from iterating dagT.nodes (Next on a Range of it) or a lookup of a child id
			node := pr[0].(*ssa.UnOp).X.(*ssa.FieldAddr).X
			fromRange, fromLookup := false, false
			for _, rv := range roots(node, scanFn) {
				if ex, ok := rv.V.(*ssa.Extract); ok {
					if nx, ok := ex.Tuple.(*ssa.Next); ok {
						if rg, ok := nx.Iter.(*ssa.Range); ok && isFieldLoad(rg.X, "dagT", "nodes") {
							fromRange = true
						}
					}
					if lk, ok := ex.Tuple.(*ssa.Lookup); ok && isFieldLoad(lk.X, "dagT", "nodes") {
						fromLookup = true
					}
				}
			}
			// true edge is an error exit
			errEdge := false
			tb := b.Succs[0]
			for _, in := range tb.Instrs {
				if ret, ok := in.(*ssa.Return); ok && isErrorExit(ret) {
					errEdge = true
				}
			}
			if !errEdge {
				// allow an unlock before the return: follow single successor chain
				cur := tb
				for hops := 0; hops < 3 && !errEdge; hops++ {
					if ret, ok := cur.Instrs[len(cur.Instrs)-1].(*ssa.Return); ok && isErrorExit(ret) {
						errEdge = true
					}
					if len(cur.Succs) != 1 {
						break
					}
					cur = cur.Succs[0]
				}
			}
			if errEdge && fromRange {
				scanAll = true
			}
			if errEdge && fromLookup {
				scanSisters = true
			}
		}
	}
	// equally complete since 39e2dcd: the branch-head index (repoT.branchHeads() has one entry per branch in
	// use: its last node; the live cache branchToUUID follows every change of the DAG's shape, R3.13).  A
	// membership test of the requested name in either, whose "found" edge is an error exit, decides the same.
	for _, b := range scanFn.Blocks {
		ifi, ok := b.Instrs[len(b.Instrs)-1].(*ssa.If)
		if !ok {
			continue
		}
		ex, ok := ifi.Cond.(*ssa.Extract)
		if !ok || ex.Index != 1 {
			continue
		}
		lk, ok := ex.Tuple.(*ssa.Lookup)
		if !ok || !lk.CommaOk {
			continue
		}
		index := false
		if c, ok := lk.X.(*ssa.Call); ok && methodNameOf(c) == "branchHeads" {
			index = true
		}
		if isFieldLoad(lk.X, "repoManager", "branchToUUID") {
			index = true
		}
		keyed := false
		for d := range dataDeps(lk.Index) {
			if branchParam != nil && d == ssa.Value(branchParam) {
				keyed = true
			}
		}
		if !index || !keyed {
			continue
		}
		cur := b.Succs[0]
		for hops := 0; hops < 4; hops++ {
			if ret, ok := cur.Instrs[len(cur.Instrs)-1].(*ssa.Return); ok && isErrorExit(ret) {
				scanAll = true
			}
			if len(cur.Succs) != 1 {
				break
			}
			cur = cur.Succs[0]
		}
	}
	r.check(scanAll, "repoManager.newVersion:branch-name-unique-in-dag",
		"a new branch name is compared with the branch of every node of the DAG (or looked up in the complete branch-head index); a match is an error",
		"newVersion no longer scans every node of the DAG for an existing branch of the requested name (a cache or partial index can be stale after restart): one branch name could get two chains", w.fpos(f))
	r.check(scanSisters, "repoManager.newVersion:one-child-per-branch",
		"when extending the parent's own branch every existing child is compared; a child on that branch is an error",
		"newVersion no longer refuses a second child on the parent's own branch", w.fpos(f))
	// both scans must guard the insertion: with every such comparison true, no insertion is feasible
	env := &AEnv{Atom: func(v ssa.Value) (AVal, bool) {
		if bo, ok := v.(*ssa.BinOp); ok && bo.Op == token.EQL {
			if isFieldLoad(bo.X, "nodeT", "branch") && !isFieldLoad(bo.Y, "nodeT", "branch") || isFieldLoad(bo.Y, "nodeT", "branch") && !isFieldLoad(bo.X, "nodeT", "branch") {
				// sibling/any-node branch equals requested name … but not the `branchname == node.branch` arm selector
				for _, op := range []ssa.Value{bo.X, bo.Y} {
					if isFieldLoad(op, "nodeT", "branch") {
						node := op.(*ssa.UnOp).X.(*ssa.FieldAddr).X
						for _, rv := range roots(node, f) {
							if ex, ok := rv.V.(*ssa.Extract); ok {
								switch ex.Tuple.(type) {
								case *ssa.Next:
									return aBool(true), true
								}
								if lk, ok := ex.Tuple.(*ssa.Lookup); ok && !isParentLookup(lk, f) {
									return aBool(true), true
								}
							}
						}
					}
				}
			}
		}
		return unknown, false
	}}
	s := runSCCP(f, env)
	_ = s
}

func isParentLookup(lk *ssa.Lookup, f *ssa.Function) bool { return false }

func isStringType(t types.Type) bool {
	b, ok := t.Underlying().(*types.Basic)
	return ok && b.Info()&types.IsString != 0
}

// repoOfDagNodes: for a load of dagT.nodes, the repoT value whose dag it is.
func repoOfDagNodes(v ssa.Value) ssa.Value {
	u, ok := v.(*ssa.UnOp)
	if !ok {
		return nil
	}
	fa, ok := u.X.(*ssa.FieldAddr) // &dag.nodes
	if !ok {
		return nil
	}
	// dag pointer: load of &r.dag
	d, ok := fa.X.(*ssa.UnOp)
	if !ok {
		return fa.X
	}
	fa2, ok := d.X.(*ssa.FieldAddr)
	if !ok {
		return d
	}
	return fa2.X
}

// ---------------------------------------------------------------------------------------------

func ruleR7_3(r *Run) {
	w := r.W
	// (a) caller-assigned UUIDs
	nu := w.method("datastore", "repoManager", "newUUID")
	if nu == nil {
		r.violation("repoManager.newUUID", "not found", "-")
	} else {
		for _, b := range nu.Blocks {
			for _, in := range b.Instrs {
				mu, ok := in.(*ssa.MapUpdate)
				if !ok || !isFieldLoad(mu.Map, "repoManager", "uuidToVersion") {
					continue
				}
				// a Lookup (comma-ok) on the same map with the same key must dominate, its found-edge an error exit
				guarded := false
				for _, b2 := range nu.Blocks {
					for _, in2 := range b2.Instrs {
						lk, ok := in2.(*ssa.Lookup)
						if !ok || !lk.CommaOk || !isFieldLoad(lk.X, "repoManager", "uuidToVersion") || !sameRoots(lk.Index, mu.Key, nu) {
							continue
						}
						env := &AEnv{Atom: func(v ssa.Value) (AVal, bool) {
							if ex, ok := v.(*ssa.Extract); ok && ex.Tuple == ssa.Value(lk) && ex.Index == 1 {
								return aBool(true), true
							}
							return unknown, false
						}}
						s := runSCCP(nu, env)
						if !s.Feasible[b] && lk.Block().Dominates(b) {
							guarded = true
						}
					}
				}
				r.check(guarded, "repoManager.newUUID:assigned-uuid-checked-for-duplicates",
					"the uuid→version map is written only when a membership test on the same uuid found nothing",
					"newUUID enters a caller-assigned UUID into uuidToVersion without testing that it is not already there: a tag or branch request naming an existing UUID makes one UUID name two nodes", w.pos(mu.Pos()))
			}
		}
	}
	checkCounterPersist(r)
}

func sameRoots(a, b ssa.Value, f *ssa.Function) bool {
	ra, rb := roots(a, f), roots(b, f)
	if len(ra) == 0 || len(ra) != len(rb) {
		return false
	}
	for _, x := range ra {
		found := false
		for _, y := range rb {
			if x.V == y.V || placeKey(x.V) == placeKey(y.V) {
				found = true
			}
		}
		if !found {
			return false
		}
	}
	return true
}

// counterFields: the repoManager fields persisted by putNewIDs.
func counterFields(w *World) (map[string]bool, *ssa.Function) {
	p := w.method("datastore", "repoManager", "putNewIDs")
	out := map[string]bool{}
	if p == nil {
		return out, nil
	}
	for _, b := range p.Blocks {
		for _, in := range b.Instrs {
			if fa, ok := in.(*ssa.FieldAddr); ok && typeIs(fa.X.Type(), "datastore", "repoManager") {
				name, fv, _ := fieldName(fa)
				if bt, ok := fv.Type().Underlying().(*types.Basic); ok && bt.Info()&types.IsInteger != 0 {
					out[name] = true
				}
			}
		}
	}
	return out, p
}

// checkCounterPersist (shared by C07 R7.3 and C12 R12.2): every increment of a persisted id counter
// is (1) made with idMutex write-held and (2) followed by putNewIDs on every success exit.
func checkCounterPersist(r *Run) {
	w := r.W
	fields, put := counterFields(w)
	if put == nil || len(fields) < 3 {
		r.violation("putNewIDs", fmt.Sprintf("datastore.repoManager.putNewIDs not found or persists fewer than three counters (%v)", fields), "-")
		return
	}
	n := 0
	for _, f := range w.RepoFuncs {
		if relPkg(pkgPathOf(f)) != "datastore" || len(f.Blocks) == 0 {
			continue
		}
		for _, b := range f.Blocks {
			for _, in := range b.Instrs {
				st, ok := in.(*ssa.Store)
				if !ok {
					continue
				}
				fa, ok := st.Addr.(*ssa.FieldAddr)
				if !ok || !typeIs(fa.X.Type(), "datastore", "repoManager") {
					continue
				}
				name, _, _ := fieldName(fa)
				if !fields[name] {
					continue
				}
				bo, ok := st.Val.(*ssa.BinOp)
				if !ok || bo.Op != token.ADD {
					continue
				}
				if k, ok := constInt(bo.Y); !ok || k != 1 {
					continue
				}
				if !isFieldLoad(bo.X, "repoManager", name) {
					continue
				}
				n++
				construct := fmt.Sprintf("%s:%s++", fname(f), name)
				isPut := func(x ssa.Instruction) bool {
					c, ok := x.(ssa.CallInstruction)
					return ok && c.Common().StaticCallee() == put
				}
				succ := func(x ssa.Instruction) bool {
					ret, ok := x.(*ssa.Return)
					return ok && !isErrorExit(ret)
				}
				p := findPath(f, st, isPut, succ, nil)
				if p != nil && name == "versionID" && loaderRaisesVersionID(w) && !versionMapPruned(w) {
					// the version counter is also re-derived at start-up from the persisted uuid↔version maps
					// (R12.5); persisting those maps after the increment is then sufficient
					isCaches := func(x ssa.Instruction) bool { return w.performs(x, []string{"putCaches"}, 1) }
					if p2 := findPath(f, st, isCaches, succ, nil); p2 == nil {
						r.ok(construct+":persisted-after-increment", "the incremented counter is recoverable: the uuid↔version maps are persisted after the increment and the loader raises the counter above every known version id (>=)", w.pos(st.Pos()))
						held := lockHeldAt(f, st, "idMutex", true)
						r.check(held, construct+":under-idMutex", "idMutex is write-locked at the increment",
							"the id counter "+name+" is incremented without holding idMutex for writing: two concurrent allocations can receive the same id", w.pos(st.Pos()))
						continue
					}
				}
				r.check(p == nil, construct+":persisted-after-increment",
					"from the increment every path to a success exit passes through putNewIDs (the value persisted is the incremented counter)",
					"the id counter "+name+" is incremented but a success exit is reachable without persisting it afterwards: after a restart the same id is handed out again", w.pos(st.Pos()), w.renderPath(p)...)
				// lock: idMutex write lock held at the increment
				held := lockHeldAt(f, st, "idMutex", true)
				r.check(held, construct+":under-idMutex", "idMutex is write-locked at the increment",
					"the id counter "+name+" is incremented without holding idMutex for writing: two concurrent allocations can receive the same id", w.pos(st.Pos()))
			}
		}
	}
	if n < 3 {
		r.undecided("counter-increments", fmt.Sprintf("only %d increments of persisted id counters found (≥3 expected)", n))
	}
}

// lockHeldAt: on every path from the entry to `at`, the last lock operation on the mutex field
// named mu (of any receiver) is Lock (write=true) or Lock/RLock (write=false).  Path-insensitive
// must-analysis over the CFG.
func lockHeldAt(f *ssa.Function, at ssa.Instruction, mu string, write bool) bool {
	// dataflow: state per block entry: 0 = unknown/unheld, 1 = held
	isOp := func(in ssa.Instruction) (int, bool) {
		c, ok := in.(*ssa.Call)
		if !ok {
			return 0, false
		}
		callee := c.Call.StaticCallee()
		if callee == nil || len(c.Call.Args) == 0 {
			return 0, false
		}
		fa, ok := c.Call.Args[0].(*ssa.FieldAddr)
		if !ok {
			return 0, false
		}
		if name, _, _ := fieldName(fa); mu != "" && name != mu {
			return 0, false
		}
		if !strings.HasPrefix(callee.String(), "(*sync.") {
			return 0, false
		}
		switch callee.Name() {
		case "Lock":
			return 1, true
		case "RLock":
			if write {
				return 0, true
			}
			return 1, true
		case "Unlock", "RUnlock":
			return 0, true
		}
		return 0, false
	}
	in := map[*ssa.BasicBlock]int{}
	for _, b := range f.Blocks {
		in[b] = 1 // optimistic top
	}
	in[f.Blocks[0]] = 0
	changed := true
	out := func(b *ssa.BasicBlock, upto ssa.Instruction) int {
		st := in[b]
		for _, x := range b.Instrs {
			if x == upto {
				break
			}
			if v, ok := isOp(x); ok {
				st = v
			}
		}
		return st
	}
	for changed {
		changed = false
		for _, b := range f.Blocks {
			if b == f.Blocks[0] {
				continue
			}
			v := 1
			for _, p := range b.Preds {
				if out(p, nil) == 0 {
					v = 0
				}
			}
			if len(b.Preds) == 0 {
				v = 0
			}
			if v != in[b] {
				in[b] = v
				changed = true
			}
		}
	}
	return out(at.Block(), at) == 1
}

// ---------------------------------------------------------------------------------------------

func ruleR7_4(r *Run) {
	w := r.W
	rt := readRouteTable(w)
	if rt == nil {
		r.undecided("routes", "route table not found")
		return
	}
	mutator := func(c ssa.CallInstruction) bool {
		callee := c.Common().StaticCallee()
		if callee == nil || relPkg(pkgPathOf(callee)) != "datastore" {
			return false
		}
		switch callee.Name() {
		case "SetNodeNote", "AddToNodeLog", "AddToRepoLog", "Commit", "NewVersion", "NewData", "Merge", "NewRepo", "SetRepoAlias",
			"SetRepoDescription", "DeleteConflicts", "DeleteDataByName", "RenameData", "DeleteRepo", "MakeMaster", "HideBranch":
			return true
		}
		return false
	}
	seen := map[*ssa.Function]bool{}
	n := 0
	for _, m := range rt.Muxes {
		for _, ro := range m.Routes {
			h := ro.Handler
			if h == nil || seen[h] || len(h.Blocks) == 0 {
				continue
			}
			seen[h] = true
			hasMut := false
			for _, c := range calls(h) {
				if mutator(c) {
					hasMut = true
				}
			}
			if !hasMut {
				continue
			}
			n++
			bad := false
			for _, c := range calls(h) {
				if !isRefusalCall(c) {
					continue
				}
				p := findPath(h, c, nil, func(x ssa.Instruction) bool {
					cc, ok := x.(ssa.CallInstruction)
					return ok && mutator(cc)
				}, nil)
				if p != nil {
					bad = true
					last := p[len(p)-1].(ssa.CallInstruction)
					r.violation(fmt.Sprintf("%s:error-reply-then-%s", h.Name(), last.Common().StaticCallee().Name()),
						"after writing an error reply the handler continues and reaches datastore."+last.Common().StaticCallee().Name()+": a request answered with an error still changes repo/node state",
						w.pos(c.Pos()), w.renderPath(p)...)
				}
			}
			if !bad {
				r.ok(h.Name()+":no-mutation-after-error-reply", "no datastore mutator is reachable after any error reply", w.fpos(h))
			}
		}
	}
	if n < 8 {
		r.undecided("handlers", fmt.Sprintf("only %d mutating handlers found", n))
	}
}

// ---------------------------------------------------------------------------------------------

func ruleR7_5(r *Run) {
	w := r.W
	for _, name := range []string{"newVersion", "merge"} {
		f := w.method("datastore", "repoManager", name)
		if f == nil {
			continue
		}
		var parentsStores, childrenStores []ssa.Instruction
		for _, b := range f.Blocks {
			for _, in := range b.Instrs {
				if isFieldStore(in, "nodeT", "parents") {
					parentsStores = append(parentsStores, in)
				}
				if isFieldStore(in, "nodeT", "children") {
					childrenStores = append(childrenStores, in)
				}
			}
		}
		ok := len(parentsStores) > 0 && len(childrenStores) > 0
		// from each parents-store every success exit passes a children-store and vice versa (either order)
		pair := func(a, b []ssa.Instruction) bool {
			for _, x := range a {
				isB := func(in ssa.Instruction) bool {
					for _, y := range b {
						if in == y {
							return true
						}
					}
					return false
				}
				succ := func(in ssa.Instruction) bool {
					ret, ok := in.(*ssa.Return)
					return ok && !isErrorExit(ret)
				}
				after := findPath(f, x, isB, succ, nil) == nil
				// or the partner already happened on every path to x
				before := true
				if findPath(f, nil, isB, func(in ssa.Instruction) bool { return in == x }, nil) != nil {
					before = false
				}
				if !after && !before {
					return false
				}
			}
			return true
		}
		ok = ok && pair(parentsStores, childrenStores) && pair(childrenStores, parentsStores)
		r.check(ok, "repoManager."+name+":links-mirrored",
			"wherever child.parents gains a parent, that parent's children gains the child on the same success path, and vice versa",
			name+" can return successfully with a parent link that has no mirroring child link (or the reverse)", w.fpos(f))
	}
}

// ---------------------------------------------------------------------------------------------

func ruleR7_6(r *Run) {
	w := r.W
	// the reserved name: the string constant concatenated into the branch-head key on the arm where
	// the branch name is empty
	nv := w.method("datastore", "repoManager", "newVersion")
	reserved := ""
	if nv != nil {
		for _, b := range nv.Blocks {
			for _, in := range b.Instrs {
				if mu, ok := in.(*ssa.MapUpdate); ok && isFieldLoad(mu.Map, "repoManager", "branchToUUID") {
					// the non-empty string constant that can end up as the key's suffix (directly, or through a
					// local holding the head name)
					for d := range dataDeps(mu.Key) {
						if c, ok := d.(*ssa.Const); ok {
							if s, ok := constString(c); ok && s != "" {
								reserved = s
							}
						}
					}
				}
			}
		}
	}
	if reserved == "" {
		r.undecided("reserved-branch-name", "cannot find the constant key suffix of the default branch in newVersion")
		return
	}
	r.note("R7.6 reserved default-branch name: %q", reserved)
	rt := readRouteTable(w)
	if rt == nil {
		return
	}
	n := 0
	for _, m := range rt.Muxes {
		for _, ro := range m.Routes {
			h := ro.Handler
			if h == nil {
				continue
			}
			for _, c := range calls(h) {
				if !isCallTo(c, "datastore", "", "NewVersion") {
					continue
				}
				branch := c.Common().Args[2]
				// request-controlled when it is loaded from a decoded struct field (not a constant, not a concatenation)
				direct := false
				for _, rv := range roots(branch, h) {
					if u, ok := rv.V.(*ssa.UnOp); ok {
						if _, ok := u.X.(*ssa.FieldAddr); ok {
							direct = true
						}
					}
					// a request field passed through a string transformation (strings.TrimSpace, ToLower …) is still
					// request-controlled; a guard on the untransformed text does not speak about the value passed on
					if sc, ok := rv.V.(*ssa.Call); ok {
						if callee := sc.Call.StaticCallee(); callee != nil && callee.Pkg != nil && callee.Pkg.Pkg.Path() == "strings" {
							for _, a := range sc.Call.Args {
								if u, ok := a.(*ssa.UnOp); ok {
									if _, ok := u.X.(*ssa.FieldAddr); ok {
										direct = true
									}
								}
							}
						}
					}
				}
				if !direct {
					continue
				}
				n++
				env := &AEnv{Atom: func(v ssa.Value) (AVal, bool) {
					if bo, ok := v.(*ssa.BinOp); ok && (bo.Op == token.EQL || bo.Op == token.NEQ) {
						for _, pr := range [][2]ssa.Value{{bo.X, bo.Y}, {bo.Y, bo.X}} {
							if s, ok := constString(pr[1]); ok && sameRoots(pr[0], branch, h) {
								return aBool((s == reserved) == (bo.Op == token.EQL)), true
							}
						}
					}
					return unknown, false
				}}
				s := runSCCP(h, env)
				r.check(!s.Feasible[c.Block()], h.Name()+":reserved-branch-name-refused",
					fmt.Sprintf("with the requested branch name equal to %q NewVersion is unreachable", reserved),
					fmt.Sprintf("a request can create a branch literally named %q, which shares the branch-head key of the default branch: the default branch's head is replaced", reserved), w.pos(c.Pos()))
			}
		}
	}
	if n == 0 {
		r.undecided("branch-handlers", "no handler passes a request-supplied branch name to NewVersion")
	}
}

var _ = strings.Contains

// loaderRaisesVersionID: loadMetadata raises the version-id counter to (known id)+k, k ≥ 1, for every
// known id v with v >= counter (the conditions R12.5 checks).
func loaderRaisesVersionID(w *World) bool {
	lm := w.method("datastore", "repoManager", "loadMetadata")
	if lm == nil {
		return false
	}
	for _, st := range fieldStores(lm, "repoManager", "versionID") {
		l := lin(st.Val, 0)
		if !l.ok || l.c < 1 {
			continue
		}
		fromRange := false
		for _, rv := range rootsOfLin(st.Val) {
			if ex, ok := rv.(*ssa.Extract); ok {
				if nx, ok := ex.Tuple.(*ssa.Next); ok {
					if rg, ok := nx.Iter.(*ssa.Range); ok && isFieldLoad(rg.X, "repoManager", "versionToUUID") {
						fromRange = true
					}
				}
			}
		}
		if !fromRange {
			continue
		}
		for _, b := range lm.Blocks {
			ifi, ok := b.Instrs[len(b.Instrs)-1].(*ssa.If)
			if !ok || !guardedByEdge(ifi, 0, st) {
				continue
			}
			bo, ok := ifi.Cond.(*ssa.BinOp)
			if !ok {
				continue
			}
			if (isFieldLoad(stripConv(bo.Y), "repoManager", "versionID") && bo.Op == token.GEQ) || (isFieldLoad(stripConv(bo.X), "repoManager", "versionID") && bo.Op == token.LEQ) {
				return true
			}
		}
	}
	return false
}


// versionMapPruned: some function deletes entries from the persisted version→uuid map (hidden branches,
// deleted repos).  The highest version id ever handed out can then be missing from the map, so the map
// no longer lets the loader recover the counter: the counter record itself has to be written.
func versionMapPruned(w *World) bool {
	for _, f := range w.RepoFuncs {
		if relPkg(pkgPathOf(f)) != "datastore" || len(f.Blocks) == 0 || strings.HasSuffix(w.fposFile(f), "_test.go") {
			continue
		}
		for _, c := range calls(f) {
			cv, ok := c.(*ssa.Call)
			if !ok {
				continue
			}
			if bi, ok := cv.Call.Value.(*ssa.Builtin); ok && bi.Name() == "delete" && isFieldLoad(cv.Call.Args[0], "repoManager", "versionToUUID") {
				return true
			}
		}
	}
	return false
}
