package main

import (
	"fmt"
	"go/token"
	"go/types"
	"sort"
	"strings"

	"golang.org/x/tools/go/ssa"
)

// R20.12 / R19.6: contradiction rule.  If some method of a type tests one of the receiver's
// interface-typed fields for nil (so the code itself believes the field can be nil), another
// method of the same type must not call a method on that field without a nil test of its own.

func init() {
	register(ruleDef{ID: "R20.12", Prop: "C20", Tier: "quick", Floor: 4,
		Title: "optional fields are tested before use: an interface-typed field of dvid.Extents, which its own update methods test for nil (it is nil until data has been written), is not called through in another method without a nil test",
		Fn:    ruleNilField})
	register(ruleDef{ID: "R19.6", Prop: "C19", Tier: "quick", Floor: 4,
		Title: "copying properties cannot fail on an empty instance (shared with R20.12): duplicating the extents of an image-block instance tolerates extents that were never set",
		Fn:    ruleNilField})
}

// nilFieldTypes: the types the rule is armed for (confirmed by reading: the fields start out nil and
// are only set by the Adjust* methods once data arrives).
var nilFieldTypes = map[string]bool{"dvid.Extents": true}

func ruleNilField(r *Run) {
	w := r.W
	type fkey struct {
		typ   string
		field int
	}
	believedNil := map[fkey]string{}
	var methods []*ssa.Function
	for _, f := range w.RepoFuncs {
		if len(f.Blocks) == 0 || f.Parent() != nil || strings.HasSuffix(w.fposFile(f), "_test.go") {
			continue
		}
		rp := recvParam(f)
		if rp == nil {
			continue
		}
		pt, ok := rp.Type().(*types.Pointer)
		if !ok {
			continue
		}
		n := namedOf(pt.Elem())
		if n == nil || !nilFieldTypes[n.Obj().Pkg().Name()+"."+n.Obj().Name()] {
			continue
		}
		methods = append(methods, f)
		for _, b := range f.Blocks {
			for _, in := range b.Instrs {
				bo, ok := in.(*ssa.BinOp)
				if !ok || !(bo.Op == token.EQL || bo.Op == token.NEQ) || !isNilConst(bo.Y) {
					continue
				}
				if ld, ok := bo.X.(*ssa.UnOp); ok {
					if fa, ok := ld.X.(*ssa.FieldAddr); ok && fa.X == ssa.Value(rp) {
						believedNil[fkey{n.Obj().Name(), fa.Field}] = fname(f)
					}
				}
			}
		}
	}
	sort.Slice(methods, func(i, j int) bool { return fname(methods[i]) < fname(methods[j]) })
	nUse := 0
	for _, f := range methods {
		rp := recvParam(f)
		n := namedOf(rp.Type().(*types.Pointer).Elem())
		k := 0
		for _, c := range calls(f) {
			if !c.Common().IsInvoke() {
				continue
			}
			ld, ok := c.Common().Value.(*ssa.UnOp)
			if !ok {
				continue
			}
			fa, ok := ld.X.(*ssa.FieldAddr)
			if !ok || fa.X != ssa.Value(rp) {
				continue
			}
			by, believed := believedNil[fkey{n.Obj().Name(), fa.Field}]
			if !believed {
				continue
			}
			nUse++
			k++
			fldName, _, _ := fieldName(fa)
			// a dominating nil test of the same field whose non-nil edge leads here
			guarded := false
			for _, b := range f.Blocks {
				ifi, ok := b.Instrs[len(b.Instrs)-1].(*ssa.If)
				if !ok {
					continue
				}
				bo, ok := ifi.Cond.(*ssa.BinOp)
				if !ok || !(bo.Op == token.EQL || bo.Op == token.NEQ) || !isNilConst(bo.Y) {
					continue
				}
				l2, ok := bo.X.(*ssa.UnOp)
				if !ok {
					continue
				}
				fa2, ok := l2.X.(*ssa.FieldAddr)
				if !ok || fa2.X != ssa.Value(rp) || fa2.Field != fa.Field {
					continue
				}
				nonNil := 0
				if bo.Op == token.EQL {
					nonNil = 1
				}
				if guardedByEdge(ifi, nonNil, c) {
					guarded = true
				}
			}
			r.check(guarded, fmt.Sprintf("%s:%s#%d:nil-tested-before-call", fname(f), fldName, k), "the call through the field is on the non-nil edge of a test of that field",
				fmt.Sprintf("%s calls a method on the field %s without testing it for nil, although %s tests the same field for nil (it is unset until data has been written): the call panics with a nil dereference on an instance without data — in CopyInstance that is an unrecovered panic in a goroutine, which ends the server process", fname(f), fldName, by), w.pos(c.Pos()))
		}
	}
	r.check(nUse >= 4, "dvid.Extents:calls-through-optional-fields", fmt.Sprintf("%d calls through optional fields examined", nUse), "no such call found: rule needs review", "-")
}
