package main

import (
	"fmt"
	"go/token"
	"go/types"
	"strings"

	"golang.org/x/tools/go/ssa"
)

// C19: copying a data instance preserves its versioned content.  The rules look at the four copy
// engines of datastore/copy_local.go (copyData raw and flattened, copyVersions, TransferData) and
// at CopyInstance.  Each engine has the shape  scan(source) → channel → goroutine → write(dest).

func init() {
	register(ruleDef{ID: "R19.1", Prop: "C19", Tier: "quick", Floor: 8,
		Title: "destination-only writes: every storage write of the copy engines is on the destination store object, every scan on the source store object; CopyInstance hands copyData the stores of the source and of the new instance in that order; the flattened copy writes under a context of the destination instance at the scanned version",
		Fn:    ruleR19_1})
	register(ruleDef{ID: "R19.2", Prop: "C19", Tier: "quick", Floor: 3,
		Title: "rewrite before raw put: a raw key reaches RawPut only after the instance rewrite of that same key (and, for the version-limited copy, the version rewrite)",
		Fn:    ruleR19_2})
	register(ruleDef{ID: "R19.3", Prop: "C19", Tier: "quick", Floor: 12,
		Title: "scan completeness: the full copy scans the instance's whole key range with values; nothing received is dropped except by the filter, the version set or a reported error; tombstones are never singled out; the flattened copy scans the whole TKey range through the versioned ProcessRange and forwards every chunk",
		Fn:    ruleR19_3})
	register(ruleDef{ID: "R19.4", Prop: "C19", Tier: "quick", Floor: 4,
		Title: "properties copied and saved: CopyInstance invokes the PropertyCopier of the new instance with the source and persists the instance before copying; the data types the property names that persist extra properties implement PropertyCopier",
		Fn:    ruleR19_4})
	register(ruleDef{ID: "R19.5", Prop: "C19", Tier: "quick", Floor: 6,
		Title: "completion: a copy engine returns success only after waiting for its writer goroutine; the writer signals completion only on the end-of-stream marker, which the scan side always sends",
		Fn:    ruleR19_5})
}

type copyEngine struct {
	name     string
	f        *ssa.Function
	src, dst *ssa.Parameter
}

func c19Engines(r *Run) []copyEngine {
	w := r.W
	var out []copyEngine
	for _, e := range []struct{ name, src, dst string }{
		{"copyData", "oldKV", "newKV"}, {"copyVersions", "srcStore", "dstStore"}, {"TransferData", "srcStore", "dstStore"},
	} {
		f := w.fn("datastore", e.name)
		if f == nil {
			r.violation("datastore."+e.name, "copy engine not found", "-")
			continue
		}
		ce := copyEngine{name: e.name, f: f}
		if ce.src == nil || ce.dst == nil {
			// fall back on position: first two parameters of a store type
			var stores []*ssa.Parameter
			for _, p := range f.Params {
				if typeIs(p.Type(), "storage", "OrderedKeyValueDB") || typeIs(p.Type(), "dvid", "Store") {
					stores = append(stores, p)
				}
			}
			if len(stores) == 2 {
				ce.src, ce.dst = stores[0], stores[1]
			} else {
				r.undecided("datastore."+e.name, "cannot identify source and destination store parameters")
				continue
			}
		}
		out = append(out, ce)
	}
	return out
}

// paramsOfType: the function's parameters whose type is the named type pkg.name, in order.
func paramsOfType(f *ssa.Function, pkg, name string) []*ssa.Parameter {
	var out []*ssa.Parameter
	for _, p := range f.Params {
		if typeIs(p.Type(), pkg, name) {
			out = append(out, p)
		}
	}
	return out
}

// isNthParamOfType: v is the n-th (0-based) parameter of its function having the given type; the
// copy engines take (source, destination) pairs of stores, data instances and names in that order.
func isNthParamOfType(v ssa.Value, pkg, name string, n int) bool {
	p, ok := v.(*ssa.Parameter)
	if !ok || p.Parent() == nil {
		return false
	}
	ps := paramsOfType(p.Parent(), pkg, name)
	return n < len(ps) && ps[n] == p
}

// peelAssert looks through conversions and (comma-ok) type assertions.
func peelAssert(v ssa.Value) ssa.Value {
	for {
		v = stripConv(v)
		switch x := v.(type) {
		case *ssa.TypeAssert:
			v = x.X
		case *ssa.Extract:
			if ta, ok := x.Tuple.(*ssa.TypeAssert); ok && x.Index == 0 {
				v = ta.X
			} else {
				return v
			}
		default:
			return v
		}
	}
}

// storeRoots resolves a store-object value to its origins, looking through type assertions.
func storeRoots(v ssa.Value, fn *ssa.Function) []ssa.Value {
	var out []ssa.Value
	seen := map[ssa.Value]bool{}
	var rec func(v ssa.Value, fn *ssa.Function, d int)
	rec = func(v ssa.Value, fn *ssa.Function, d int) {
		if d > 6 {
			out = append(out, v)
			return
		}
		for _, rt := range roots(peelAssert(v), fn) {
			p := peelAssert(rt.V)
			if p != rt.V {
				rec(p, rt.Fn, d+1)
				continue
			}
			if !seen[p] {
				seen[p] = true
				out = append(out, p)
			}
		}
	}
	rec(v, fn, 0)
	return out
}

// ctxRoots is roots() looking through loads of an embedded *storage.DataContext field, so that
// `ctx.DataContext` resolves to the origins of ctx.
func ctxRoots(v ssa.Value, fn *ssa.Function) []rootVal {
	var out []rootVal
	var rec func(v ssa.Value, fn *ssa.Function, d int)
	rec = func(v ssa.Value, fn *ssa.Function, d int) {
		for _, rt := range roots(v, fn) {
			if ld, ok := rt.V.(*ssa.UnOp); ok && ld.Op == token.MUL && d < 4 {
				if fa, ok := ld.X.(*ssa.FieldAddr); ok {
					if nm, fv, _ := fieldName(fa); nm == "DataContext" && fv != nil && fv.Embedded() {
						rec(fa.X, rt.Fn, d+1)
						continue
					}
				}
			}
			out = append(out, rt)
		}
	}
	rec(v, fn, 0)
	return out
}

func onlyRoot(vs []ssa.Value, want ssa.Value) bool {
	if len(vs) == 0 {
		return false
	}
	for _, v := range vs {
		if v != want {
			return false
		}
	}
	return true
}

var scanMethods = map[string]bool{"RawRangeQuery": true, "ProcessRange": true, "GetRange": true, "SendKeysInRange": true, "KeysInRange": true}

func recvOfCall(c ssa.CallInstruction) ssa.Value {
	cc := c.Common()
	if cc.IsInvoke() {
		return cc.Value
	}
	if cc.Signature().Recv() != nil && len(cc.Args) > 0 {
		return cc.Args[0]
	}
	return nil
}

func methodNameOf(c ssa.CallInstruction) string {
	if c.Common().IsInvoke() {
		return c.Common().Method.Name()
	}
	if f := c.Common().StaticCallee(); f != nil {
		return f.Name()
	}
	return ""
}

func ruleR19_1(r *Run) {
	w := r.W
	sinks := w.newSinks()
	for _, e := range c19Engines(r) {
		nw, ns := 0, 0
		for _, fn := range withClosures(e.f) {
			for _, c := range calls(fn) {
				recv := recvOfCall(c)
				if recv == nil {
					continue
				}
				name := methodNameOf(c)
				if sinks.isStorageWrite(c) {
					nw++
					rs := storeRoots(recv, fn)
					r.check(onlyRoot(rs, e.dst), fmt.Sprintf("%s:%s:receiver-is-destination", e.name, name),
						"the write goes to the destination store parameter", "a storage write of the copy engine is not on the destination store (the source, or some other store, is modified by the copy)", w.pos(c.Pos()))
				} else if scanMethods[name] && c.Common().IsInvoke() {
					ns++
					rs := storeRoots(recv, fn)
					r.check(onlyRoot(rs, e.src), fmt.Sprintf("%s:%s:receiver-is-source", e.name, name),
						"the scan reads the source store parameter", "the copy engine scans a store other than its source", w.pos(c.Pos()))
				}
			}
		}
		r.check(nw > 0 && ns > 0, e.name+":has-scan-and-write", fmt.Sprintf("%d writes, %d scans", nw, ns), "copy engine without a scan of the source or a write to the destination", w.fpos(e.f))
	}
	// flattened copy: Put's context is a VersionedCtx of the destination data at the scanned version
	cd := w.fn("datastore", "copyData")
	if cd != nil {
		c19FlattenCtx(r, cd)
	}
	// CopyInstance → copyData(oldKV(d1), newKV(d2), d1, d2, uuid, …)
	ci := w.fn("datastore", "CopyInstance")
	if ci == nil || cd == nil {
		r.violation("datastore.CopyInstance", "not found", "-")
		return
	}
	var call ssa.CallInstruction
	for _, c := range calls(ci) {
		if c.Common().StaticCallee() == cd {
			call = c
		}
	}
	if call == nil {
		r.violation("CopyInstance:calls-copyData", "CopyInstance no longer calls copyData", w.fpos(ci))
		return
	}
	a := call.Common().Args
	dataOf := func(store ssa.Value) []ssa.Value {
		var out []ssa.Value
		for _, rt := range roots(store, ci) {
			v := rt.V
			if ex, ok := v.(*ssa.Extract); ok {
				v = ex.Tuple
			}
			c, ok := v.(*ssa.Call)
			if !ok || c.Common().StaticCallee() == nil || c.Common().StaticCallee().Name() != "GetOrderedKeyValueDB" {
				return nil
			}
			for _, r2 := range roots(c.Common().Args[0], ci) {
				out = append(out, originCall(r2.V))
			}
		}
		return out
	}
	originsOf := func(v ssa.Value) []ssa.Value {
		var out []ssa.Value
		for _, r2 := range roots(v, ci) {
			out = append(out, originCall(r2.V))
		}
		return out
	}
	isCallNamed := func(vs []ssa.Value, name string, argName string) bool {
		if len(vs) == 0 {
			return false
		}
		for _, v := range vs {
			c, ok := v.(*ssa.Call)
			if !ok || methodNameOf(c) != name {
				return false
			}
			found := false
			for _, a := range c.Common().Args {
				for _, rt := range roots(a, ci) {
					if isNthParamOfType(rt.V, "dvid", "InstanceName", map[string]int{"source": 0, "target": 1}[argName]) {
						found = true
					}
				}
			}
			if !found {
				return false
			}
		}
		return true
	}
	srcStoreData, dstStoreData := dataOf(a[0]), dataOf(a[1])
	d1, d2 := originsOf(a[2]), originsOf(a[3])
	pos := w.pos(call.Pos())
	r.check(isCallNamed(d1, "getDataByUUIDName", "source"), "CopyInstance:copyData:d1-is-source-instance", "d1 is the instance looked up by the source name",
		"copyData's source instance is not the one looked up by the source name", pos)
	r.check(isCallNamed(d2, "newData", "target"), "CopyInstance:copyData:d2-is-new-target-instance", "d2 is the instance newly created under the target name",
		"copyData's destination instance is not the newly created target instance", pos)
	r.check(isCallNamed(srcStoreData, "getDataByUUIDName", "source"), "CopyInstance:copyData:oldKV-is-source-store", "oldKV is the backing store of the source instance",
		"copyData's source store is not the backing store of the source instance", pos)
	r.check(isCallNamed(dstStoreData, "newData", "target"), "CopyInstance:copyData:newKV-is-destination-store", "newKV is the backing store of the new instance",
		"copyData's destination store is not the backing store of the new instance (writes would land in the wrong store)", pos)
	// the uuid handed on is CopyInstance's own
	uok := false
	for _, rt := range roots(a[4], ci) {
		if isNthParamOfType(rt.V, "dvid", "UUID", 0) {
			uok = true
		}
	}
	r.check(uok, "CopyInstance:copyData:uuid", "the copy version is the request's uuid", "copyData is given a uuid other than the request's", pos)
}

// originCall maps `Extract(call)#0` to the call.
func originCall(v ssa.Value) ssa.Value {
	if ex, ok := v.(*ssa.Extract); ok {
		return ex.Tuple
	}
	return v
}

// c19FlattenCtx: in copyData the Put of the flattened copy uses a context built by NewVersionedCtx
// from the destination data cell at the same version value as the scan's context.
func c19FlattenCtx(r *Run, cd *ssa.Function) {
	w := r.W
	var d1, d2 *ssa.Parameter
	if ds := paramsOfType(cd, "dvid", "Data"); len(ds) == 2 {
		d1, d2 = ds[0], ds[1]
	}
	if d1 == nil || d2 == nil {
		r.undecided("copyData:flatten-ctx", "parameters d1/d2 not found")
		return
	}
	// ctxInfo: NewVersionedCtx calls a ctx value originates from → (data param roots, version roots)
	type ctxInfo struct {
		call     *ssa.Call
		data     map[ssa.Value]bool
		versions []ssa.Value
	}
	info := func(v ssa.Value, fn *ssa.Function) ([]ctxInfo, bool) {
		var out []ctxInfo
		for _, rt := range roots(v, fn) {
			c, ok := rt.V.(*ssa.Call)
			if !ok || c.Common().StaticCallee() == nil || c.Common().StaticCallee().Name() != "NewVersionedCtx" {
				return nil, false
			}
			ci := ctxInfo{call: c, data: map[ssa.Value]bool{}}
			for _, r2 := range roots(c.Common().Args[0], rt.Fn) {
				ci.data[r2.V] = true
			}
			for _, r2 := range roots(c.Common().Args[1], rt.Fn) {
				ci.versions = append(ci.versions, originCall(r2.V))
			}
			out = append(out, ci)
		}
		return out, len(out) > 0
	}
	var scanCtx, putCtx []ctxInfo
	var putPos, scanPos string
	sinks := w.newSinks()
	for _, fn := range withClosures(cd) {
		for _, c := range calls(fn) {
			if !c.Common().IsInvoke() {
				continue
			}
			switch {
			case c.Common().Method.Name() == "ProcessRange":
				ci, ok := info(c.Common().Args[0], fn)
				if !ok {
					r.violation("copyData:ProcessRange:ctx", "the flattened scan's context is not built by NewVersionedCtx", w.pos(c.Pos()))
					return
				}
				scanCtx, scanPos = ci, w.pos(c.Pos())
			case c.Common().Method.Name() == "Put" && sinks.isStorageWrite(c):
				ci, ok := info(c.Common().Args[0], fn)
				if !ok {
					r.violation("copyData:Put:ctx", "the flattened copy's write context is not built by NewVersionedCtx", w.pos(c.Pos()))
					return
				}
				putCtx, putPos = ci, w.pos(c.Pos())
			}
		}
	}
	if scanCtx == nil || putCtx == nil {
		r.violation("copyData:flatten", "flattened copy lacks its versioned scan or its versioned Put", w.fpos(cd))
		return
	}
	// scan: data is d1 only, version from VersionFromUUID(uuid)
	okScan := len(scanCtx) == 1 && len(scanCtx[0].data) == 1 && scanCtx[0].data[d1]
	var ver ssa.Value
	if okScan && len(scanCtx[0].versions) == 1 {
		ver = scanCtx[0].versions[0]
		c, ok := ver.(*ssa.Call)
		okScan = ok && c.Common().StaticCallee() != nil && c.Common().StaticCallee().Name() == "VersionFromUUID"
		if okScan {
			okScan = false
			for _, rt := range roots(c.Common().Args[0], cd) {
				if isNthParamOfType(rt.V, "dvid", "UUID", 0) {
					okScan = true
				}
			}
		}
	} else {
		okScan = false
	}
	r.check(okScan, "copyData:flatten:scan-ctx", "the flattened scan resolves the source instance at VersionFromUUID(uuid)",
		"the flattened copy does not scan the source instance at the requested version", scanPos)
	// put: each originating ctx has the same version; its data reads the d2 cell, or it is the scan
	// ctx stored under the `d2 == nil` guard (same-instance migration)
	okPut := true
	why := ""
	for _, ci := range putCtx {
		if len(ci.versions) != 1 || ci.versions[0] != ver {
			okPut, why = false, "the destination context's version differs from the scanned version"
		}
		if ci.data[d2] {
			continue
		}
		if ci.call == scanCtx[0].call && c19StoredUnderNilGuard(ci.call, d2, cd) {
			continue
		}
		okPut, why = false, "a destination context is built from the source instance outside the d2 == nil (same instance) case"
	}
	r.check(okPut, "copyData:flatten:put-ctx", "the flattened values are written under the destination instance at the scanned version", "flattened copy writes under the wrong context: "+why, putPos)
}

// c19StoredUnderNilGuard: every use of ctx as a stored value (into a local cell) lies on the true
// edge of `d2 == nil`.
func c19StoredUnderNilGuard(ctx *ssa.Call, d2 *ssa.Parameter, f *ssa.Function) bool {
	n := 0
	for _, ref := range *ctx.Referrers() {
		st, ok := ref.(*ssa.Store)
		if !ok || st.Val != ssa.Value(ctx) {
			continue
		}
		// the primary cell (srcCtx itself) is not guarded; only stores into cells that also receive other ctxs matter
		al, ok := st.Addr.(*ssa.Alloc)
		if !ok {
			return false
		}
		others := 0
		for _, r2 := range *al.Referrers() {
			if s2, ok := r2.(*ssa.Store); ok && s2.Addr == ssa.Value(al) && s2 != st {
				others++
			}
		}
		if others == 0 {
			continue
		}
		n++
		guarded := false
		for _, b := range f.Blocks {
			ifi, ok := b.Instrs[len(b.Instrs)-1].(*ssa.If)
			if !ok {
				continue
			}
			bo, ok := ifi.Cond.(*ssa.BinOp)
			if !ok || (bo.Op != token.EQL && bo.Op != token.NEQ) || !(isNilConst(bo.Y) || isNilConst(bo.X)) {
				continue
			}
			x := bo.X
			if isNilConst(x) {
				x = bo.Y
			}
			isD2 := false
			for _, rt := range roots(x, f) {
				if rt.V == ssa.Value(d2) {
					isD2 = true
				}
			}
			// the nil edge: true edge of d2 == nil, false edge of d2 != nil
			nilEdge := 0
			if bo.Op == token.NEQ {
				nilEdge = 1
			}
			if isD2 && guardedByEdge(ifi, nilEdge, st) {
				guarded = true
			}
		}
		if !guarded {
			return false
		}
	}
	return true
}

// ---------------------------------------------------------------------------------------------
// R19.2

// nonNilCtxFilter makes the nil edge of `x != nil` / `x == nil` infeasible when every origin of x
// is a call to NewVersionedCtx (which returns a fresh object).
func nonNilCtxFilter(fn *ssa.Function) edgeFilter {
	return func(b *ssa.BasicBlock, i int) bool {
		ifi, ok := b.Instrs[len(b.Instrs)-1].(*ssa.If)
		if !ok {
			return true
		}
		bo, ok := ifi.Cond.(*ssa.BinOp)
		if !ok || !(bo.Op == token.EQL || bo.Op == token.NEQ) {
			return true
		}
		x := bo.X
		if isNilConst(x) {
			x = bo.Y
		} else if !isNilConst(bo.Y) {
			return true
		}
		rs := ctxRoots(x, fn)
		if len(rs) == 0 {
			return true
		}
		for _, rt := range rs {
			c, ok := rt.V.(*ssa.Call)
			if !ok || c.Common().StaticCallee() == nil || c.Common().StaticCallee().Name() != "NewVersionedCtx" {
				return true
			}
		}
		// x is never nil: for NEQ the true edge (0) is the only feasible one, for EQL the false edge
		if bo.Op == token.NEQ {
			return i == 0
		}
		return i == 1
	}
}

// receiveOf returns the channel receive instructions (`<-ch`) of fn whose element type is a pointer
// to storage.KeyValue or storage.TKeyValue.
func kvReceives(fn *ssa.Function) []*ssa.UnOp {
	var out []*ssa.UnOp
	for _, b := range fn.Blocks {
		for _, in := range b.Instrs {
			u, ok := in.(*ssa.UnOp)
			if !ok || u.Op != token.ARROW {
				continue
			}
			if p, ok := u.Type().(*types.Pointer); ok && (typeIs(p.Elem(), "storage", "KeyValue") || typeIs(p.Elem(), "storage", "TKeyValue")) {
				out = append(out, u)
			}
		}
	}
	return out
}

// sameKeyValue: both values are loads of the same field of the same base value, or the same value.
func sameKeyValue(a, b ssa.Value) bool {
	a, b = stripConv(a), stripConv(b)
	if a == b {
		return true
	}
	la, ok1 := a.(*ssa.UnOp)
	lb, ok2 := b.(*ssa.UnOp)
	if !ok1 || !ok2 || la.Op != token.MUL || lb.Op != token.MUL {
		return false
	}
	fa, ok1 := la.X.(*ssa.FieldAddr)
	fb, ok2 := lb.X.(*ssa.FieldAddr)
	return ok1 && ok2 && fa.Field == fb.Field && fa.X == fb.X
}

func ruleR19_2(r *Run) {
	w := r.W
	sinks := w.newSinks()
	cd, cv := w.fn("datastore", "copyData"), w.fn("datastore", "copyVersions")
	if cd == nil || cv == nil {
		r.violation("datastore.copyData/copyVersions", "not found", "-")
		return
	}
	// copyData: RawPut(kv.K, …) is preceded, from the receive, by dstCtx.UpdateInstance(kv.K)
	n := 0
	for _, fn := range withClosures(cd) {
		for _, c := range calls(fn) {
			if !(sinks.isStorageWrite(c) && methodNameOf(c) == "RawPut") {
				continue
			}
			n++
			key := c.Common().Args[0]
			recvs := kvReceives(fn)
			if len(recvs) != 1 {
				r.undecided("copyData:RawPut:rewrite", "cannot find the single key-value receive feeding the raw put")
				continue
			}
			isUpd := func(in ssa.Instruction) bool {
				c2, ok := in.(ssa.CallInstruction)
				if !ok {
					return false
				}
				callee := c2.Common().StaticCallee()
				if callee == nil || callee.Name() != "UpdateInstance" || len(c2.Common().Args) < 2 {
					return false
				}
				if !sameKeyValue(c2.Common().Args[1], key) {
					return false
				}
				// the receiver is the destination context: all origins are NewVersionedCtx calls (checked by R19.1 for data)
				return true
			}
			p := findPath(fn, recvs[0], isUpd, func(in ssa.Instruction) bool { return in == c.(ssa.Instruction) }, nonNilCtxFilter(fn))
			r.check(p == nil, "copyData:RawPut:key-rewritten-to-destination-instance", "every path from the receive to the raw put passes UpdateInstance on the same key",
				"a raw key can be written to the destination without its instance id having been rewritten: the copy lands in (and overwrites) the source instance's key space", w.pos(c.Pos()), w.renderPath(p)...)
			// the receiver of UpdateInstance is a destination context
			for _, c2 := range calls(fn) {
				if callee := c2.Common().StaticCallee(); callee != nil && callee.Name() == "UpdateInstance" {
					okc := true
					var d2 *ssa.Parameter
					if ds := paramsOfType(cd, "dvid", "Data"); len(ds) == 2 {
						d2 = ds[1]
					}
					for _, rt := range ctxRoots(c2.Common().Args[0], fn) {
						cc, ok := rt.V.(*ssa.Call)
						if !ok || cc.Common().StaticCallee() == nil || cc.Common().StaticCallee().Name() != "NewVersionedCtx" {
							okc = false
							continue
						}
						reads := false
						for _, r2 := range roots(cc.Common().Args[0], rt.Fn) {
							if r2.V == ssa.Value(d2) {
								reads = true
							}
						}
						if !reads && !c19StoredUnderNilGuard(cc, d2, cd) {
							okc = false
						}
					}
					r.check(okc, "copyData:UpdateInstance:destination-context", "the rewriting context is the destination instance's", "the instance rewrite uses a context of the source instance outside the same-instance case", w.pos(c2.Pos()))
				}
			}
		}
	}
	r.check(n >= 1, "copyData:has-RawPut", "raw put present", "the full copy has no RawPut", w.fpos(cd))

	// copyVersions: keybuf passes ChangeDataKeyInstance (when the instance changed) and ChangeDataKeyVersion
	for _, fn := range withClosures(cv) {
		for _, c := range calls(fn) {
			if !(sinks.isStorageWrite(c) && methodNameOf(c) == "RawPut") {
				continue
			}
			key := stripConv(c.Common().Args[0])
			mk, ok := key.(*ssa.MakeSlice)
			if !ok {
				r.violation("copyVersions:RawPut:key-is-private-copy", "the key handed to RawPut is not a freshly made copy of the stored key (rewriting it would alias the source buffer)", w.pos(c.Pos()))
				continue
			}
			r.ok("copyVersions:RawPut:key-is-private-copy", "key buffer made per put", w.pos(c.Pos()))
			isNamed := func(name string) func(ssa.Instruction) bool {
				return func(in ssa.Instruction) bool {
					c2, ok := in.(ssa.CallInstruction)
					if !ok {
						return false
					}
					callee := c2.Common().StaticCallee()
					return callee != nil && callee.Name() == name && len(c2.Common().Args) >= 1 && stripConv(c2.Common().Args[0]) == ssa.Value(mk)
				}
			}
			isPut := func(in ssa.Instruction) bool { return in == c.(ssa.Instruction) }
			// with dataInstanceChanged == true
			changed := func(b *ssa.BasicBlock, i int) bool {
				ifi, ok := b.Instrs[len(b.Instrs)-1].(*ssa.If)
				if !ok {
					return true
				}
				ld, ok := ifi.Cond.(*ssa.UnOp)
				if !ok || ld.Op != token.MUL {
					return true
				}
				// the "destination instance differs" flag: a captured bool that the enclosing function sets
				// to true exactly where a separate destination instance was supplied (the else branch of
				// `d2 == nil`); recognised by provenance, not by name
				if fv, ok := ld.X.(*ssa.FreeVar); ok {
					if pt, ok := fv.Type().(*types.Pointer); ok {
						if bt, ok := pt.Elem().Underlying().(*types.Basic); ok && bt.Kind() == types.Bool {
							return i == 0
						}
					}
				}
				return true
			}
			p := findPath(fn, mk, isNamed("ChangeDataKeyInstance"), isPut, changed)
			r.check(p == nil, "copyVersions:RawPut:key-rewritten-to-destination-instance", "with a different destination instance the key passes ChangeDataKeyInstance",
				"the version-limited copy can write a key without rewriting its instance id although the destination instance differs", w.pos(c.Pos()), w.renderPath(p)...)
			p = findPath(fn, mk, isNamed("ChangeDataKeyVersion"), isPut, nil)
			r.check(p == nil, "copyVersions:RawPut:key-rewritten-to-stored-version", "the key passes ChangeDataKeyVersion",
				"the version-limited copy can write a key without stamping the version it is stored for", w.pos(c.Pos()), w.renderPath(p)...)
			// the instance id used is the destination's
			for _, c2 := range calls(fn) {
				if callee := c2.Common().StaticCallee(); callee != nil && callee.Name() == "ChangeDataKeyInstance" {
					okid := false
					if idc, ok := stripConv(c2.Common().Args[1]).(*ssa.Call); ok && idc.Common().IsInvoke() && idc.Common().Method.Name() == "InstanceID" {
						okid = true
						for _, rt := range roots(idc.Common().Value, fn) {
							// the destination cell d2 (which holds d1 when no separate destination was given)
							if !(isNthParamOfType(rt.V, "dvid", "Data", 1) || isNthParamOfType(rt.V, "dvid", "Data", 0)) {
								okid = false
							}
						}
						// it must be read from the destination's cell, not the source's: some root is the 2nd Data parameter
						viaDst := false
						for _, rt := range roots(idc.Common().Value, fn) {
							if isNthParamOfType(rt.V, "dvid", "Data", 1) {
								viaDst = true
							}
						}
						if !viaDst {
							okid = false
						}
					}
					r.check(okid, "copyVersions:ChangeDataKeyInstance:destination-id", "the id written into the key is the destination instance's", "the key is rewritten with an id other than the destination instance's", w.pos(c2.Pos()))
				}
			}
		}
	}
}

// ---------------------------------------------------------------------------------------------
// R19.3

func ruleR19_3(r *Run) {
	w := r.W
	sinks := w.newSinks()
	for _, e := range c19Engines(r) {
		for _, fn := range withClosures(e.f) {
			// (a) raw scans: keysOnly is the constant false; bounds come from the instance range
			for _, c := range calls(fn) {
				if !c.Common().IsInvoke() || c.Common().Method.Name() != "RawRangeQuery" {
					continue
				}
				a := c.Common().Args
				ko, isC := stripConv(a[2]).(*ssa.Const)
				r.check(isC && ko.Value != nil && ko.Value.String() == "false", e.name+":RawRangeQuery:with-values", "keysOnly is the constant false",
					"the raw scan of the copy may be keys-only: values would not be copied", w.pos(c.Pos()))
				if e.name == "TransferData" {
					continue // whole-store transfer: bounds are store-wide by design
				}
				okB := true
				var rangeCall *ssa.Call
				for k := 0; k < 2; k++ {
					ex, ok := stripConv(a[k]).(*ssa.Extract)
					if !ok || ex.Index != k {
						okB = false
						continue
					}
					rc, ok := ex.Tuple.(*ssa.Call)
					if !ok || (rangeCall != nil && rc != rangeCall) {
						okB = false
						continue
					}
					rangeCall = rc
				}
				if okB && rangeCall != nil {
					nm := methodNameOf(rangeCall)
					switch nm {
					case "KeyRange":
						// receiver: ctx of the source instance
						okB = false
						for _, rt := range ctxRoots(recvOfCall(rangeCall), fn) {
							if cc, ok := rt.V.(*ssa.Call); ok && cc.Common().StaticCallee() != nil && cc.Common().StaticCallee().Name() == "NewVersionedCtx" {
								okB = true
								for _, r2 := range roots(cc.Common().Args[0], rt.Fn) {
									if !isNthParamOfType(r2.V, "dvid", "Data", 0) {
										okB = false
									}
								}
							}
						}
					case "DataInstanceKeyRange":
						okB = false
						if idc, ok := stripConv(rangeCall.Common().Args[0]).(*ssa.Call); ok && idc.Common().IsInvoke() && idc.Common().Method.Name() == "InstanceID" {
							okB = true
							for _, rt := range roots(idc.Common().Value, fn) {
								if !isNthParamOfType(rt.V, "dvid", "Data", 0) {
									okB = false
								}
							}
						}
					default:
						okB = false
					}
				} else {
					okB = false
				}
				r.check(okB, e.name+":RawRangeQuery:whole-source-instance-range", "begin and end are the two results of the source instance's key range",
					"the raw scan does not cover exactly the source instance's key range (first/last result of KeyRange / DataInstanceKeyRange of d1)", w.pos(c.Pos()))
			}
			// (b) nothing received is dropped silently
			for _, rcv := range kvReceives(fn) {
				isBarrier := func(in ssa.Instruction) bool {
					switch x := in.(type) {
					case ssa.CallInstruction:
						if sinks.isStorageWrite(x) {
							return true
						}
						nm := methodNameOf(x)
						if nm == "Errorf" || nm == "Criticalf" {
							return true // a reported failure
						}
						if x.Common().IsInvoke() && nm == "Check" {
							return true // the caller-supplied filter
						}
						// ... or a helper of the package that applies it (filterSkips(f, tkv, name) bool)
						if g := x.Common().StaticCallee(); g != nil && g.Pkg == fn.Pkg && len(g.Blocks) > 0 {
							for _, gc := range calls(g) {
								if gc.Common().IsInvoke() && gc.Common().Method.Name() == "Check" {
									return true
								}
							}
						}
						if nm == "Done" {
							return true // end of stream
						}
						if nm == "IsDataKey" || nm == "IsMetadataKey" {
							return true // key-class tests: the scanned range holds a single class
						}
					case *ssa.Lookup:
						if m, ok := x.X.Type().Underlying().(*types.Map); ok && typeIs(m.Key(), "dvid", "VersionID") {
							return true // the version set of a version-limited copy
						}
					case *ssa.MapUpdate:
						if stripConv(x.Value) == ssa.Value(rcv) {
							return true // retained for the per-key flush
						}
					}
					return false
				}
				isNext := func(in ssa.Instruction) bool {
					if in == ssa.Instruction(rcv) {
						return true
					}
					_, ok := in.(*ssa.Return)
					return ok
				}
				p := findPath(fn, rcv, isBarrier, isNext, nil)
				r.check(p == nil, fname(fn)+":received-pair-not-dropped", "every received pair is written, retained, filtered by the caller's filter / version set, or its failure reported",
					"a received key-value pair can be dropped silently (neither written nor filtered nor reported): the copy would lack content the source has", w.pos(rcv.Pos()), w.renderPath(p)...)
			}
			// (c) tombstones are never singled out by a copy engine
			for _, c := range calls(fn) {
				nm := methodNameOf(c)
				if nm == "IsTombstone" || nm == "IsTombstoneKey" {
					// comparing the tombstone state of two entries with each other treats deletions and
					// data alike (it is what keeps a deletion from counting as a repeat of an empty value);
					// a tombstone test that decides something on its own singles deletions out
					symmetric := false
					if cv, ok := c.(*ssa.Call); ok && cv.Referrers() != nil {
						for _, ref := range *cv.Referrers() {
							if bo, ok := ref.(*ssa.BinOp); ok && (bo.Op == token.EQL || bo.Op == token.NEQ) {
								other := bo.X
								if other == ssa.Value(cv) {
									other = bo.Y
								}
								if oc, ok := other.(*ssa.Call); ok && (methodNameOf(oc) == "IsTombstone" || methodNameOf(oc) == "IsTombstoneKey") {
									symmetric = true
								}
							}
						}
					}
					if symmetric {
						continue
					}
					r.violation(fname(fn)+":tombstone-test", "a copy engine tests keys for being tombstones: deletions recorded in the source would be treated differently from data (a dropped tombstone resurrects an ancestor's value in the copy)", w.pos(c.Pos()))
				}
			}
		}
		r.ok(e.name+":no-tombstone-special-case", "no tombstone test in the engine", w.fpos(e.f))
	}
	// (e) version-limited copy: the "same as the previously stored value" reference starts as nil for
	// every key's flush, and the per-version slots are cleared when a new key group starts
	if cv := w.fn("datastore", "copyVersions"); cv != nil {
		nref := 0
		for _, fn := range closures(cv) {
			for _, c := range calls(fn) {
				callee := c.Common().StaticCallee()
				if callee == nil || (callee.Name() != "Compare" && callee.Name() != "Equal") || callee.Pkg == nil || callee.Pkg.Pkg.Path() != "bytes" {
					continue
				}
				ld, ok := stripConv(c.Common().Args[0]).(*ssa.UnOp)
				if !ok || ld.Op != token.MUL {
					continue
				}
				fa, ok := ld.X.(*ssa.FieldAddr)
				if !ok {
					continue
				}
				if nm, _, _ := fieldName(fa); nm != "V" {
					continue
				}
				phi, ok := fa.X.(*ssa.Phi)
				if !ok {
					continue
				}
				nref++
				okReset := true
				for i, e := range phi.Edges {
					pred := phi.Block().Preds[i]
					if phi.Block().Dominates(pred) {
						continue // back edge of the flush loop
					}
					if !isNilConst(e) {
						okReset = false
					}
				}
				r.check(okReset, "copyVersions:dedupe-reference-reset-per-key", "the reference value of the unchanged-value test is nil whenever a key's flush loop is entered",
					"the version-limited copy compares a key's first stored value with the value last stored for the previous key: a key whose value equals its predecessor's is not copied", w.pos(c.Pos()))
			}
			// slots cleared after the new group's boundary was computed
			var grp ssa.Instruction
			for _, c := range calls(fn) {
				if callee := c.Common().StaticCallee(); callee != nil && callee.Name() == "MaxVersionDataKey" {
					grp = c
				}
			}
			if grp != nil {
				cleared := false
				for _, b := range fn.Blocks {
					for _, in := range b.Instrs {
						if mu, ok := in.(*ssa.MapUpdate); ok && isNilConst(mu.Value) && domInstr(grp, mu) {
							cleared = true
						}
					}
				}
				r.check(cleared, "copyVersions:slots-cleared-per-key", "the per-version slots are set to nil after a new key group starts",
					"the per-version slots are not cleared when a new key starts: values of the previous key are stored under the next key's versions", w.fpos(fn))
			}
		}
		r.check(nref >= 1, "copyVersions:has-dedupe-reference", "unchanged-value test found", "the unchanged-value test of the version-limited copy was not found: rule needs review", w.fpos(cv))
	}
	// (d) flattened scan: whole TKeyRange of the scan context, every chunk forwarded
	cd := w.fn("datastore", "copyData")
	if cd == nil {
		return
	}
	for _, c := range calls(cd) {
		if !c.Common().IsInvoke() || c.Common().Method.Name() != "ProcessRange" {
			continue
		}
		a := c.Common().Args
		okB := true
		for k := 0; k < 2; k++ {
			ex, ok := stripConv(a[k+1]).(*ssa.Extract)
			if !ok || ex.Index != k {
				okB = false
				continue
			}
			rc, ok := ex.Tuple.(*ssa.Call)
			if !ok || methodNameOf(rc) != "TKeyRange" {
				okB = false
				continue
			}
			// same ctx as the scan's
			same := false
			for _, r1 := range ctxRoots(recvOfCall(rc), cd) {
				for _, r2 := range roots(a[0], cd) {
					if r1.V == r2.V {
						same = true
					}
				}
			}
			okB = okB && same
		}
		r.check(okB, "copyData:ProcessRange:whole-tkey-range", "the flattened scan covers the scan context's whole TKey range",
			"the flattened scan does not cover the whole TKey range of the scanned context", w.pos(c.Pos()))
		// callback forwards every non-nil chunk
		var cb *ssa.Function
		for _, arg := range a {
			if mc, ok := stripConv(arg).(*ssa.MakeClosure); ok {
				cb, _ = mc.Fn.(*ssa.Function)
			}
		}
		if cb == nil {
			r.undecided("copyData:ProcessRange:callback", "chunk callback closure not found")
			continue
		}
		p := findPath(cb, nil, func(in ssa.Instruction) bool { _, ok := in.(*ssa.Send); return ok }, func(in ssa.Instruction) bool {
			ret, ok := in.(*ssa.Return)
			return ok && !isErrorExit(ret)
		}, nil)
		r.check(p == nil, "copyData:ProcessRange:callback-forwards-every-chunk", "every successful return of the chunk callback has sent the chunk's pair",
			"the flattened scan's callback can return success without forwarding the resolved pair", w.fpos(cb), w.renderPath(p)...)
		okSend := false
		for _, b := range cb.Blocks {
			for _, in := range b.Instrs {
				if s, ok := in.(*ssa.Send); ok {
					if ld, ok := s.X.(*ssa.UnOp); ok {
						if fa, ok := ld.X.(*ssa.FieldAddr); ok {
							if nm, _, _ := fieldName(fa); nm == "TKeyValue" {
								okSend = true
							}
						}
					}
				}
			}
		}
		r.check(okSend, "copyData:ProcessRange:callback-sends-resolved-pair", "what is sent is the chunk's resolved TKeyValue", "the callback forwards something other than the chunk's resolved key-value", w.fpos(cb))
	}
}

// ---------------------------------------------------------------------------------------------
// R19.4

func ruleR19_4(r *Run) {
	w := r.W
	ci := w.fn("datastore", "CopyInstance")
	cd := w.fn("datastore", "copyData")
	if ci == nil || cd == nil {
		r.violation("datastore.CopyInstance", "not found", "-")
		return
	}
	var cp, cdCall ssa.CallInstruction
	for _, c := range calls(ci) {
		if c.Common().IsInvoke() && c.Common().Method.Name() == "CopyPropertiesFrom" {
			cp = c
		}
		if c.Common().StaticCallee() == cd {
			cdCall = c
		}
	}
	if cp == nil || cdCall == nil {
		r.violation("CopyInstance:CopyPropertiesFrom", "CopyInstance does not invoke the PropertyCopier of the new instance", w.fpos(ci))
		return
	}
	isNamed := func(vs []rootVal, name string) bool {
		if len(vs) == 0 {
			return false
		}
		for _, rt := range vs {
			c, ok := originCall(peelAssert(rt.V)).(*ssa.Call)
			if !ok || methodNameOf(c) != name {
				return false
			}
		}
		return true
	}
	recvRoots := roots(peelAssert(cp.Common().Value), ci)
	r.check(isNamed(recvRoots, "newData"), "CopyInstance:CopyPropertiesFrom:receiver-is-new-instance", "the copier is the newly created instance",
		"CopyPropertiesFrom is not invoked on the newly created instance", w.pos(cp.Pos()))
	r.check(isNamed(roots(cp.Common().Args[0], ci), "getDataByUUIDName"), "CopyInstance:CopyPropertiesFrom:argument-is-source", "properties are taken from the source instance",
		"CopyPropertiesFrom is not given the source instance", w.pos(cp.Pos()))
	// the PropertyCopier branch is taken whenever the type assertion succeeds: the call is guarded only by `ok`
	// after the properties were copied the instance is persisted before the data copy starts
	isSave := func(in ssa.Instruction) bool {
		c, ok := in.(ssa.CallInstruction)
		if !ok {
			return false
		}
		callee := c.Common().StaticCallee()
		if callee == nil || callee.Name() != "SaveDataByUUID" {
			// a helper all of whose success paths save the instance
			return w.performs(in, []string{"SaveDataByUUID"}, 2) && callee != nil && callee.Name() != "SaveDataByUUID"
		}
		return isNamed(roots(c.Common().Args[1], ci), "newData")
	}
	p := findPath(ci, cp, isSave, func(in ssa.Instruction) bool {
		if in == ssa.Instruction(cdCall) {
			return true
		}
		ret, ok := in.(*ssa.Return)
		return ok && !isErrorExit(ret)
	}, nil)
	r.check(p == nil, "CopyInstance:copied-properties-saved", "after CopyPropertiesFrom the new instance is saved before the data copy and before any success return",
		"the copied properties are never persisted: after a restart the copy is read with default properties (block size, value types, …) and its content differs from the source's", w.pos(cp.Pos()), w.renderPath(p)...)
	// types: every data type of the property's quantifier with non-empty persisted properties implements PropertyCopier
	pc := w.iface("datastore", "PropertyCopier")
	if pc == nil {
		r.violation("datastore.PropertyCopier", "interface not found", "-")
		return
	}
	inScope := map[string]bool{"keyvalue": true, "imageblk": true, "annotation": true, "roi": true, "labelblk": true, "labelarray": true, "labelmap": true, "labelvol": true, "imagetile": true, "googlevoxels": true, "multichan16": true, "neuronjson": true}
	for _, pkg := range w.Roots {
		rel := relPkg(pkg.PkgPath)
		if !strings.HasPrefix(rel, "datatype/") || strings.Count(rel, "/") != 1 {
			continue
		}
		short := strings.TrimPrefix(rel, "datatype/")
		n := w.named(rel, "Data")
		if n == nil {
			continue
		}
		st, ok := n.Underlying().(*types.Struct)
		if !ok {
			continue
		}
		extra := []string{}
		pf := persistedFields(w, rel, "Data")
		for i := 0; i < st.NumFields(); i++ {
			f := st.Field(i)
			if !pf[f.Name()] || typeIs(f.Type(), "datastore", "Data") {
				continue
			}
			if s2 := derefStruct(f.Type()); s2 != nil && s2.NumFields() == 0 {
				continue // an empty property struct carries nothing
			}
			extra = append(extra, f.Name())
		}
		if len(extra) == 0 {
			continue
		}
		impl := types.Implements(types.NewPointer(n), pc)
		if !inScope[short] {
			if !impl {
				r.note("datatype %s persists extra properties (%s) without a PropertyCopier; it is outside the property's quantifier (key-value, image-block, annotation, ROI) and not charged", short, strings.Join(extra, ","))
			}
			continue
		}
		r.check(impl, short+".Data:implements-PropertyCopier", "persists "+strings.Join(extra, ",")+" and implements PropertyCopier",
			"data type "+short+" persists extra properties ("+strings.Join(extra, ",")+") but has no CopyPropertiesFrom: a copy is created with default properties", w.pos(n.Obj().Pos()))
	}
}

// ---------------------------------------------------------------------------------------------
// R19.5

func ruleR19_5(r *Run) {
	w := r.W
	isWGCall := func(in ssa.Instruction, name string) bool {
		c, ok := in.(ssa.CallInstruction)
		if !ok {
			return false
		}
		callee := c.Common().StaticCallee()
		return callee != nil && callee.Name() == name && callee.Pkg != nil && callee.Pkg.Pkg.Path() == "sync"
	}
	for _, e := range c19Engines(r) {
		ngo := 0
		for _, b := range e.f.Blocks {
			for _, in := range b.Instrs {
				g, ok := in.(*ssa.Go)
				if !ok {
					continue
				}
				ngo++
				p := findPath(e.f, g, func(in ssa.Instruction) bool { return isWGCall(in, "Wait") }, func(in ssa.Instruction) bool {
					ret, ok := in.(*ssa.Return)
					return ok && !isErrorExit(ret)
				}, nil)
				r.check(p == nil, fmt.Sprintf("%s:writer#%d:success-after-writer-finished", e.name, ngo), "every success return after this writer goroutine was started passes WaitGroup.Wait",
					"the copy engine can report success while its writer goroutine is still storing pairs: the caller reads an incomplete copy", w.pos(g.Pos()), w.renderPath(p)...)
			}
		}
		r.check(ngo > 0, e.name+":has-writer", "writer goroutine present", "copy engine without writer goroutine: rule needs review", w.fpos(e.f))
		// writer: Done only behind the nil (end-of-stream) test of the received pair
		for _, fn := range closures(e.f) {
			rc := kvReceives(fn)
			if len(rc) != 1 {
				continue
			}
			for _, b := range fn.Blocks {
				for _, in := range b.Instrs {
					if !isWGCall(in, "Done") {
						continue
					}
					okG := false
					for _, b2 := range fn.Blocks {
						ifi, ok := b2.Instrs[len(b2.Instrs)-1].(*ssa.If)
						if !ok {
							continue
						}
						bo, ok := ifi.Cond.(*ssa.BinOp)
						if !ok || bo.Op != token.EQL || !isNilConst(bo.Y) || bo.X != ssa.Value(rc[0]) {
							continue
						}
						if guardedByEdge(ifi, 0, in) {
							okG = true
						}
					}
					r.check(okG, fname(fn)+":Done-only-at-end-of-stream", "WaitGroup.Done is reached only when the received pair is the nil end marker",
						"the writer goroutine signals completion before the end-of-stream marker: the engine returns while pairs are still queued", w.pos(in.Pos()))
				}
			}
		}
	}
	// flattened scan: `ch <- nil` follows ProcessRange on every path (error or not), else the writer never finishes
	cd := w.fn("datastore", "copyData")
	if cd == nil {
		return
	}
	for _, c := range calls(cd) {
		if !c.Common().IsInvoke() || c.Common().Method.Name() != "ProcessRange" {
			continue
		}
		p := findPath(cd, c, func(in ssa.Instruction) bool {
			s, ok := in.(*ssa.Send)
			return ok && isNilConst(s.X)
		}, func(in ssa.Instruction) bool {
			if _, ok := in.(*ssa.Return); ok {
				return true
			}
			return isWGCall(in, "Wait")
		}, nil)
		r.check(p == nil, "copyData:flatten:end-marker-sent", "after the flattened scan the nil end marker is sent before waiting or returning",
			"the flattened copy can wait for (or abandon) its writer without sending the end-of-stream marker", w.pos(c.Pos()), w.renderPath(p)...)
	}
}
