package main

import (
	"fmt"
	"go/token"
	"go/types"
	"strings"

	"golang.org/x/tools/go/ssa"
)

// R4.12 / R20.29 — one-sided error test: a reader's error is compared with io.EOF and with nothing
// else.  Every other error (io.ErrUnexpectedEOF from a torn record, a read error) then takes the
// "got a record" branch: the loop hands out a record that was never read, and a persistent error
// never ends the loop.

func init() {
	reg := func(id, prop string) {
		register(ruleDef{ID: id, Prop: prop, Tier: "quick", Floor: 5,
			Title: "an error that is compared with io.EOF is also tested against nil (or returned / passed on): in every repository function, an error value from a call whose only inspections are comparisons with io.EOF lets every other error — a torn record, a failed read — continue as if a record had been read",
			Fn:    ruleEOFOnly})
	}
	reg("R4.12", "C04")
	reg("R20.29", "C20")
}

func isEOFLoad(v ssa.Value) bool {
	u, ok := v.(*ssa.UnOp)
	if !ok || u.Op != token.MUL {
		return false
	}
	g, ok := u.X.(*ssa.Global)
	return ok && g.Name() == "EOF" && g.Pkg != nil && g.Pkg.Pkg.Path() == "io"
}

func ruleEOFOnly(r *Run) {
	w := r.W
	n := 0
	for _, f := range w.RepoFuncs {
		if len(f.Blocks) == 0 || strings.HasSuffix(w.fposFile(f), "_test.go") || strings.HasPrefix(relPkg(pkgPathOf(f)), "cmd/") {
			continue // command-line utilities are not part of the server
		}
		k := 0
		for _, c := range calls(f) {
			cv, ok := c.(*ssa.Call)
			if !ok {
				continue
			}
			var ev ssa.Value
			switch t := cv.Type().(type) {
			case *types.Tuple:
				if t.Len() > 0 && isErrorType(t.At(t.Len()-1).Type()) {
					for _, ref := range *cv.Referrers() {
						if ex, ok := ref.(*ssa.Extract); ok && ex.Index == t.Len()-1 {
							ev = ex
						}
					}
				}
			default:
				if isErrorType(cv.Type()) {
					ev = cv
				}
			}
			if ev == nil {
				continue
			}
			// the web of the error variable: the value, the phis it flows into, the cell it is spilled to
			web := map[ssa.Value]bool{ev: true}
			var cells []*ssa.Alloc
			for changed := true; changed; {
				changed = false
				for v := range web {
					if v.Referrers() == nil {
						continue
					}
					for _, ref := range *v.Referrers() {
						switch x := ref.(type) {
						case *ssa.Phi:
							if !web[x] {
								web[x] = true
								changed = true
							}
						case *ssa.Store:
							if al, ok := x.Addr.(*ssa.Alloc); ok && x.Val == v {
								seen := false
								for _, c2 := range cells {
									if c2 == al {
										seen = true
									}
								}
								if !seen {
									cells = append(cells, al)
									for _, r2 := range *al.Referrers() {
										if ld, ok := r2.(*ssa.UnOp); ok && ld.Op == token.MUL && !web[ld] {
											web[ld] = true
											changed = true
										}
									}
								}
							}
						}
					}
				}
			}
			eofCmp, otherUse := false, false
			var eofAt ssa.Instruction
			for v := range web {
				if v.Referrers() == nil {
					continue
				}
				for _, ref := range *v.Referrers() {
					switch x := ref.(type) {
					case *ssa.BinOp:
						other := x.Y
						if x.Y == v {
							other = x.X
						}
						if isEOFLoad(other) {
							eofCmp = true
							eofAt = x
						} else {
							otherUse = true
						}
					case *ssa.Phi:
					case *ssa.Store:
						if x.Val == v {
							if _, ok := x.Addr.(*ssa.Alloc); !ok {
								otherUse = true
							}
						} else {
							otherUse = true
						}
					case *ssa.DebugRef:
					default:
						otherUse = true // returned, passed to a call, converted, stored elsewhere …
					}
				}
			}
			for _, al := range cells {
				for _, r2 := range *al.Referrers() {
					switch x := r2.(type) {
					case *ssa.Store, *ssa.DebugRef:
					case *ssa.UnOp:
						_ = x
					default:
						otherUse = true // captured by a closure, address passed on
					}
				}
			}
			if !eofCmp {
				continue
			}
			n++
			k++
			r.check(otherUse, fmt.Sprintf("%s:eof-only#%d:%s", fname(f), k, callName(c)), "the error is also tested against nil, returned or passed on",
				"the error of this call is compared with io.EOF and with nothing else: any other error (a record torn by a crash gives io.ErrUnexpectedEOF, a failing disk a read error) continues as if a record had been read — the caller is handed a record that does not exist, and an error that persists never ends the loop", w.pos(eofAt.Pos()))
		}
	}
	r.check(n >= 5, "repo:eof-comparisons", fmt.Sprintf("%d error values compared with io.EOF", n), "fewer than confirmed by reading: rule needs review", "-")
}

// ---------------------------------------------------------------------------------------------
// R4.13 — a record log opened for appending is first cut back to its last complete record: between
// the OpenFile(O_APPEND) of a log store (storage/filelog, the JSON mutation log in server) and every
// exit that hands the file out, a call that can reach (*os.File).Truncate is passed.

func init() {
	register(ruleDef{ID: "R4.13", Prop: "C04", Tier: "quick", Floor: 3,
		Title: "a record log opened for appending is first cut back to its last complete record: in storage/filelog and in the server's JSON mutation log, every path from an os.OpenFile with O_APPEND to an exit without error passes a call that can reach (*os.File).Truncate, so the first append after a crash is never glued to a torn record",
		Fn:    ruleAppendOpenTrims})
}

func ruleAppendOpenTrims(r *Run) {
	w := r.W
	const (
		oWRONLY = 0x1
		oRDWR   = 0x2
		oAPPEND = 0x400
	)
	isTruncate := func(c ssa.CallInstruction) bool {
		callee := staticCallee(c)
		return callee != nil && callee.Name() == "Truncate" && callee.Signature.Recv() != nil && typeIs(callee.Signature.Recv().Type(), "os", "File")
	}
	reach := w.newReach(isTruncate, nil)
	n := 0
	for _, f := range w.RepoFuncs {
		pkg := relPkg(pkgPathOf(f))
		if (pkg != "storage/filelog" && pkg != "server") || len(f.Blocks) == 0 || strings.HasSuffix(w.fposFile(f), "_test.go") {
			continue
		}
		k := 0
		for _, c := range calls(f) {
			callee := staticCallee(c)
			if callee == nil || callee.Name() != "OpenFile" || callee.Pkg == nil || callee.Pkg.Pkg.Path() != "os" {
				continue
			}
			flag, ok := constInt(c.Common().Args[1])
			if !ok || flag&(oWRONLY|oRDWR) == 0 || flag&oAPPEND == 0 {
				continue
			}
			k++
			n++
			trims := func(x ssa.Instruction) bool {
				c2, ok := x.(ssa.CallInstruction)
				if !ok {
					return false
				}
				if isTruncate(c2) {
					return true
				}
				for _, g := range w.Callees(c2) {
					if reach.From(g) {
						return true
					}
				}
				return false
			}
			// the branch on which the open itself failed hands no file out
			var openErr ssa.Value
			if cv, ok := c.(*ssa.Call); ok {
				for _, ref := range *cv.Referrers() {
					if ex, ok := ref.(*ssa.Extract); ok && ex.Index == 1 {
						openErr = ex
					}
				}
			}
			errVals := map[ssa.Value]bool{}
			if openErr != nil {
				errVals[openErr] = true
				// spilled to a named result and loaded back in the same block
				for _, ref := range *openErr.Referrers() {
					st, ok := ref.(*ssa.Store)
					if !ok || st.Val != openErr {
						continue
					}
					after := false
					for _, in := range st.Block().Instrs {
						if in == ssa.Instruction(st) {
							after = true
							continue
						}
						if !after {
							continue
						}
						if st2, ok := in.(*ssa.Store); ok && st2.Addr == st.Addr {
							break
						}
						if ld, ok := in.(*ssa.UnOp); ok && ld.Op == token.MUL && ld.X == st.Addr {
							errVals[ld] = true
						}
					}
				}
			}
			opened := func(b *ssa.BasicBlock, i int) bool {
				ifi, ok := b.Instrs[len(b.Instrs)-1].(*ssa.If)
				if !ok || openErr == nil {
					return true
				}
				bo, ok := ifi.Cond.(*ssa.BinOp)
				if !ok || (!errVals[bo.X] && !errVals[bo.Y]) {
					return true
				}
				if bo.Op == token.NEQ {
					return i != 0
				}
				if bo.Op == token.EQL {
					return i != 1
				}
				return true
			}
			p := findPath(f, c.(ssa.Instruction), trims, successExit, opened)
			r.check(p == nil, fmt.Sprintf("%s:OpenFile#%d:tail-trimmed", fname(f), k), "every exit without error after the open passes a call that can truncate the file",
				"a record log is opened for appending and handed out without a look at its tail: after a crash that tore the last record, the next acknowledged record is appended behind the torn one — the reader returns an invented record made of both, or never reaches the new one", w.pos(c.Pos()), w.renderPath(p)...)
		}
	}
	r.check(n >= 2, "logs:append-opens", fmt.Sprintf("%d opens with O_APPEND in the log stores", n), "fewer than the two log stores confirmed by reading: rule needs review", "-")
}

// ---------------------------------------------------------------------------------------------
// R16.14 — one spelling per body id: the store key of a neuron annotation is built from the
// canonical decimal form of the parsed id (strconv.FormatUint), in the key constructor or at every
// call site of it, because the in-memory database addresses the annotation by the parsed number.

func init() {
	register(ruleDef{ID: "R16.14", Prop: "C16", Tier: "quick", Floor: 2,
		Title: "one spelling per body id: the constructor of neuronjson's annotation store key (the function that hands storage.NewTKey the annotation key class and the key bytes) builds the bytes from strconv.FormatUint of the parsed id — there, or at every static call site — since the in-memory head addresses annotations by the parsed number",
		Fn:    ruleCanonicalAnnotationKey})
}

func ruleCanonicalAnnotationKey(r *Run) {
	w := r.W
	canonical := func(v ssa.Value) bool {
		for d := range dataDeps(v) {
			if c, ok := d.(*ssa.Call); ok {
				if callee := c.Call.StaticCallee(); callee != nil && callee.Pkg != nil && callee.Pkg.Pkg.Path() == "strconv" && (callee.Name() == "FormatUint" || callee.Name() == "Itoa" || callee.Name() == "FormatInt") {
					return true
				}
			}
		}
		return false
	}
	n := 0
	for _, f := range w.RepoFuncs {
		if relPkg(pkgPathOf(f)) != "datatype/neuronjson" || len(f.Blocks) == 0 || f.Parent() != nil || strings.HasSuffix(w.fposFile(f), "_test.go") {
			continue
		}
		for _, c := range calls(f) {
			callee := staticCallee(c)
			if callee == nil || callee.Name() != "NewTKey" || relPkg(pkgPathOf(callee)) != "storage" || len(c.Common().Args) != 2 {
				continue
			}
			// key bytes that come from a string parameter of the constructor
			fromParam := -1
			for d := range dataDeps(c.Common().Args[1]) {
				if p, ok := d.(*ssa.Parameter); ok {
					if b, ok := p.Type().Underlying().(*types.Basic); ok && b.Kind() == types.String {
						for i, q := range f.Params {
							if q == p {
								fromParam = i
							}
						}
					}
				}
			}
			if fromParam < 0 {
				continue
			}
			n++
			ok := canonical(c.Common().Args[1])
			how := "the constructor formats the parsed id"
			if !ok {
				sites := callSitesOf(w)[f]
				ok = len(sites) > 0
				for _, s := range sites {
					sc, isCall := s.(ssa.CallInstruction)
					if !isCall || fromParam >= len(sc.Common().Args) || !canonical(sc.Common().Args[fromParam]) {
						ok = false
					}
				}
				how = "every call site passes a formatted id"
			}
			r.check(ok, fname(f)+":annotation-key:canonical", how,
				"the store key of an annotation is the key string as the client spelled it: \"007\" names body 7 in the in-memory head and another key in the store, so a delete or update through such a spelling changes the head's answers and not the store's (or creates a second stored record for the body)", w.pos(c.Pos()))
		}
	}
	r.check(n >= 1, "neuronjson:annotation-key-constructors", fmt.Sprintf("%d constructors build a store key from a string parameter", n), "none found: rule needs review", "-")
}
