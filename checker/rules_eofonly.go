package main

import (
	"fmt"
	"go/token"
	"go/types"
	"sort"
	"strings"

	"golang.org/x/tools/go/ssa"
)

// R4.12 / R20.29 — one-sided error test: a reader's error is compared with io.EOF and with nothing
// else.  Every other error (io.ErrUnexpectedEOF from a torn record, a read error) then takes the
// "got a record" branch: the loop hands out a record that was never read, and a persistent error
// never ends the loop.

func init() {
	reg := func(id, prop string) {
		register(ruleDef{ID: id, Prop: prop, Tier: "quick", Floor: 5,
			Title: "an error that is compared with io.EOF is also tested against nil (or returned / passed on): in every repository function, an error value from a call whose only inspections are comparisons with io.EOF lets every other error — a torn record, a failed read — continue as if a record had been read",
			Fn:    ruleEOFOnly})
	}
	reg("R4.12", "C04")
	reg("R20.29", "C20")
}

func isEOFLoad(v ssa.Value) bool {
	u, ok := v.(*ssa.UnOp)
	if !ok || u.Op != token.MUL {
		return false
	}
	g, ok := u.X.(*ssa.Global)
	return ok && g.Name() == "EOF" && g.Pkg != nil && g.Pkg.Pkg.Path() == "io"
}

func ruleEOFOnly(r *Run) {
	w := r.W
	n := 0
	for _, f := range w.RepoFuncs {
		if len(f.Blocks) == 0 || strings.HasSuffix(w.fposFile(f), "_test.go") || strings.HasPrefix(relPkg(pkgPathOf(f)), "cmd/") {
			continue // command-line utilities are not part of the server
		}
		k := 0
		for _, c := range calls(f) {
			cv, ok := c.(*ssa.Call)
			if !ok {
				continue
			}
			var ev ssa.Value
			switch t := cv.Type().(type) {
			case *types.Tuple:
				if t.Len() > 0 && isErrorType(t.At(t.Len()-1).Type()) {
					for _, ref := range *cv.Referrers() {
						if ex, ok := ref.(*ssa.Extract); ok && ex.Index == t.Len()-1 {
							ev = ex
						}
					}
				}
			default:
				if isErrorType(cv.Type()) {
					ev = cv
				}
			}
			if ev == nil {
				continue
			}
			// the web of the error variable: the value, the phis it flows into, the cell it is spilled to
			web := map[ssa.Value]bool{ev: true}
			var cells []*ssa.Alloc
			for changed := true; changed; {
				changed = false
				for v := range web {
					if v.Referrers() == nil {
						continue
					}
					for _, ref := range *v.Referrers() {
						switch x := ref.(type) {
						case *ssa.Phi:
							if !web[x] {
								web[x] = true
								changed = true
							}
						case *ssa.Store:
							if al, ok := x.Addr.(*ssa.Alloc); ok && x.Val == v {
								seen := false
								for _, c2 := range cells {
									if c2 == al {
										seen = true
									}
								}
								if !seen {
									cells = append(cells, al)
									for _, r2 := range *al.Referrers() {
										if ld, ok := r2.(*ssa.UnOp); ok && ld.Op == token.MUL && !web[ld] {
											web[ld] = true
											changed = true
										}
									}
								}
							}
						}
					}
				}
			}
			eofCmp, otherUse := false, false
			var eofAt ssa.Instruction
			for v := range web {
				if v.Referrers() == nil {
					continue
				}
				for _, ref := range *v.Referrers() {
					switch x := ref.(type) {
					case *ssa.BinOp:
						other := x.Y
						if x.Y == v {
							other = x.X
						}
						if isEOFLoad(other) {
							eofCmp = true
							eofAt = x
						} else {
							otherUse = true
						}
					case *ssa.Phi:
					case *ssa.Store:
						if x.Val == v {
							if _, ok := x.Addr.(*ssa.Alloc); !ok {
								otherUse = true
							}
						} else {
							otherUse = true
						}
					case *ssa.DebugRef:
					default:
						otherUse = true // returned, passed to a call, converted, stored elsewhere …
					}
				}
			}
			for _, al := range cells {
				for _, r2 := range *al.Referrers() {
					switch x := r2.(type) {
					case *ssa.Store, *ssa.DebugRef:
					case *ssa.UnOp:
						_ = x
					default:
						otherUse = true // captured by a closure, address passed on
					}
				}
			}
			if !eofCmp {
				continue
			}
			n++
			k++
			r.check(otherUse, fmt.Sprintf("%s:eof-only#%d:%s", fname(f), k, callName(c)), "the error is also tested against nil, returned or passed on",
				"the error of this call is compared with io.EOF and with nothing else: any other error (a record torn by a crash gives io.ErrUnexpectedEOF, a failing disk a read error) continues as if a record had been read — the caller is handed a record that does not exist, and an error that persists never ends the loop", w.pos(eofAt.Pos()))
		}
	}
	r.check(n >= 5, "repo:eof-comparisons", fmt.Sprintf("%d error values compared with io.EOF", n), "fewer than confirmed by reading: rule needs review", "-")
}

// ---------------------------------------------------------------------------------------------
// R4.13 — a record log opened for appending is first cut back to its last complete record: between
// the OpenFile(O_APPEND) of a log store (storage/filelog, the JSON mutation log in server) and every
// exit that hands the file out, a call that can reach (*os.File).Truncate is passed.

func init() {
	register(ruleDef{ID: "R4.13", Prop: "C04", Tier: "quick", Floor: 3,
		Title: "a record log opened for appending is first cut back to its last complete record: in storage/filelog and in the server's JSON mutation log, every path from an os.OpenFile with O_APPEND to an exit without error passes a call that can reach (*os.File).Truncate, so the first append after a crash is never glued to a torn record",
		Fn:    ruleAppendOpenTrims})
}

func ruleAppendOpenTrims(r *Run) {
	w := r.W
	const (
		oWRONLY = 0x1
		oRDWR   = 0x2
		oAPPEND = 0x400
	)
	isTruncate := func(c ssa.CallInstruction) bool {
		callee := staticCallee(c)
		return callee != nil && callee.Name() == "Truncate" && callee.Signature.Recv() != nil && typeIs(callee.Signature.Recv().Type(), "os", "File")
	}
	reach := w.newReach(isTruncate, nil)
	n := 0
	for _, f := range w.RepoFuncs {
		pkg := relPkg(pkgPathOf(f))
		if (pkg != "storage/filelog" && pkg != "server") || len(f.Blocks) == 0 || strings.HasSuffix(w.fposFile(f), "_test.go") {
			continue
		}
		k := 0
		for _, c := range calls(f) {
			callee := staticCallee(c)
			if callee == nil || callee.Name() != "OpenFile" || callee.Pkg == nil || callee.Pkg.Pkg.Path() != "os" {
				continue
			}
			flag, ok := constInt(c.Common().Args[1])
			if !ok || flag&(oWRONLY|oRDWR) == 0 || flag&oAPPEND == 0 {
				continue
			}
			k++
			n++
			trims := func(x ssa.Instruction) bool {
				c2, ok := x.(ssa.CallInstruction)
				if !ok {
					return false
				}
				if isTruncate(c2) {
					return true
				}
				for _, g := range w.Callees(c2) {
					if reach.From(g) {
						return true
					}
				}
				return false
			}
			// the branch on which the open itself failed hands no file out
			var openErr ssa.Value
			if cv, ok := c.(*ssa.Call); ok {
				for _, ref := range *cv.Referrers() {
					if ex, ok := ref.(*ssa.Extract); ok && ex.Index == 1 {
						openErr = ex
					}
				}
			}
			errVals := map[ssa.Value]bool{}
			if openErr != nil {
				errVals[openErr] = true
				// spilled to a named result and loaded back in the same block
				for _, ref := range *openErr.Referrers() {
					st, ok := ref.(*ssa.Store)
					if !ok || st.Val != openErr {
						continue
					}
					after := false
					for _, in := range st.Block().Instrs {
						if in == ssa.Instruction(st) {
							after = true
							continue
						}
						if !after {
							continue
						}
						if st2, ok := in.(*ssa.Store); ok && st2.Addr == st.Addr {
							break
						}
						if ld, ok := in.(*ssa.UnOp); ok && ld.Op == token.MUL && ld.X == st.Addr {
							errVals[ld] = true
						}
					}
				}
			}
			opened := func(b *ssa.BasicBlock, i int) bool {
				ifi, ok := b.Instrs[len(b.Instrs)-1].(*ssa.If)
				if !ok || openErr == nil {
					return true
				}
				bo, ok := ifi.Cond.(*ssa.BinOp)
				if !ok || (!errVals[bo.X] && !errVals[bo.Y]) {
					return true
				}
				if bo.Op == token.NEQ {
					return i != 0
				}
				if bo.Op == token.EQL {
					return i != 1
				}
				return true
			}
			p := findPath(f, c.(ssa.Instruction), trims, successExit, opened)
			r.check(p == nil, fmt.Sprintf("%s:OpenFile#%d:tail-trimmed", fname(f), k), "every exit without error after the open passes a call that can truncate the file",
				"a record log is opened for appending and handed out without a look at its tail: after a crash that tore the last record, the next acknowledged record is appended behind the torn one — the reader returns an invented record made of both, or never reaches the new one", w.pos(c.Pos()), w.renderPath(p)...)
		}
	}
	r.check(n >= 2, "logs:append-opens", fmt.Sprintf("%d opens with O_APPEND in the log stores", n), "fewer than the two log stores confirmed by reading: rule needs review", "-")
}

// ---------------------------------------------------------------------------------------------
// R16.14 — one spelling per body id: the store key of a neuron annotation is built from the
// canonical decimal form of the parsed id (strconv.FormatUint), in the key constructor or at every
// call site of it, because the in-memory database addresses the annotation by the parsed number.

func init() {
	register(ruleDef{ID: "R16.14", Prop: "C16", Tier: "quick", Floor: 2,
		Title: "one spelling per body id: the constructor of neuronjson's annotation store key (the function that hands storage.NewTKey the annotation key class and the key bytes) builds the bytes from strconv.FormatUint of the parsed id — there, or at every static call site — since the in-memory head addresses annotations by the parsed number",
		Fn:    ruleCanonicalAnnotationKey})
}

func ruleCanonicalAnnotationKey(r *Run) {
	w := r.W
	canonical := func(v ssa.Value) bool {
		for d := range dataDeps(v) {
			if c, ok := d.(*ssa.Call); ok {
				if callee := c.Call.StaticCallee(); callee != nil && callee.Pkg != nil && callee.Pkg.Pkg.Path() == "strconv" && (callee.Name() == "FormatUint" || callee.Name() == "Itoa" || callee.Name() == "FormatInt") {
					return true
				}
			}
		}
		return false
	}
	n := 0
	for _, f := range w.RepoFuncs {
		if relPkg(pkgPathOf(f)) != "datatype/neuronjson" || len(f.Blocks) == 0 || f.Parent() != nil || strings.HasSuffix(w.fposFile(f), "_test.go") {
			continue
		}
		for _, c := range calls(f) {
			callee := staticCallee(c)
			if callee == nil || callee.Name() != "NewTKey" || relPkg(pkgPathOf(callee)) != "storage" || len(c.Common().Args) != 2 {
				continue
			}
			// key bytes that come from a string parameter of the constructor
			fromParam := -1
			for d := range dataDeps(c.Common().Args[1]) {
				if p, ok := d.(*ssa.Parameter); ok {
					if b, ok := p.Type().Underlying().(*types.Basic); ok && b.Kind() == types.String {
						for i, q := range f.Params {
							if q == p {
								fromParam = i
							}
						}
					}
				}
			}
			if fromParam < 0 {
				continue
			}
			n++
			ok := canonical(c.Common().Args[1])
			how := "the constructor formats the parsed id"
			if !ok {
				sites := callSitesOf(w)[f]
				ok = len(sites) > 0
				for _, s := range sites {
					sc, isCall := s.(ssa.CallInstruction)
					if !isCall || fromParam >= len(sc.Common().Args) || !canonical(sc.Common().Args[fromParam]) {
						ok = false
					}
				}
				how = "every call site passes a formatted id"
			}
			r.check(ok, fname(f)+":annotation-key:canonical", how,
				"the store key of an annotation is the key string as the client spelled it: \"007\" names body 7 in the in-memory head and another key in the store, so a delete or update through such a spelling changes the head's answers and not the store's (or creates a second stored record for the body)", w.pos(c.Pos()))
		}
	}
	r.check(n >= 1, "neuronjson:annotation-key-constructors", fmt.Sprintf("%d constructors build a store key from a string parameter", n), "none found: rule needs review", "-")
}

// ---------------------------------------------------------------------------------------------
// R7.10 — the branch a new child is stored with is the branch its siblings were compared with.

func init() {
	register(ruleDef{ID: "R7.10", Prop: "C07", Tier: "quick", Floor: 3,
		Title: "the branch a new version is given is the branch that was checked for uniqueness: in newVersion every comparison of another node's branch inside a loop (over the parent's children, over all nodes) compares with the very value that reaches the store into the child's branch field along that path",
		Fn:    ruleBranchCheckedIsBranchStored})
}

// r7_10Helper: the branch checks of newVersion live in a validating helper that returns the branch the child is to
// carry.  In the helper every in-loop comparison of another node's branch compares with the value the helper returns
// on the success returns the comparison can reach; in newVersion that result is what is stored into the child.
func r7_10Helper(r *Run, f *ssa.Function, hcall *ssa.Call, g *ssa.Function) {
	w := r.W
	isBranchLoad := func(v ssa.Value) bool { return isFieldLoad(stripConv(v), "nodeT", "branch") }
	// newVersion: child.branch = <first result of the helper>
	okStore, nStore := true, 0
	for _, st := range fieldStores(f, "nodeT", "branch") {
		nStore++
		ex, ok := stripConv(st.Val).(*ssa.Extract)
		if !ok || ex.Tuple != ssa.Value(hcall) || ex.Index != 0 {
			okStore = false
		}
	}
	r.check(nStore >= 1 && okStore, "newVersion:child-branch-is-the-checked-branch", "the branch stored into the child is the branch the validating helper returned",
		"the child is stored with a branch other than the one the uniqueness check was made for", w.pos(hcall.Pos()))
	reach := func(from, to *ssa.BasicBlock) bool { return from == to || blockReaches(from, to) }
	k := 0
	for _, b := range g.Blocks {
		if _, set, _ := innermostLoop(g, b); set == nil {
			continue
		}
		for _, in := range b.Instrs {
			bo, ok := in.(*ssa.BinOp)
			if !ok || (bo.Op != token.EQL && bo.Op != token.NEQ) {
				continue
			}
			var y ssa.Value
			if isBranchLoad(bo.X) {
				y = stripConv(bo.Y)
			} else if isBranchLoad(bo.Y) {
				y = stripConv(bo.X)
			}
			if y == nil {
				continue
			}
			k++
			ok2 := true
			for _, rb := range g.Blocks {
				ret, isRet := rb.Instrs[len(rb.Instrs)-1].(*ssa.Return)
				if !isRet || isErrorExit(ret) || len(ret.Results) == 0 || !reach(b, rb) {
					continue
				}
				x := stripConv(ret.Results[0])
				if phi, isPhi := x.(*ssa.Phi); isPhi {
					for i, e := range phi.Edges {
						if reach(b, phi.Block().Preds[i]) && stripConv(e) != y {
							ok2 = false
						}
					}
				} else if x != y {
					ok2 = false
				}
			}
			r.check(ok2, fmt.Sprintf("newVersion:branch-comparison#%d", k), "the compared branch is the value the helper returns along every path from the comparison",
				"the uniqueness check compares other nodes' branches with one value and the child is then stored with another: a plain newversion on a node of a named branch is compared with the empty request value, finds no sibling, and a second child lands on the same branch", w.pos(bo.Pos()))
		}
	}
	r.check(k >= 2, "newVersion:branch-comparisons", fmt.Sprintf("%d comparisons of other nodes' branches inside loops", k), "fewer than the two loops confirmed by reading: rule needs review", w.fpos(g))
}

func ruleBranchCheckedIsBranchStored(r *Run) {
	w := r.W
	f := w.method("datastore", "repoManager", "newVersion")
	if f == nil {
		r.undecided("datastore.repoManager.newVersion", "anchor not found")
		return
	}
	if hcall, hfn := branchCheckHelper(f); hcall != nil {
		r7_10Helper(r, f, hcall, hfn)
		return
	}
	if !newVersionIntact(r, f) {
		return
	}
	isBranchLoad := func(v ssa.Value) bool {
		u, ok := stripConv(v).(*ssa.UnOp)
		if !ok || u.Op != token.MUL {
			return false
		}
		fa, ok := u.X.(*ssa.FieldAddr)
		if !ok {
			return false
		}
		name, _, _ := fieldName(fa)
		return name == "branch"
	}
	// the store into the new child's branch field
	var store *ssa.Store
	for _, b := range f.Blocks {
		for _, in := range b.Instrs {
			st, ok := in.(*ssa.Store)
			if !ok {
				continue
			}
			fa, ok := st.Addr.(*ssa.FieldAddr)
			if !ok {
				continue
			}
			if name, _, _ := fieldName(fa); name == "branch" {
				store = st
			}
		}
	}
	if store == nil {
		r.undecided("newVersion:child.branch", "store into the child's branch field not found")
		return
	}
	loops := naturalLoops(f)
	inLoop := func(b *ssa.BasicBlock) bool {
		for _, set := range loops {
			if set[b] {
				return true
			}
		}
		return false
	}
	reaches := func(from, to, avoid *ssa.BasicBlock) bool {
		seen := map[*ssa.BasicBlock]bool{}
		stack := []*ssa.BasicBlock{from}
		for len(stack) > 0 {
			x := stack[len(stack)-1]
			stack = stack[:len(stack)-1]
			if seen[x] || (x == avoid && x != from) {
				continue
			}
			seen[x] = true
			if x == to {
				return true
			}
			stack = append(stack, x.Succs...)
		}
		return false
	}
	k := 0
	for _, b := range f.Blocks {
		if !inLoop(b) {
			continue
		}
		for _, in := range b.Instrs {
			bo, ok := in.(*ssa.BinOp)
			if !ok || (bo.Op != token.EQL && bo.Op != token.NEQ) {
				continue
			}
			var y ssa.Value
			if isBranchLoad(bo.X) {
				y = stripConv(bo.Y)
			} else if isBranchLoad(bo.Y) {
				y = stripConv(bo.X)
			}
			if y == nil {
				continue
			}
			k++
			ok2 := true
			x := stripConv(store.Val)
			if phi, isPhi := x.(*ssa.Phi); isPhi {
				for i, e := range phi.Edges {
					pred := phi.Block().Preds[i]
					if reaches(b, pred, phi.Block()) && stripConv(e) != y {
						ok2 = false
					}
				}
			} else if reaches(b, store.Block(), nil) && x != y {
				ok2 = false
			}
			r.check(ok2, fmt.Sprintf("newVersion:branch-comparison#%d", k), "the compared branch is the value stored into the child along every path from the comparison",
				"the uniqueness check compares other nodes' branches with one value and the child is then stored with another: a plain newversion on a node of a named branch is compared with the empty request value, finds no sibling, and a second child lands on the same branch", w.pos(bo.Pos()))
		}
	}
	r.check(k >= 2, "newVersion:branch-comparisons", fmt.Sprintf("%d comparisons of other nodes' branches inside loops", k), "fewer than the two loops confirmed by reading: rule needs review", w.fpos(f))
}

// ---------------------------------------------------------------------------------------------
// R12.11 / R6.14 / R7.12 — handing out the current value of an id counter advances the counter:
// in every datastore function that both stores into repoID / versionID / instanceID of the repo
// manager and returns a value computed from a load of that counter, each path from the load to a
// return without error passes a store into the counter.

func init() {
	reg := func(id, prop string) {
		register(ruleDef{ID: id, Prop: prop, Tier: "quick", Floor: 4,
			Title: "an id handed out is never handed out again: in every datastore function that stores into a repo-manager id counter (repoID, versionID, instanceID) and returns a value computed from a load of it, every path from that load to a return without error passes a store into the counter",
			Fn:    ruleCounterAdvancedOnEveryPath})
	}
	reg("R12.11", "C12")
	reg("R6.14", "C06")
	reg("R7.12", "C07")
}

func ruleCounterAdvancedOnEveryPath(r *Run) {
	w := r.W
	n := 0
	for _, f := range w.RepoFuncs {
		if relPkg(pkgPathOf(f)) != "datastore" || len(f.Blocks) == 0 || strings.HasSuffix(w.fposFile(f), "_test.go") {
			continue
		}
		for _, ctr := range []string{"repoID", "versionID", "instanceID"} {
			stores := fieldStores(f, "repoManager", ctr)
			if len(stores) == 0 {
				continue
			}
			isStore := func(x ssa.Instruction) bool {
				for _, s := range stores {
					if ssa.Instruction(s) == x {
						return true
					}
				}
				return false
			}
			k := 0
			for _, b := range f.Blocks {
				for _, in := range b.Instrs {
					ld, ok := in.(*ssa.UnOp)
					if !ok || ld.Op != token.MUL {
						continue
					}
					fa, ok := ld.X.(*ssa.FieldAddr)
					if !ok {
						continue
					}
					if name, _, _ := fieldName(fa); name != ctr || !strings.HasSuffix(fa.X.Type().String(), "repoManager") {
						continue
					}
					// returned?
					returned := false
					for _, b2 := range f.Blocks {
						if ret, ok := b2.Instrs[len(b2.Instrs)-1].(*ssa.Return); ok {
							for _, rv := range ret.Results {
								if rv == ssa.Value(ld) || dataDeps(rv)[ld] {
									returned = true
								}
							}
						}
					}
					if !returned {
						continue
					}
					k++
					n++
					p := findPath(f, ld, isStore, func(x ssa.Instruction) bool {
						ret, ok := x.(*ssa.Return)
						if !ok || isErrorExit(ret) {
							return false
						}
						for _, rv := range ret.Results {
							if rv == ssa.Value(ld) || dataDeps(rv)[ld] {
								return true
							}
						}
						return false
					}, allEdges)
					r.check(p == nil, fmt.Sprintf("%s:%s#%d:advanced-before-returned", fname(f), ctr, k), "every return of the loaded counter value lies behind a store into the counter",
						"the current value of the id counter "+ctr+" is returned along a path that does not advance the counter: the next allocation hands out the same id, so two versions (repos, instances) share one local id and with it their storage keys", w.pos(ld.Pos()), w.renderPath(p)...)
				}
			}
		}
	}
	r.check(n >= 3, "datastore:id-allocations", fmt.Sprintf("%d returned counter loads in allocating functions", n), "fewer than the three allocators confirmed by reading: rule needs review", "-")
}

// ---------------------------------------------------------------------------------------------
// R12.12 / R6.15 — every writer of the persisted id-counter record lays the three counters out in
// the order in which the loader reads them.

func init() {
	reg := func(id, prop string) {
		register(ruleDef{ID: id, Prop: prop, Tier: "quick", Floor: 3,
			Title: "the persisted id-counter record has one layout: every datastore function that puts a value under the new-ids metadata key concatenates the repo-manager counters in the order in which the loader slices them out of the stored value (by ascending offset)",
			Fn:    ruleNewIDsLayout})
	}
	reg("R12.12", "C12")
	reg("R6.15", "C06")
}

func ruleNewIDsLayout(r *Run) {
	w := r.W
	isCounter := func(name string) bool { return name == "repoID" || name == "versionID" || name == "instanceID" }
	counterOfLoad := func(v ssa.Value) string {
		u, ok := stripConv(v).(*ssa.UnOp)
		if !ok || u.Op != token.MUL {
			return ""
		}
		fa, ok := u.X.(*ssa.FieldAddr)
		if !ok {
			return ""
		}
		name, _, _ := fieldName(fa)
		if isCounter(name) && strings.HasSuffix(fa.X.Type().String(), "repoManager") {
			return name
		}
		return ""
	}
	usesNewIDsKey := func(key ssa.Value) bool {
		for d := range dataDeps(key) {
			c, ok := d.(*ssa.Call)
			if !ok {
				continue
			}
			callee := c.Call.StaticCallee()
			if callee == nil || callee.Name() != "NewTKey" || len(c.Call.Args) != 2 {
				continue
			}
			if k, ok := c.Call.Args[0].(*ssa.Const); ok {
				if obj := w.pkgScopeConst("datastore", "newIDsKey"); obj != nil && k.Value != nil && k.Value.String() == obj.String() {
					return true
				}
			}
		}
		return false
	}
	var seqOf func(v ssa.Value, depth int) []string
	seqOf = func(v ssa.Value, depth int) []string {
		if depth > 8 {
			return nil
		}
		switch x := v.(type) {
		case *ssa.Call:
			if b, ok := x.Call.Value.(*ssa.Builtin); ok && b.Name() == "append" {
				var out []string
				for _, a := range x.Call.Args {
					out = append(out, seqOf(a, depth+1)...)
				}
				return out
			}
			if callee := x.Call.StaticCallee(); callee != nil && callee.Name() == "Bytes" && len(x.Call.Args) == 1 {
				if n := counterOfLoad(x.Call.Args[0]); n != "" {
					return []string{n}
				}
			}
		case *ssa.Slice:
			return seqOf(x.X, depth+1)
		case *ssa.ChangeType:
			return seqOf(x.X, depth+1)
		}
		return nil
	}
	var readerSeq []string
	var readerAt string
	type writer struct {
		f   *ssa.Function
		seq []string
		pos string
	}
	var writers []writer
	for _, f := range w.RepoFuncs {
		if relPkg(pkgPathOf(f)) != "datastore" || len(f.Blocks) == 0 || strings.HasSuffix(w.fposFile(f), "_test.go") {
			continue
		}
		for _, c := range calls(f) {
			name := methodNameOf(c)
			args := c.Common().Args
			if name == "Put" && c.Common().IsInvoke() && len(args) == 3 && usesNewIDsKey(args[1]) {
				writers = append(writers, writer{f, seqOf(args[2], 0), w.pos(c.Pos())})
			}
			if name == "Get" && c.Common().IsInvoke() && len(args) == 2 && usesNewIDsKey(args[1]) {
				// the loader: stores into the counters from slices of the value, ordered by offset
				type rd struct {
					off  int64
					name string
				}
				var rds []rd
				for _, b := range f.Blocks {
					for _, in := range b.Instrs {
						st, ok := in.(*ssa.Store)
						if !ok {
							continue
						}
						fa, ok := st.Addr.(*ssa.FieldAddr)
						if !ok {
							continue
						}
						fname2, _, _ := fieldName(fa)
						if !isCounter(fname2) {
							continue
						}
						for d := range dataDeps(st.Val) {
							if sl, ok := d.(*ssa.Slice); ok && sl.Low != nil {
								if l := lin(sl.Low, 0); l.ok && len(l.terms) == 0 {
									rds = append(rds, rd{l.c, fname2})
								}
							} else if ok && sl.Low == nil && sl.High != nil {
								rds = append(rds, rd{0, fname2})
							}
						}
					}
				}
				sort.Slice(rds, func(i, j int) bool { return rds[i].off < rds[j].off })
				readerSeq = nil
				for _, x := range rds {
					readerSeq = append(readerSeq, x.name)
				}
				readerAt = fname(f)
			}
		}
	}
	if len(readerSeq) != 3 {
		r.undecided("datastore:new-ids-loader", fmt.Sprintf("the loader's layout could not be read (got %v)", readerSeq))
		return
	}
	r.note("R12.12: loader %s reads %v", readerAt, readerSeq)
	for _, wr := range writers {
		r.check(strings.Join(wr.seq, ",") == strings.Join(readerSeq, ","), fname(wr.f)+":new-ids-record:layout", "written as "+strings.Join(wr.seq, ",")+", as the loader reads it",
			fmt.Sprintf("the id-counter record is written as %v but the loader reads %v: after a start on this record a counter takes another counter's value, and ids already in use are handed out again", wr.seq, readerSeq), wr.pos)
	}
	r.check(len(writers) >= 2, "datastore:new-ids-writers", fmt.Sprintf("%d writers of the id-counter record", len(writers)), "fewer than the two writers confirmed by reading (putNewIDs, FlattenMetadata): rule needs review", "-")
}

// ---------------------------------------------------------------------------------------------
// R6.16 / R12.13 — local instance ids are minted by the allocator only: the id a data service is
// given (SetInstanceID, TypeService.NewDataService) in package datastore comes, on every path,
// from a call of repoManager.newInstanceID.

func init() {
	reg := func(id, prop string) {
		register(ruleDef{ID: id, Prop: prop, Tier: "quick", Floor: 3,
			Title: "local instance ids come from the allocator only: in package datastore, the instance id handed to a data service (SetInstanceID, TypeService.NewDataService) is, along every path, the result of repoManager.newInstanceID — never an id taken from a received repo or a request",
			Fn:    ruleInstanceIDFromAllocator})
	}
	reg("R6.16", "C06")
	reg("R12.13", "C12")
}

func ruleInstanceIDFromAllocator(r *Run) {
	w := r.W
	n := 0
	for _, f := range w.RepoFuncs {
		if relPkg(pkgPathOf(f)) != "datastore" || len(f.Blocks) == 0 || strings.HasSuffix(w.fposFile(f), "_test.go") {
			continue
		}
		k := 0
		for _, c := range calls(f) {
			name := methodNameOf(c)
			var arg ssa.Value
			args := c.Common().Args
			switch {
			case name == "SetInstanceID" && len(args) >= 1:
				arg = args[len(args)-1]
			case name == "NewDataService" && c.Common().IsInvoke() && len(args) == 4:
				arg = args[1]
			}
			if arg == nil {
				continue
			}
			k++
			n++
			bad := ""
			for _, rt := range roots(arg, f) {
				v := rt.V
				if ex, ok := v.(*ssa.Extract); ok {
					v = ex.Tuple
				}
				if call, ok := v.(*ssa.Call); ok {
					if callee := call.Call.StaticCallee(); callee != nil && callee.Name() == "newInstanceID" {
						continue
					}
				}
				bad = fmt.Sprintf("%s (%T)", v.Name(), v)
			}
			r.check(bad == "", fmt.Sprintf("%s:%s#%d:id-from-allocator", fname(f), name, k), "the id is the result of newInstanceID along every path",
				"a data service is given an instance id that does not come from the allocator along some path ("+bad+"): an id taken over from a received repo or a request is not reserved in the live-id set, so the allocator can hand it to another instance, and the two share every storage key", w.pos(c.Pos()))
		}
	}
	r.check(n >= 2, "datastore:instance-id-assignments", fmt.Sprintf("%d sites give a data service its instance id", n), "fewer than the two sites confirmed by reading (newData, remapLocalIDs): rule needs review", "-")
}

// ---------------------------------------------------------------------------------------------
// R12.15 / R19.7 — a copied instance continues the label counters of its source: the
// CopyPropertiesFrom of a label data type stores into every label-counter field its Data has
// (MaxLabel, MaxRepoLabel, NextLabel), because LoadMutable, which could rebuild them, only runs at start.

func init() {
	register(ruleDef{ID: "R12.14", Prop: "C12", Tier: "quick", Floor: 4,
		Title: "(shared with R6.4) instance ids are tested against the live set, incremented under idMutex and persisted afterwards",
		Fn:    ruleR6_4})
	reg := func(id, prop string) {
		register(ruleDef{ID: id, Prop: prop, Tier: "quick", Floor: 3,
			Title: "a copied label instance continues its source's label counters: for every data type whose Data has label-counter fields (MaxLabel, MaxRepoLabel, NextLabel), CopyPropertiesFrom stores into each of them from the source instance",
			Fn:    ruleCopyKeepsLabelCounters})
	}
	reg("R12.15", "C12")
	reg("R19.7", "C19")
}

func ruleCopyKeepsLabelCounters(r *Run) {
	w := r.W
	n := 0
	for _, pkg := range []string{"datatype/labelmap", "datatype/labelarray", "datatype/labelvol", "datatype/labelblk"} {
		f := w.method(pkg, "Data", "CopyPropertiesFrom")
		nt := w.named(pkg, "Data")
		if f == nil || nt == nil || len(f.Blocks) == 0 {
			continue
		}
		// the counter fields this Data has (directly or through an embedded Properties)
		have := map[string]bool{}
		var walk func(t types.Type, depth int)
		walk = func(t types.Type, depth int) {
			st, ok := t.Underlying().(*types.Struct)
			if !ok || depth > 2 {
				return
			}
			for i := 0; i < st.NumFields(); i++ {
				fd := st.Field(i)
				switch fd.Name() {
				case "MaxLabel", "MaxRepoLabel", "NextLabel":
					have[fd.Name()] = true
				}
				if fd.Embedded() && fd.Name() == "Properties" {
					walk(fd.Type(), depth+1)
				}
			}
		}
		walk(nt, 0)
		if len(have) == 0 {
			continue
		}
		stored := map[string]bool{}
		for _, g := range append([]*ssa.Function{f}, calleesIn(w, f, pkg)...) {
			for _, b := range g.Blocks {
				for _, in := range b.Instrs {
					if st, ok := in.(*ssa.Store); ok {
						if fa, ok := st.Addr.(*ssa.FieldAddr); ok {
							name, _, _ := fieldName(fa)
							stored[name] = true
						}
					}
				}
			}
		}
		for _, name := range []string{"MaxLabel", "MaxRepoLabel", "NextLabel"} {
			if !have[name] {
				continue
			}
			n++
			r.check(stored[name], fmt.Sprintf("%s.CopyPropertiesFrom:%s", pkg, name), "the counter is taken over from the source",
				"CopyPropertiesFrom leaves the label counter "+name+" of the copy at zero: the counters are rebuilt from the store only at server start, so until then the copy hands out labels that its copied voxels already use", w.fpos(f))
		}
	}
	r.check(n >= 3, "label-types:counter-fields-copied", fmt.Sprintf("%d counter fields in copy methods", n), "fewer than confirmed by reading: rule needs review", "-")
}

// calleesIn: the static callees of f inside pkg (one level).
func calleesIn(w *World, f *ssa.Function, pkg string) []*ssa.Function {
	var out []*ssa.Function
	for _, c := range calls(f) {
		if g := staticCallee(c); g != nil && len(g.Blocks) > 0 && relPkg(pkgPathOf(g)) == pkg {
			out = append(out, g)
		}
	}
	return out
}

// ---------------------------------------------------------------------------------------------
// R3.17 / R16.15 — a metadata value is cached under the key it was loaded with.
// R3.18 — a cache derived from the synced instances is dropped whenever the syncs were changed.

func init() {
	reg := func(id, prop string) {
		register(ruleDef{ID: id, Prop: prop, Tier: "quick", Floor: 3,
			Title: "metadata is cached under the key it was loaded with: in neuronjson, every store into the in-memory metadata map whose value comes from a metadata load or a request for a constant schema kind uses that same kind as the map key",
			Fn:    ruleMetadataKeyAgrees})
	}
	reg("R3.17", "C03")
	reg("R16.15", "C16")
	register(ruleDef{ID: "R3.18", Prop: "C03", Tier: "quick", Floor: 2,
		Title: "a cache computed from the synced instances does not outlive a change of the syncs: in every data type with a cached block size, each exit without error reachable after datastore.SetSyncByJSON passes a store of nil into the cache field",
		Fn:    ruleSyncChangeDropsCache})
}

func ruleMetadataKeyAgrees(r *Run) {
	w := r.W
	n := 0
	for _, f := range w.RepoFuncs {
		if relPkg(pkgPathOf(f)) != "datatype/neuronjson" || len(f.Blocks) == 0 || strings.HasSuffix(w.fposFile(f), "_test.go") {
			continue
		}
		k := 0
		for _, b := range f.Blocks {
			for _, in := range b.Instrs {
				mu, ok := in.(*ssa.MapUpdate)
				if !ok {
					continue
				}
				fa := mapFieldAddr(mu.Map)
				if fa == nil {
					continue
				}
				if name, _, _ := fieldName(fa); name != "metadata" {
					continue
				}
				for d := range dataDeps(mu.Value) {
					c, ok := d.(*ssa.Call)
					if !ok {
						continue
					}
					callee := c.Call.StaticCallee()
					if callee == nil || callee.Name() != "loadMetadata" || len(c.Call.Args) < 3 {
						continue
					}
					k++
					n++
					loaded := c.Call.Args[2]
					same := false
					if lc, ok := loaded.(*ssa.Const); ok {
						if kc, ok := mu.Key.(*ssa.Const); ok && lc.Value != nil && kc.Value != nil && lc.Value.String() == kc.Value.String() {
							same = true
						}
					} else if stripConv(loaded) == stripConv(mu.Key) {
						same = true
					}
					r.check(same, fmt.Sprintf("%s:metadata-cache#%d", fname(f), k), "cached under the kind it was loaded with",
						"a metadata value loaded for one schema kind is cached under another: after a restart GET of the one kind answers with the other's document and the other kind is missing", w.pos(mu.Pos()))
				}
			}
		}
	}
	r.check(n >= 2, "neuronjson:metadata-cache-loads", fmt.Sprintf("%d cached metadata loads", n), "fewer than the two confirmed by reading: rule needs review", "-")
}

func ruleSyncChangeDropsCache(r *Run) {
	w := r.W
	n := 0
	for _, f := range w.RepoFuncs {
		if !strings.HasPrefix(relPkg(pkgPathOf(f)), "datatype/") || len(f.Blocks) == 0 || strings.HasSuffix(w.fposFile(f), "_test.go") {
			continue
		}
		// the data type has a cached block size
		hasCache := false
		if nt := w.named(relPkg(pkgPathOf(f)), "Data"); nt != nil {
			if st, ok := nt.Underlying().(*types.Struct); ok {
				for i := 0; i < st.NumFields(); i++ {
					if st.Field(i).Name() == "cachedBlockSize" {
						hasCache = true
					}
				}
			}
		}
		if !hasCache {
			continue
		}
		for _, c := range calls(f) {
			callee := staticCallee(c)
			if callee == nil || callee.Name() != "SetSyncByJSON" || relPkg(pkgPathOf(callee)) != "datastore" {
				continue
			}
			n++
			resets := func(x ssa.Instruction) bool {
				st, ok := x.(*ssa.Store)
				if !ok {
					return false
				}
				fa, ok := st.Addr.(*ssa.FieldAddr)
				if !ok {
					return false
				}
				name, _, _ := fieldName(fa)
				cst, isConst := st.Val.(*ssa.Const)
				return name == "cachedBlockSize" && isConst && cst.IsNil()
			}
			// the branch on which the call failed changes nothing
			errv := ssa.Value(c.(*ssa.Call))
			okEdge := func(b *ssa.BasicBlock, i int) bool {
				ifi, ok := b.Instrs[len(b.Instrs)-1].(*ssa.If)
				if !ok {
					return true
				}
				bo, ok := ifi.Cond.(*ssa.BinOp)
				if !ok || (bo.X != errv && bo.Y != errv) {
					return true
				}
				if bo.Op == token.NEQ {
					return i != 0
				}
				if bo.Op == token.EQL {
					return i != 1
				}
				return true
			}
			p := findPath(f, c.(ssa.Instruction), resets, func(x ssa.Instruction) bool { _, ok := x.(*ssa.Return); return ok }, okEdge)
			r.check(p == nil, fname(f)+":sync-change:drops-cached-block-size", "every exit after a successful change of the syncs resets the cache",
				"the syncs of the instance were changed but the cached block size, which is taken from the synced label instance, survives on some path: elements posted from now on are filed under blocks of the old size, and a restart (which recomputes the size) no longer finds them", w.pos(c.Pos()), w.renderPath(p)...)
		}
	}
	r.check(n >= 1, "datatypes:sync-changes-with-cache", fmt.Sprintf("%d sync changes in data types with a cached block size", n), "none found: rule needs review", "-")
}

// ---------------------------------------------------------------------------------------------
// R16.17 — every way into the record update passes the bodyid check: the function that reads,
// merges and writes back an annotation record is called only behind a lookup of the posted
// record's "bodyid" (the validation that the record names the body of its key).

func init() {
	register(ruleDef{ID: "R16.16", Prop: "C16", Tier: "quick", Floor: 4,
		Title: "(shared with R4.4/R1.2) a versioned Put clears the same-version tombstone in the same transaction, so a key deleted and written again in one version reads the same from the store as from the in-memory head",
		Fn:    ruleR1_2})
	register(ruleDef{ID: "R16.17", Prop: "C16", Tier: "quick", Floor: 2,
		Title: "every way into the record update passes the bodyid check: each static call site of neuronjson's read-merge-write function is dominated by a lookup of \"bodyid\" in the posted record, so a batch or single POST cannot store a record without a body id or under another body's key",
		Fn:    ruleUpdateBehindBodyidCheck})
}

func ruleUpdateBehindBodyidCheck(r *Run) {
	w := r.W
	n := 0
	for _, f := range w.RepoFuncs {
		if relPkg(pkgPathOf(f)) != "datatype/neuronjson" || len(f.Blocks) == 0 || f.Parent() != nil || strings.HasSuffix(w.fposFile(f), "_test.go") {
			continue
		}
		get, put := false, false
		for _, c := range calls(f) {
			switch callName(c) {
			case "getStoreData":
				get = true
			case "putStoreData":
				put = true
			}
		}
		if !get || !put {
			continue
		}
		sites := callSitesOf(w)[f]
		k := 0
		for _, s := range sites {
			g := s.Parent()
			if strings.HasSuffix(w.fposFile(g), "_test.go") {
				continue
			}
			k++
			n++
			checked := false
			for _, b := range g.Blocks {
				for _, in := range b.Instrs {
					lk, ok := in.(*ssa.Lookup)
					if !ok {
						continue
					}
					if c, ok := lk.Index.(*ssa.Const); ok && c.Value != nil && c.Value.ExactString() == `"bodyid"` && (b == s.Block() || b.Dominates(s.Block())) {
						checked = true
					}
				}
			}
			r.check(checked, fmt.Sprintf("%s:called-from:%s#%d", fname(f), fname(g), k), "the call lies behind a lookup of the record's bodyid",
				"the record update is reached without the check that the posted record carries the body id of its key: a record without bodyid, or with another body's id, is stored — the in-memory head files it under the key's number while the store-backed readers skip or misplace it", w.pos(s.Pos()))
		}
	}
	r.check(n >= 1, "neuronjson:record-update-call-sites", fmt.Sprintf("%d call sites of the record update", n), "none found: rule needs review", "-")
}

// ---------------------------------------------------------------------------------------------
// R16.18 — a null never reaches the stored record: where neuronjson ranges over the posted record
// and removes null-valued fields from it, every path on which the value was found to be nil passes
// the delete of that field from the posted record before the next field is looked at.

func init() {
	register(ruleDef{ID: "R16.18", Prop: "C16", Tier: "quick", Floor: 2,
		Title: "a null never reaches the stored record: in every neuronjson loop over the posted record that deletes fields from it, each path from the value-is-nil edge back to the loop head passes delete(record, field) — whether or not the stored annotation had the field",
		Fn:    ruleNullFieldsRemoved})
}

func ruleNullFieldsRemoved(r *Run) {
	w := r.W
	n := 0
	for _, f := range w.RepoFuncs {
		if relPkg(pkgPathOf(f)) != "datatype/neuronjson" || len(f.Blocks) == 0 || strings.HasSuffix(w.fposFile(f), "_test.go") {
			continue
		}
		for _, b := range f.Blocks {
			for _, in := range b.Instrs {
				nx, ok := in.(*ssa.Next)
				if !ok {
					continue
				}
				rg, ok := nx.Iter.(*ssa.Range)
				if !ok {
					continue
				}
				m := rg.X
				var key, val ssa.Value
				for _, ref := range *nx.Referrers() {
					if ex, ok := ref.(*ssa.Extract); ok {
						if ex.Index == 1 {
							key = ex
						}
						if ex.Index == 2 {
							val = ex
						}
					}
				}
				if key == nil || val == nil {
					continue
				}
				isDel := func(x ssa.Instruction) bool {
					c, ok := x.(*ssa.Call)
					if !ok {
						return false
					}
					bi, ok := c.Call.Value.(*ssa.Builtin)
					return ok && bi.Name() == "delete" && len(c.Call.Args) == 2 && c.Call.Args[0] == m && c.Call.Args[1] == key
				}
				if findFirst(f, isDel) == nil {
					continue
				}
				// the If testing the value against nil
				for _, b2 := range f.Blocks {
					ifi, ok := b2.Instrs[len(b2.Instrs)-1].(*ssa.If)
					if !ok {
						continue
					}
					bo, ok := ifi.Cond.(*ssa.BinOp)
					if !ok || (bo.Op != token.EQL && bo.Op != token.NEQ) {
						continue
					}
					var other ssa.Value
					if bo.X == val {
						other = bo.Y
					} else if bo.Y == val {
						other = bo.X
					}
					c, isConst := other.(*ssa.Const)
					if other == nil || !isConst || !c.IsNil() {
						continue
					}
					n++
					nilSucc := 0
					if bo.Op == token.NEQ {
						nilSucc = 1
					}
					start := b2.Succs[nilSucc]
					var first ssa.Instruction
					if len(start.Instrs) > 0 {
						first = start.Instrs[0]
					}
					bad := false
					if first != nil && !isDel(first) {
						// a path from the nil edge to the next iteration (the Next instruction) without the delete
						seen := map[*ssa.BasicBlock]bool{}
						var dfs func(x *ssa.BasicBlock) bool
						dfs = func(x *ssa.BasicBlock) bool {
							if seen[x] {
								return false
							}
							seen[x] = true
							for _, y := range x.Instrs {
								if isDel(y) {
									return false
								}
								if y == ssa.Instruction(nx) {
									return true
								}
							}
							for _, s := range x.Succs {
								if dfs(s) {
									return true
								}
							}
							return false
						}
						bad = dfs(start)
					}
					r.check(!bad, fmt.Sprintf("%s:null-field-removed#%d", fname(f), n), "every path from the nil edge to the next field passes the delete",
						"a field posted as null can stay in the record that is stored: when the stored annotation lacks the field the null is kept, GET shows \"field\":null and the field list names it — a null must remove a field's value", w.pos(bo.Pos()))
				}
			}
		}
	}
	r.check(n >= 1, "neuronjson:null-removal-loops", fmt.Sprintf("%d nil tests in loops that delete from the ranged record", n), "none found: rule needs review", "-")
}

func init() {
	register(ruleDef{ID: "R7.11", Prop: "C07", Tier: "quick", Floor: 10,
		Title: "the DAG survives a restart as it was acknowledged (shared with R3.3): every change of a node's parents, children, branch or lock state and of the node map is followed by a save of the repo on every exit without error",
		Fn:    ruleR3_3})
}

// ---------------------------------------------------------------------------------------------
// R3.19 / R16.19 — start-up caches every schema kind;  R16.20 — removing the validation schema
// document from the head's cache also drops the compiled schema.

func init() {
	reg := func(id, prop string) {
		register(ruleDef{ID: id, Prop: prop, Tier: "quick", Floor: 3,
			Title: "start-up caches every kind of neuronjson metadata: Initialize stores into the in-memory metadata map under each constant of type Schema, with no dependence on whether the leaf is an open head",
			Fn:    ruleInitializeCachesEveryKind})
	}
	reg("R3.19", "C03")
	reg("R16.19", "C16")
	register(ruleDef{ID: "R16.20", Prop: "C16", Tier: "quick", Floor: 2,
		Title: "the compiled validation schema follows its document: every neuronjson function that deletes an entry of the in-memory metadata map under a key that can be JSONSchema also stores into compiledSchema",
		Fn:    ruleCompiledSchemaFollowsDocument})
}

func ruleInitializeCachesEveryKind(r *Run) {
	w := r.W
	f := w.method("datatype/neuronjson", "Data", "Initialize")
	tp := w.tpkg("datatype/neuronjson")
	if f == nil || tp == nil {
		r.undecided("neuronjson.Data.Initialize", "anchor not found")
		return
	}
	kinds := map[string]string{} // constant value → name
	for _, name := range tp.Scope().Names() {
		if c, ok := tp.Scope().Lookup(name).(*types.Const); ok && strings.HasSuffix(c.Type().String(), "neuronjson.Schema") {
			kinds[c.Val().ExactString()] = name
		}
	}
	cached := map[string]bool{}
	for _, b := range f.Blocks {
		for _, in := range b.Instrs {
			mu, ok := in.(*ssa.MapUpdate)
			if !ok {
				continue
			}
			fa := mapFieldAddr(mu.Map)
			if fa == nil {
				continue
			}
			if name, _, _ := fieldName(fa); name != "metadata" {
				continue
			}
			if kc, ok := mu.Key.(*ssa.Const); ok && kc.Value != nil {
				cached[kc.Value.ExactString()] = true
			}
		}
	}
	var vals []string
	for v := range kinds {
		vals = append(vals, v)
	}
	sort.Strings(vals)
	for _, v := range vals {
		r.check(cached[v], "neuronjson.Initialize:caches:"+kinds[v], "cached at start-up",
			"Initialize does not put the "+kinds[v]+" document into the in-memory metadata map: the head answers from that map, so after a restart a GET at the head (or at a version that becomes the head later) answers 404 for a document its ancestors have", w.fpos(f))
	}
	r.check(len(vals) >= 3, "neuronjson:schema-kinds", fmt.Sprintf("%d constants of type Schema", len(vals)), "fewer than the three kinds confirmed by reading: rule needs review", "-")
}

func ruleCompiledSchemaFollowsDocument(r *Run) {
	w := r.W
	n := 0
	jsVal := ""
	if c := w.pkgScopeConst("datatype/neuronjson", "JSONSchema"); c != nil {
		jsVal = c.ExactString()
	}
	for _, f := range w.RepoFuncs {
		if relPkg(pkgPathOf(f)) != "datatype/neuronjson" || len(f.Blocks) == 0 || strings.HasSuffix(w.fposFile(f), "_test.go") {
			continue
		}
		k := 0
		for _, c := range calls(f) {
			cc, ok := c.(*ssa.Call)
			if !ok {
				continue
			}
			bi, ok := cc.Call.Value.(*ssa.Builtin)
			if !ok || bi.Name() != "delete" || len(cc.Call.Args) != 2 {
				continue
			}
			fa := mapFieldAddr(cc.Call.Args[0])
			if fa == nil {
				continue
			}
			if name, _, _ := fieldName(fa); name != "metadata" {
				continue
			}
			if kc, ok := cc.Call.Args[1].(*ssa.Const); ok && kc.Value != nil && kc.Value.ExactString() != jsVal {
				continue // a constant other kind
			}
			k++
			n++
			stores := false
			for _, b := range f.Blocks {
				for _, in := range b.Instrs {
					if st, ok := in.(*ssa.Store); ok {
						if fa2, ok := st.Addr.(*ssa.FieldAddr); ok {
							if name, _, _ := fieldName(fa2); name == "compiledSchema" {
								stores = true
							}
						}
					}
				}
			}
			r.check(stores, fmt.Sprintf("%s:metadata-delete#%d", fname(f), k), "the function also resets compiledSchema",
				"the validation schema document can be removed from the head's cache while the compiled schema stays: POSTs at the head are still validated and converted by the deleted schema, and a restarted server stores other values for the same requests", w.pos(cc.Pos()))
		}
	}
	r.check(n >= 1, "neuronjson:metadata-deletes", fmt.Sprintf("%d deletes from the metadata cache", n), "none found: rule needs review", "-")
}

// ---------------------------------------------------------------------------------------------
// R16.21 — a read option is honoured on both paths: no neuronjson function ignores its field
// selection (a parameter of type map[string]struct{}) or its Fields display option — the parameter is
// used in the function or in a closure it creates.

func init() {
	register(ruleDef{ID: "R16.21", Prop: "C16", Tier: "quick", Floor: 8,
		Title: "a read option is honoured on the store path as on the in-memory path: every neuronjson function that takes the field selection (map[string]struct{}) or the Fields display option uses it — directly or in a closure it creates; a reader that ignores the option answers differently from its sibling",
		Fn:    ruleReadOptionsUsed})
}

func ruleReadOptionsUsed(r *Run) {
	w := r.W
	n := 0
	used := func(p ssa.Value) bool {
		refs := p.Referrers()
		if refs == nil {
			return false
		}
		for _, ref := range *refs {
			switch x := ref.(type) {
			case *ssa.DebugRef:
			case *ssa.MakeClosure:
				// captured: used when the closure reads it
				if cl, ok := x.Fn.(*ssa.Function); ok {
					for i, b := range x.Bindings {
						if b == p && i < len(cl.FreeVars) {
							if rr := cl.FreeVars[i].Referrers(); rr != nil && len(*rr) > 0 {
								return true
							}
						}
					}
				}
			case *ssa.Store:
				// spilled to a cell that a closure captures by reference
				if al, ok := x.Addr.(*ssa.Alloc); ok && x.Val == p {
					for _, r2 := range *al.Referrers() {
						switch y := r2.(type) {
						case *ssa.UnOp:
							return true
						case *ssa.MakeClosure:
							if cl, ok := y.Fn.(*ssa.Function); ok {
								for i, b := range y.Bindings {
									if b == ssa.Value(al) && i < len(cl.FreeVars) {
										if rr := cl.FreeVars[i].Referrers(); rr != nil && len(*rr) > 0 {
											return true
										}
									}
								}
							}
						}
					}
				} else {
					return true
				}
			default:
				return true
			}
		}
		return false
	}
	for _, f := range w.RepoFuncs {
		if relPkg(pkgPathOf(f)) != "datatype/neuronjson" || len(f.Blocks) == 0 || f.Parent() != nil || strings.HasSuffix(w.fposFile(f), "_test.go") {
			continue
		}
		for _, p := range f.Params {
			ts := p.Type().String()
			isSel := ts == "map[string]struct{}"
			isShow := strings.HasSuffix(ts, "neuronjson.Fields")
			if !isSel && !isShow {
				continue
			}
			n++
			what := "field selection"
			if isShow {
				what = "Fields display option"
			}
			r.check(used(p), fname(f)+":"+p.Name()+":used", "the "+what+" is used",
				"the function takes the "+what+" of the request and never looks at it: this reader returns whole records (or the default display) where its sibling on the other path applies the option, so a version read through the store answers differently from the same content read through the in-memory head", w.fpos(f))
		}
	}
	r.check(n >= 8, "neuronjson:read-option-parameters", fmt.Sprintf("%d option parameters", n), "fewer than confirmed by reading: rule needs review", "-")
}

// ---------------------------------------------------------------------------------------------
// R16.22 / R3.20 — a field count that reaches zero leaves the table;  R16.23 / R3.21 — the time
// table only moves forward.

func init() {
	reg := func(id, prop string) {
		register(ruleDef{ID: id, Prop: prop, Tier: "quick", Floor: 2,
			Title: "a field nobody uses any more is not listed: every function that decrements an entry of the in-memory field-count table also deletes entries from that table (under a test of the count), as a reload from the store would not list the field",
			Fn:    ruleZeroCountDropped})
	}
	reg("R16.22", "C16")
	reg("R3.20", "C03")
	reg2 := func(id, prop string) {
		register(ruleDef{ID: id, Prop: prop, Tier: "quick", Floor: 2,
			Title: "the field-time table gives the latest change, however it is built: every store into the in-memory field-time table is decided by a lookup of the entry it replaces (absent, or older), in updates as in the start-up scan",
			Fn:    ruleFieldTimesMonotone})
	}
	reg2("R16.23", "C16")
	reg2("R3.21", "C03")
}

func ruleZeroCountDropped(r *Run) {
	w := r.W
	n := 0
	for _, f := range w.RepoFuncs {
		if relPkg(pkgPathOf(f)) != "datatype/neuronjson" || len(f.Blocks) == 0 || strings.HasSuffix(w.fposFile(f), "_test.go") {
			continue
		}
		var dec *ssa.MapUpdate
		drops := false
		for _, b := range f.Blocks {
			for _, in := range b.Instrs {
				if mu, ok := in.(*ssa.MapUpdate); ok && isFieldLoad(mu.Map, "memdb", "fields") {
					if bo, ok := mu.Value.(*ssa.BinOp); ok && bo.Op == token.SUB {
						dec = mu
					}
				}
				if c, ok := in.(*ssa.Call); ok {
					if bi, ok := c.Call.Value.(*ssa.Builtin); ok && bi.Name() == "delete" && len(c.Call.Args) == 2 && isFieldLoad(c.Call.Args[0], "memdb", "fields") {
						drops = true
					}
				}
			}
		}
		if dec == nil {
			continue
		}
		n++
		r.check(drops, fname(f)+":field-count:dropped-at-zero", "the function deletes exhausted entries",
			"a field count is decremented and never removed: after the last annotation with the field is deleted or the field is nulled, fields?counts=true on the head lists \"field\":0 while the store path and a restarted server do not list the field", w.pos(dec.Pos()))
	}
	r.check(n >= 1, "neuronjson:field-count-decrementers", fmt.Sprintf("%d functions decrement field counts", n), "none found: rule needs review", "-")
}

func ruleFieldTimesMonotone(r *Run) {
	w := r.W
	n := 0
	for _, f := range w.RepoFuncs {
		if relPkg(pkgPathOf(f)) != "datatype/neuronjson" || len(f.Blocks) == 0 || strings.HasSuffix(w.fposFile(f), "_test.go") {
			continue
		}
		k := 0
		for _, b := range f.Blocks {
			for _, in := range b.Instrs {
				mu, ok := in.(*ssa.MapUpdate)
				if !ok || !isFieldLoad(mu.Map, "memdb", "fieldTimes") {
					continue
				}
				k++
				n++
				// decided by a lookup of the same table under the same key
				decided := false
				for _, b2 := range f.Blocks {
					ifi, ok := b2.Instrs[len(b2.Instrs)-1].(*ssa.If)
					if !ok || !b2.Dominates(b) || b2 == b {
						continue
					}
					for d := range dataDeps(ifi.Cond) {
						if lk, ok := d.(*ssa.Lookup); ok && isFieldLoad(lk.X, "memdb", "fieldTimes") && coordKey(lk.Index) == coordKey(mu.Key) {
							decided = true
						}
					}
				}
				r.check(decided, fmt.Sprintf("%s:field-time-store#%d", fname(f), k), "the store is decided by a lookup of the entry it replaces",
					"a time is written into the field-time table without a look at the entry it replaces: an update that carries an older <field>_time forward moves the table backwards, while the start-up scan takes the latest time — fieldtimes differs across a restart", w.pos(mu.Pos()))
			}
		}
	}
	r.check(n >= 2, "neuronjson:field-time-stores", fmt.Sprintf("%d stores into the field-time table", n), "fewer than confirmed by reading: rule needs review", "-")
}

// ---------------------------------------------------------------------------------------------
// R3.22 / R7.13 — pruned id maps are persisted: a datastore function that deletes entries from the
// persisted uuid/version/repo maps of the repo manager passes putCaches on every exit without error.

func init() {
	reg := func(id, prop string) {
		register(ruleDef{ID: id, Prop: prop, Tier: "quick", Floor: 3,
			Title: "identifiers that were removed stay removed: every datastore function that deletes entries of the persisted id maps (uuidToVersion, versionToUUID, repoToUUID) reaches, on every path from the delete to an exit without error, a call that persists the maps (putCaches)",
			Fn:    rulePrunedMapsPersisted})
	}
	reg("R3.22", "C03")
	reg("R7.13", "C07")
}

func rulePrunedMapsPersisted(r *Run) {
	w := r.W
	persists := w.newReach(func(c ssa.CallInstruction) bool {
		callee := staticCallee(c)
		return callee != nil && callee.Name() == "putCaches"
	}, nil)
	isPersist := func(x ssa.Instruction) bool {
		c, ok := x.(ssa.CallInstruction)
		if !ok {
			return false
		}
		if callee := staticCallee(c); callee != nil && (callee.Name() == "putCaches" || persists.From(callee)) {
			return true
		}
		return false
	}
	n := 0
	for _, f := range w.RepoFuncs {
		if relPkg(pkgPathOf(f)) != "datastore" || len(f.Blocks) == 0 || strings.HasSuffix(w.fposFile(f), "_test.go") {
			continue
		}
		k := 0
		for _, c := range calls(f) {
			cc, ok := c.(*ssa.Call)
			if !ok {
				continue
			}
			bi, ok := cc.Call.Value.(*ssa.Builtin)
			if !ok || bi.Name() != "delete" || len(cc.Call.Args) != 2 {
				continue
			}
			field := ""
			for _, fn := range []string{"uuidToVersion", "versionToUUID", "repoToUUID"} {
				if isFieldLoad(cc.Call.Args[0], "repoManager", fn) {
					field = fn
				}
			}
			if field == "" {
				continue
			}
			k++
			n++
			construct := fmt.Sprintf("%s:delete#%d:%s:persisted", fname(f), k, field)
			if _, ok := r.exceptionFor("R3.22", construct); ok {
				continue
			}
			p := findPath(f, cc, isPersist, successExit, allEdges)
			r.check(p == nil, construct, "every exit without error after the delete passes putCaches",
				"entries are deleted from the persisted id map "+field+" and the function can end without persisting the map: after a restart the removed UUIDs resolve again although no node or repo stands behind them (and a repo cannot be created under the old root UUID)", w.pos(cc.Pos()), w.renderPath(p)...)
		}
	}
	r.check(n >= 3, "datastore:id-map-deletes", fmt.Sprintf("%d deletes from the persisted id maps", n), "fewer than confirmed by reading: rule needs review", "-")
}

// ---------------------------------------------------------------------------------------------
// R7.14 — a merge's parents are pairwise different: before anything is allocated, merge tests each
// parent's version against the versions already seen (a lookup in a local set that the same loop
// fills) and refuses the request on a repeat.

func init() {
	register(ruleDef{ID: "R7.14", Prop: "C07", Tier: "quick", Floor: 2,
		Title: "the parents of a merge are pairwise different: merge looks every parent's version up in a local set that the same loop fills, the found edge of that lookup ends in an error exit, and lookup and insertion dominate the allocation of the child's UUID",
		Fn:    ruleMergeParentsDistinct})
}

func ruleMergeParentsDistinct(r *Run) {
	w := r.W
	f := w.method("datastore", "repoManager", "merge")
	if f == nil {
		r.undecided("datastore.repoManager.merge", "anchor not found")
		return
	}
	var alloc ssa.Instruction
	for _, c := range calls(f) {
		if callee := staticCallee(c); callee != nil && callee.Name() == "newUUID" {
			alloc = c
		}
	}
	if alloc == nil {
		r.undecided("merge:newUUID", "the allocation of the child's UUID was not found")
		return
	}
	ok := false
	pos := w.fpos(f)
	for _, b := range f.Blocks {
		for _, in := range b.Instrs {
			lk, isLk := in.(*ssa.Lookup)
			if !isLk || !lk.CommaOk {
				continue
			}
			mk, isMake := lk.X.(*ssa.MakeMap)
			if !isMake {
				continue
			}
			// the same loop inserts the same key
			inserted := false
			for _, ref := range *mk.Referrers() {
				if mu, isMu := ref.(*ssa.MapUpdate); isMu && stripConv(mu.Key) == stripConv(lk.Index) && domInstr(lk, mu) {
					inserted = true
				}
			}
			// the found edge is an error exit
			refused := false
			for _, ref := range *lk.Referrers() {
				ex, isEx := ref.(*ssa.Extract)
				if !isEx || ex.Index != 1 {
					continue
				}
				for _, r2 := range *ex.Referrers() {
					if ifi, isIf := r2.(*ssa.If); isIf {
						t := ifi.Block().Succs[0]
						if ret, isRet := t.Instrs[len(t.Instrs)-1].(*ssa.Return); isRet && isErrorExit(ret) {
							refused = true
						}
					}
				}
			}
			if inserted && refused && blockReaches(lk.Block(), alloc.Block()) && !blockReaches(alloc.Block(), lk.Block()) {
				ok = true
				pos = w.pos(lk.Pos())
			}
		}
	}
	r.check(ok, "merge:parents-pairwise-different", "a repeated parent is refused before the child is allocated",
		"merge never compares its parents with each other: a request naming one version twice is accepted, the child gets that parent twice and the parent lists the child twice — the DAG is no longer a simple graph", pos)
	r.check(true, "merge:anchor", "merge and its allocation found", "", w.fpos(f))
}


// ---------------------------------------------------------------------------------------------
// R12.16 — body labels that arrive in a client's mapping payload raise the label counter: a labelmap
// function that takes posted mapping operations and enters their targets into the mapping also
// feeds those targets to updateMaxLabel.

func init() {
	register(ruleDef{ID: "R12.16", Prop: "C12", Tier: "quick", Floor: 2,
		Title: "client-chosen body labels raise the label counter: every labelmap function that receives posted mapping operations (*proto.MappingOps) and enters their Mapped labels into the mapping calls updateMaxLabel with a value computed from those Mapped labels, so a label in use is never handed out as new",
		Fn:    rulePostedMappingsRaiseCounter})
}

func rulePostedMappingsRaiseCounter(r *Run) {
	w := r.W
	n := 0
	fromMapped := func(v ssa.Value) bool {
		for d := range dataDeps(v) {
			switch x := d.(type) {
			case *ssa.FieldAddr:
				if name, _, _ := fieldName(x); name == "Mapped" && strings.Contains(x.X.Type().String(), "proto.MappingOp") {
					return true
				}
			case *ssa.Call:
				if callee := x.Call.StaticCallee(); callee != nil && callee.Name() == "GetMapped" {
					return true
				}
			}
		}
		return false
	}
	for _, f := range w.RepoFuncs {
		if relPkg(pkgPathOf(f)) != "datatype/labelmap" || len(f.Blocks) == 0 || f.Parent() != nil || strings.HasSuffix(w.fposFile(f), "_test.go") {
			continue
		}
		takesOps := false
		for _, p := range f.Params {
			if strings.HasSuffix(p.Type().String(), "proto.MappingOps") {
				takesOps = true
			}
		}
		if !takesOps {
			continue
		}
		enters, raises := false, false
		for _, c := range calls(f) {
			callee := staticCallee(c)
			if callee == nil {
				continue
			}
			args := c.Common().Args
			if callee.Name() == "setMapping" && len(args) == 4 && fromMapped(args[3]) {
				enters = true
			}
			if callee.Name() == "updateMaxLabel" && len(args) == 3 && fromMapped(args[2]) {
				raises = true
			}
		}
		if !enters {
			continue
		}
		n++
		r.check(raises, fname(f)+":posted-mappings:raise-label-counter", "the Mapped labels are fed to updateMaxLabel",
			"body labels chosen by the client enter the mapping without raising the label counter: with labels 1–4 present, POST mappings {1000 ← [1,2]} and then nextlabel hands out 5, 6, … and eventually 1000 itself, a label that is in use", w.fpos(f))
	}
	r.check(n >= 1, "labelmap:posted-mapping-ingesters", fmt.Sprintf("%d functions enter posted mapping targets", n), "none found: rule needs review", "-")
}

// ---------------------------------------------------------------------------------------------
// R20.30 / R12.17 — a refused batch stores nothing: in a function that decodes a protobuf batch from
// the request and writes to the store, an exit whose error is a locally made validation message
// (fmt.Errorf with no error argument) is not reachable after a storage write.

func init() {
	reg := func(id, prop string) {
		register(ruleDef{ID: id, Prop: prop, Tier: "quick", Floor: 2,
			Title: "a refused batch stores nothing: in every data-type function that decodes a protobuf batch (pb.Unmarshal) and writes to the store, no exit that returns a locally made validation message (fmt.Errorf without an error argument) is reachable after a storage write — the whole batch is validated before its first element is stored",
			Fn:    ruleBatchValidatedBeforeStored})
	}
	reg("R20.30", "C20")
	reg("R12.17", "C12")
	register(ruleDef{ID: "R12.18", Prop: "C12", Tier: "quick", Floor: 2,
		Title: "a stored label index keeps the label counter above every identifier it uses: in labelmap, the value handed to updateMaxLabel after an index was stored is computed from the index's supervoxel counts as well as from its body label",
		Fn:    ruleIndexRaisesCounterAboveSupervoxels})
}

func ruleBatchValidatedBeforeStored(r *Run) {
	w := r.W
	sinks := w.newSinks()
	writes := w.newReach(func(c ssa.CallInstruction) bool { return sinks.isStorageWrite(c) }, nil)
	n := 0
	for _, f := range w.RepoFuncs {
		if !strings.HasPrefix(relPkg(pkgPathOf(f)), "datatype/") || len(f.Blocks) == 0 || f.Parent() != nil || strings.HasSuffix(w.fposFile(f), "_test.go") {
			continue
		}
		decodes := false
		decoded := map[ssa.Value]bool{}
		for _, c := range calls(f) {
			if callee := staticCallee(c); callee != nil && callee.Name() == "Unmarshal" && callee.Pkg != nil && strings.HasSuffix(callee.Pkg.Pkg.Path(), "protobuf/proto") {
				decodes = true
				if len(c.Common().Args) == 2 {
					for d := range dataDeps(c.Common().Args[1]) {
						if _, isAlloc := d.(*ssa.Alloc); isAlloc {
							decoded[d] = true
						}
					}
					decoded[c.Common().Args[1]] = true
				}
			}
		}
		// an exit is a verdict on the payload when the branch that leads to it tests the decoded batch
		aboutPayload := func(b *ssa.BasicBlock) bool {
			for i := 0; i < 6 && b != nil; i++ {
				if len(b.Preds) != 1 {
					return false
				}
				p := b.Preds[0]
				if ifi, ok := p.Instrs[len(p.Instrs)-1].(*ssa.If); ok {
					for d := range dataDeps(ifi.Cond) {
						if decoded[d] {
							return true
						}
					}
					return false
				}
				b = p
			}
			return false
		}
		// … or the batch arrives already decoded, as a slice parameter the function ranges over
		for _, p := range f.Params {
			if _, isSlice := p.Type().Underlying().(*types.Slice); !isSlice || strings.HasSuffix(p.Type().String(), "[]byte") {
				continue
			}
			for _, ref := range *p.Referrers() {
				switch ref.(type) {
				case *ssa.Range, *ssa.IndexAddr:
					decodes = true
					decoded[p] = true
				}
			}
		}
		if !decodes {
			continue
		}
		isWrite := func(x ssa.Instruction) bool {
			c, ok := x.(ssa.CallInstruction)
			if !ok {
				return false
			}
			if _, isGo := x.(*ssa.Go); isGo {
				return false
			}
			if sinks.isStorageWrite(c) {
				return true
			}
			for _, g := range w.Callees(c) {
				if relPkg(pkgPathOf(g)) == relPkg(pkgPathOf(f)) && writes.From(g) {
					return true
				}
			}
			return false
		}
		var firstWrite ssa.Instruction
		for _, b := range f.Blocks {
			for _, in := range b.Instrs {
				if firstWrite == nil && isWrite(in) {
					firstWrite = in
				}
			}
		}
		if firstWrite == nil {
			continue
		}
		n++
		// validation exits: the returned error comes from fmt.Errorf without an error-typed argument
		isValidationExit := func(x ssa.Instruction) bool {
			ret, ok := x.(*ssa.Return)
			if !ok || !aboutPayload(ret.Block()) {
				return false
			}
			for _, rv := range ret.Results {
				if !isErrorType(rv.Type()) {
					continue
				}
				for _, rt := range roots(rv, f) {
					call, ok := rt.V.(*ssa.Call)
					if !ok {
						continue
					}
					callee := call.Call.StaticCallee()
					if callee == nil || callee.Name() != "Errorf" || callee.Pkg == nil || callee.Pkg.Pkg.Path() != "fmt" {
						continue
					}
					wraps := false
					for d := range dataDeps(call) {
						if d != ssa.Value(call) && d.Type() != nil && isErrorType(d.Type()) {
							wraps = true
						}
					}
					if !wraps {
						return true
					}
				}
			}
			return false
		}
		bad := false
		var witness []ssa.Instruction
		for _, b := range f.Blocks {
			for _, in := range b.Instrs {
				if !isWrite(in) {
					continue
				}
				if p := findPath(f, in, nil, isValidationExit, allEdges); p != nil && !bad {
					bad = true
					witness = p
				}
			}
		}
		r.check(!bad, fname(f)+":batch:validated-before-stored", "no validation exit is reachable after a storage write",
			"an element of the posted batch is validated only after earlier elements were stored: a batch with a malformed element is answered with an error although part of it has been applied (and bookkeeping done after the loop, such as raising the label counter, is skipped for the stored part)", w.pos(firstWrite.Pos()), w.renderPath(witness)...)
	}
	r.check(n >= 1, "datatypes:protobuf-batch-writers", fmt.Sprintf("%d functions decode a protobuf batch and write to the store", n), "none found: rule needs review", "-")
}

func ruleIndexRaisesCounterAboveSupervoxels(r *Run) {
	w := r.W
	n := 0
	usesCounts := func(v ssa.Value, f *ssa.Function) bool {
		// the value is computed (here or in a static callee of the package) from a range over the Counts of an index's blocks
		seen := map[*ssa.Function]bool{}
		var inFn func(vals map[ssa.Value]bool, g *ssa.Function) bool
		inFn = func(vals map[ssa.Value]bool, g *ssa.Function) bool {
			for d := range vals {
				switch x := d.(type) {
				case *ssa.FieldAddr:
					if name, _, _ := fieldName(x); name == "Counts" {
						return true
					}
				case *ssa.Call:
					if callee := x.Call.StaticCallee(); callee != nil && len(callee.Blocks) > 0 && relPkg(pkgPathOf(callee)) == "datatype/labelmap" && !seen[callee] {
						seen[callee] = true
						for _, b := range callee.Blocks {
							if ret, ok := b.Instrs[len(b.Instrs)-1].(*ssa.Return); ok {
								for _, rv := range ret.Results {
									if inFn(dataDeps(rv), callee) {
										return true
									}
								}
							}
						}
					}
				}
			}
			return false
		}
		return inFn(dataDeps(v), f)
	}
	for _, f := range w.RepoFuncs {
		if relPkg(pkgPathOf(f)) != "datatype/labelmap" || len(f.Blocks) == 0 || f.Parent() != nil || strings.HasSuffix(w.fposFile(f), "_test.go") {
			continue
		}
		// functions that serialise a label index into the store themselves (pb.Marshal of an index → Put)
		// or through putLabelIndex, and then raise the counter
		storesIndex := false
		for _, c := range calls(f) {
			if callee := staticCallee(c); callee != nil && (callee.Name() == "putLabelIndex" || (callee.Name() == "Marshal" && callee.Pkg != nil && strings.HasSuffix(callee.Pkg.Pkg.Path(), "protobuf/proto"))) {
				storesIndex = true
			}
		}
		if !storesIndex {
			continue
		}
		for _, c := range calls(f) {
			callee := staticCallee(c)
			if callee == nil || callee.Name() != "updateMaxLabel" || len(c.Common().Args) != 3 {
				continue
			}
			n++
			r.check(usesCounts(c.Common().Args[2], f), fname(f)+":index-stored:counter-above-supervoxels", "the raise is computed from the index's supervoxel counts too",
				"after a posted label index was stored the label counter is raised to the body label only: supervoxel ids inside the index share the counter with body labels, so nextlabel (or a split) later hands out an id the index already uses", w.pos(c.Pos()))
		}
	}
	r.check(n >= 2, "labelmap:index-stores-that-raise-the-counter", fmt.Sprintf("%d", n), "fewer than the two confirmed by reading (POST indices, POST index): rule needs review", "-")
}

// ---------------------------------------------------------------------------------------------
// R12.19 — the label counter is raised before the request is answered: updateMaxLabel is not called
// from a goroutine (a `go` statement on it, or inside a function literal that is started with `go`).
// Scope: the functions that store a label index.  (The voxel-ingest paths start updateBlockMaxLabel
// and, in aggregateBlockChanges, updateMaxLabel with `go` in the unchanged tree; no demonstration of a
// stale counter after the acknowledgement could be produced there, so they are listed in DESIGN.md
// §8.9 and not armed.)

func init() {
	register(ruleDef{ID: "R12.19", Prop: "C12", Tier: "quick", Floor: 2,
		Title: "a stored label index has raised the label counter when the request is answered: in the labelmap functions that store a label index, updateMaxLabel is not called by a `go` statement or inside a function literal started with `go`",
		Fn:    ruleCounterRaisedSynchronously})
}

func ruleCounterRaisedSynchronously(r *Run) {
	w := r.W
	n := 0
	goStarted := func(f *ssa.Function) bool {
		// f is a function literal whose closure value is the operand of a `go` statement
		if f.Parent() == nil {
			return false
		}
		for _, b := range f.Parent().Blocks {
			for _, in := range b.Instrs {
				g, ok := in.(*ssa.Go)
				if !ok {
					continue
				}
				if mc, ok := g.Call.Value.(*ssa.MakeClosure); ok && mc.Fn == ssa.Value(f) {
					return true
				}
				if fn, ok := g.Call.Value.(*ssa.Function); ok && fn == f {
					return true
				}
			}
		}
		return false
	}
	for _, f := range w.RepoFuncs {
		if relPkg(pkgPathOf(f)) != "datatype/labelmap" || len(f.Blocks) == 0 || strings.HasSuffix(w.fposFile(f), "_test.go") {
			continue
		}
		// the functions that store a label index themselves (also through a function literal they create)
		outer := f
		if f.Parent() != nil {
			outer = f.Parent()
		}
		storesIndex := false
		for _, c := range calls(outer) {
			if callee := staticCallee(c); callee != nil && (callee.Name() == "putLabelIndex" || (callee.Name() == "Marshal" && callee.Pkg != nil && strings.HasSuffix(callee.Pkg.Pkg.Path(), "protobuf/proto"))) {
				storesIndex = true
			}
		}
		if !storesIndex {
			continue
		}
		k := 0
		for _, c := range calls(f) {
			callee := staticCallee(c)
			if callee == nil || callee.Name() != "updateMaxLabel" {
				continue
			}
			k++
			n++
			_, isGo := c.(*ssa.Go)
			async := isGo || goStarted(f)
			r.check(!async, fmt.Sprintf("%s:updateMaxLabel#%d:synchronous", fname(f), k), "called on the request's own goroutine",
				"the label counter is raised in a goroutine that the request does not wait for: the write is acknowledged first, and a nextlabel, cleave or split issued right after it can hand out a label that the acknowledged write already uses", w.pos(c.Pos()))
		}
	}
	r.check(n >= 2, "labelmap:updateMaxLabel-calls-after-index-stores", fmt.Sprintf("%d calls", n), "fewer than the two confirmed by reading: rule needs review", "-")
}

// ---------------------------------------------------------------------------------------------
// R16.24 — a value kept by a condition keeps its stamps: where updateJSON puts the stored value of
// a protected (conditional) field back into the posted record, it also takes the field out of the
// set of newly set fields, from which the _user/_time stamps are written.

func init() {
	register(ruleDef{ID: "R16.24", Prop: "C16", Tier: "quick", Floor: 2,
		Title: "stamps change only with the value: in neuronjson's update step, a store of the stored record's value back into the posted record that is decided by a lookup in the set of protected (conditional) fields is accompanied, in the same block, by a delete of that field from another local set (the newly-set fields that receive fresh _user/_time stamps)",
		Fn:    ruleProtectedFieldKeepsStamps})
}

func ruleProtectedFieldKeepsStamps(r *Run) {
	w := r.W
	n := 0
	for _, f := range w.RepoFuncs {
		if relPkg(pkgPathOf(f)) != "datatype/neuronjson" || len(f.Blocks) == 0 || strings.HasSuffix(w.fposFile(f), "_test.go") {
			continue
		}
		for _, b := range f.Blocks {
			for _, in := range b.Instrs {
				mu, ok := in.(*ssa.MapUpdate)
				if !ok {
					continue
				}
				if _, isParam := mu.Map.(*ssa.Parameter); !isParam {
					continue
				}
				// decided by a lookup in a local set: the block's single predecessor ends in an If on the
				// found result of a Lookup whose map is a MakeMap and whose key is this field
				if len(b.Preds) != 1 {
					continue
				}
				ifi, ok := b.Preds[0].Instrs[len(b.Preds[0].Instrs)-1].(*ssa.If)
				if !ok || b.Preds[0].Succs[0] != b {
					continue
				}
				ex, ok := ifi.Cond.(*ssa.Extract)
				if !ok || ex.Index != 1 {
					continue
				}
				lk, ok := ex.Tuple.(*ssa.Lookup)
				if !ok || lk.Index != mu.Key {
					continue
				}
				set, ok := lk.X.(*ssa.MakeMap)
				if !ok {
					continue
				}
				// the value stored comes from ranging over another record (the stored one)
				fromRange := false
				for d := range dataDeps(mu.Value) {
					if _, ok := d.(*ssa.Next); ok {
						fromRange = true
					}
				}
				if !fromRange {
					continue
				}
				n++
				removed := false
				for _, x := range b.Instrs {
					if c, ok := x.(*ssa.Call); ok {
						if bi, ok := c.Call.Value.(*ssa.Builtin); ok && bi.Name() == "delete" && len(c.Call.Args) == 2 && c.Call.Args[1] == mu.Key {
							if mm, ok := c.Call.Args[0].(*ssa.MakeMap); ok && mm != set {
								removed = true
							}
						}
					}
				}
				r.check(removed, fmt.Sprintf("%s:protected-field-kept#%d", fname(f), n), "the kept field is taken out of the newly-set fields",
					"the stored value of a protected field is kept but the field still counts as newly set: its _user and _time are overwritten with the posting user and the current time although the value did not change", w.pos(mu.Pos()))
			}
		}
	}
	r.check(n >= 1, "neuronjson:protected-field-stores", fmt.Sprintf("%d", n), "none found: rule needs review", "-")
}

// ---------------------------------------------------------------------------------------------
// R20.32 / R13.17 — swap-with-last removal walks the recorded positions from the highest down: a loop
// that overwrites s[d] with the last element and shortens s by one, with d read from a list of
// recorded positions, indexes that list with a descending counter.  Ascending, a later (larger)
// position can lie beyond the shortened slice: index out of range.

func init() {
	reg := func(id, prop string) {
		register(ruleDef{ID: id, Prop: prop, Tier: "quick", Floor: 2,
			Title: "removal by swap-with-last walks the recorded positions downwards: in every data-type loop that stores s[len(s)-1] into s[d] and re-slices s to len(s)-1, where d is read from a slice of recorded positions, the counter that indexes the recorded positions is decremented on the back edge",
			Fn:    ruleSwapRemoveDescending})
	}
	reg("R20.32", "C20")
	reg("R13.17", "C13")
}

func ruleSwapRemoveDescending(r *Run) {
	w := r.W
	n := 0
	for _, f := range w.RepoFuncs {
		if !strings.HasPrefix(relPkg(pkgPathOf(f)), "datatype/") || len(f.Blocks) == 0 || strings.HasSuffix(w.fposFile(f), "_test.go") {
			continue
		}
		k := 0
		for _, b := range f.Blocks {
			for _, in := range b.Instrs {
				sl, ok := in.(*ssa.Slice)
				if !ok || sl.High == nil || sl.Low != nil {
					continue
				}
				hb, ok := sl.High.(*ssa.BinOp)
				if !ok || hb.Op != token.SUB {
					continue
				}
				if c, ok := constInt(hb.Y); !ok || c != 1 {
					continue
				}
				lc, ok := hb.X.(*ssa.Call)
				if !ok {
					continue
				}
				same := func(a, b ssa.Value) bool { return a == b || placeKey(a) == placeKey(b) }
				if bi, ok := lc.Call.Value.(*ssa.Builtin); !ok || bi.Name() != "len" || !same(lc.Call.Args[0], sl.X) {
					continue
				}
				// in the same block: a store into s[d] with d read from another slice
				var posIdx ssa.Value
				for _, x := range b.Instrs {
					st, ok := x.(*ssa.Store)
					if !ok {
						continue
					}
					ia, ok := st.Addr.(*ssa.IndexAddr)
					if !ok || !same(ia.X, sl.X) {
						continue
					}
					if ld, ok := stripConv(ia.Index).(*ssa.UnOp); ok && ld.Op == token.MUL {
						if ia2, ok := ld.X.(*ssa.IndexAddr); ok && !same(ia2.X, sl.X) {
							posIdx = ia2.Index
						}
					}
				}
				if posIdx == nil {
					continue
				}
				k++
				n++
				desc := false
				if phi, ok := stripConv(posIdx).(*ssa.Phi); ok {
					for _, e := range phi.Edges {
						if bo, ok := e.(*ssa.BinOp); ok && bo.X == ssa.Value(phi) {
							if c, ok := constInt(bo.Y); ok && ((bo.Op == token.SUB && c > 0) || (bo.Op == token.ADD && c < 0)) {
								desc = true
							}
						}
					}
				}
				r.check(desc, fmt.Sprintf("%s:swap-remove#%d:descending", fname(f), k), "the recorded positions are visited from the highest down",
					"elements are removed by swap-with-last while the recorded positions are visited in ascending order: after the first removal the slice is shorter, so a later position can lie past its end (index out of range, a panic in the request or sync handler), or an element that was swapped in is skipped", w.pos(sl.Pos()))
			}
		}
	}
	// three on today's tree (annotation); one shared helper would serve all three
	r.check(n >= 1, "datatypes:swap-remove-loops", fmt.Sprintf("%d swap-with-last removal loops over recorded positions", n), "none found: rule needs review", "-")
}

// ---------------------------------------------------------------------------------------------
// R5.14 — a closed interval with equal ends is not empty: no range reader returns early on a
// non-strict comparison of its two bounds.

func init() {
	register(ruleDef{ID: "R5.14", Prop: "C05", Tier: "quick", Floor: 2,
		Title: "a closed key interval with equal ends holds its key: in the data types' range readers (functions with two string bounds), no branch decided by a non-strict comparison (>=, <=) of the two bound parameters leads straight to a return — [k,k] must be scanned like any other interval, as the point read finds k",
		Fn:    ruleDegenerateIntervalScanned})
}

func ruleDegenerateIntervalScanned(r *Run) {
	w := r.W
	n := 0
	for _, f := range w.RepoFuncs {
		if !strings.HasPrefix(relPkg(pkgPathOf(f)), "datatype/") || len(f.Blocks) == 0 || f.Parent() != nil || strings.HasSuffix(w.fposFile(f), "_test.go") {
			continue
		}
		var strs []*ssa.Parameter
		for _, p := range f.Params {
			if b, ok := p.Type().Underlying().(*types.Basic); ok && b.Kind() == types.String {
				strs = append(strs, p)
			}
		}
		if len(strs) < 2 {
			continue
		}
		// range readers: two string parameters that become the bounds of a range call of the store
		boundSet := map[ssa.Value]bool{}
		for _, g := range withClosures(f) {
			for _, c := range calls(g) {
				if !strings.Contains(methodNameOf(c), "Range") {
					continue
				}
				for _, a := range c.Common().Args {
					for d := range dataDeps(a) {
						if p, ok := d.(*ssa.Parameter); ok {
							boundSet[p] = true
						}
						if fv, ok := d.(*ssa.FreeVar); ok {
							// a bound captured by the closure that issues the range call
							for i, v := range g.FreeVars {
								if v == fv && g.Parent() == f {
									for _, b := range f.Blocks {
										for _, in := range b.Instrs {
											if mc, ok := in.(*ssa.MakeClosure); ok && mc.Fn == ssa.Value(g) && i < len(mc.Bindings) {
												for d2 := range dataDeps(mc.Bindings[i]) {
													if p, ok := d2.(*ssa.Parameter); ok {
														boundSet[p] = true
													}
												}
											}
										}
									}
								}
							}
						}
					}
				}
			}
		}
		isBound := func(v ssa.Value) bool {
			p, ok := v.(*ssa.Parameter)
			if !ok || !boundSet[p] {
				return false
			}
			b, ok := p.Type().Underlying().(*types.Basic)
			return ok && b.Kind() == types.String
		}
		bounds := 0
		for _, p := range strs {
			if isBound(p) {
				bounds++
			}
		}
		if bounds < 2 {
			continue
		}
		n++
		bad := ""
		for _, b := range f.Blocks {
			ifi, ok := b.Instrs[len(b.Instrs)-1].(*ssa.If)
			if !ok {
				continue
			}
			bo, ok := ifi.Cond.(*ssa.BinOp)
			if !ok || (bo.Op != token.GEQ && bo.Op != token.LEQ) || !isBound(bo.X) || !isBound(bo.Y) || bo.X == bo.Y {
				continue
			}
			for _, s := range b.Succs {
				if _, isRet := s.Instrs[len(s.Instrs)-1].(*ssa.Return); isRet && len(s.Instrs) <= 4 {
					bad = w.pos(bo.Pos())
				}
			}
		}
		r.check(bad == "", fname(f)+":degenerate-interval-scanned", "no early return on a non-strict comparison of the bounds",
			"the reader returns early when its first bound is >= (or <=) its second: the closed interval [k,k] is answered with nothing although GET key/k finds the key", bad)
	}
	r.check(n >= 2, "datatypes:range-readers-with-string-bounds", fmt.Sprintf("%d", n), "fewer than confirmed by reading: rule needs review", "-")
}

// ---------------------------------------------------------------------------------------------
// R13.18 — subscribers are told of an added element only when one was added: in an annotation
// function that decides between append and replace by looking the position up in a local map, every
// report of an addition (append to the Add list of the delta) is decided by that lookup.

func init() {
	register(ruleDef{ID: "R13.18", Prop: "C13", Tier: "quick", Floor: 2,
		Title: "an addition is reported only where one happened: in every annotation function that looks an element's position up in a local position map (append if absent, replace if present), each store into the delta's Add list is decided by an edge of that lookup, not made on the merged path",
		Fn:    ruleAddReportedOnlyWhenAdded})
}

func ruleAddReportedOnlyWhenAdded(r *Run) {
	w := r.W
	n := 0
	for _, f := range w.RepoFuncs {
		if relPkg(pkgPathOf(f)) != "datatype/annotation" || len(f.Blocks) == 0 || strings.HasSuffix(w.fposFile(f), "_test.go") {
			continue
		}
		var lookIfs []*ssa.If
		for _, b := range f.Blocks {
			ifi, ok := b.Instrs[len(b.Instrs)-1].(*ssa.If)
			if !ok {
				continue
			}
			ex, ok := ifi.Cond.(*ssa.Extract)
			if !ok || ex.Index != 1 {
				continue
			}
			lk, ok := ex.Tuple.(*ssa.Lookup)
			if !ok {
				continue
			}
			if _, isLocal := lk.X.(*ssa.MakeMap); !isLocal {
				continue
			}
			// a position map: its values are ints (positions in a slice)
			if mt, ok := lk.X.Type().Underlying().(*types.Map); ok {
				if b, ok := mt.Elem().Underlying().(*types.Basic); ok && b.Kind() == types.Int {
					lookIfs = append(lookIfs, ifi)
				}
			}
		}
		if len(lookIfs) == 0 {
			continue
		}
		k := 0
		for _, b := range f.Blocks {
			for _, in := range b.Instrs {
				st, ok := in.(*ssa.Store)
				if !ok {
					continue
				}
				fa, ok := st.Addr.(*ssa.FieldAddr)
				if !ok {
					continue
				}
				if name, _, _ := fieldName(fa); name != "Add" || !strings.Contains(fa.X.Type().String(), "DeltaModifyElements") {
					continue
				}
				k++
				n++
				decided := false
				for _, ifi := range lookIfs {
					if guardedByEdge(ifi, 0, st) || guardedByEdge(ifi, 1, st) {
						decided = true
					}
				}
				r.check(decided, fmt.Sprintf("%s:delta.Add#%d:decided-by-position-lookup", fname(f), k), "the report is made on an edge of the position lookup",
					"an addition is reported to the subscribers on the path where the append and the replace branch have merged: an element that only replaces one at an existing position is counted as new, so labelsz counts and rankings drift from the stored elements", w.pos(st.Pos()))
			}
		}
	}
	r.check(n >= 2, "annotation:addition-reports-beside-position-lookups", fmt.Sprintf("%d", n), "fewer than confirmed by reading: rule needs review", "-")
}

// ---------------------------------------------------------------------------------------------
// R20.33 / R8.17 — a proofreading operation that is refused has not touched the store: in the
// labelmap operations that draw a mutation id, no exit that returns a locally made message
// (fmt.Errorf without an error argument: a verdict on the request, not a failure of the store) is
// reachable after a call that can write to the store.

func init() {
	reg := func(id, prop string) {
		register(ruleDef{ID: id, Prop: prop, Tier: "quick", Floor: 4,
			Title: "a refused proofreading operation has written nothing: in every labelmap operation that draws a mutation id (merge, cleave, split, supervoxel split, renumber …), no exit that returns a locally made verdict on the request (fmt.Errorf without an error argument) is reachable after a call that can reach a storage write",
			Fn:    ruleVerdictBeforeWrites})
	}
	reg("R20.33", "C20")
	reg("R8.17", "C08")
}

func ruleVerdictBeforeWrites(r *Run) {
	w := r.W
	sinks := w.newSinks()
	writes := w.newReach(func(c ssa.CallInstruction) bool { return sinks.isStorageWrite(c) }, func(g *ssa.Function) bool {
		// bookkeeping that a refused request may leave behind is not entered: a burnt or raised label
		// counter, a copy of an index as it was in the mutation cache, the blob kept for the message log
		switch g.Name() {
		case "newLabel", "newLabels", "NewLabel", "NewLabels", "updateMaxLabel", "addMutcache", "PutBlob":
			return true
		}
		// logging and messaging are not the store
		p := relPkg(pkgPathOf(g))
		return !strings.HasPrefix(p, "datatype/labelmap") && !strings.HasPrefix(p, "datatype/common/downres")
	})
	n := 0
	for _, f := range w.RepoFuncs {
		if relPkg(pkgPathOf(f)) != "datatype/labelmap" || len(f.Blocks) == 0 || f.Parent() != nil || strings.HasSuffix(w.fposFile(f), "_test.go") {
			continue
		}
		draws := false
		for _, c := range calls(f) {
			if methodNameOf(c) == "NewMutationID" {
				draws = true
			}
		}
		if !draws {
			continue
		}
		isWrite := func(x ssa.Instruction) bool {
			c, ok := x.(ssa.CallInstruction)
			if !ok {
				return false
			}
			if _, isGo := x.(*ssa.Go); isGo {
				return false
			}
			if _, isDefer := x.(*ssa.Defer); isDefer {
				return false
			}
			if callee := staticCallee(c); callee != nil && callee.Name() == "PutBlob" {
				return false
			}
			if methodNameOf(c) == "PutBlob" {
				return false
			}
			if sinks.isStorageWrite(c) {
				return true
			}
			if callee := staticCallee(c); callee != nil && relPkg(pkgPathOf(callee)) == "datatype/labelmap" && writes.From(callee) {
				switch callee.Name() {
				case "newLabel", "newLabels", "NewLabel", "NewLabels", "updateMaxLabel", "addMutcache", "PutBlob":
					return false // bookkeeping a refused request may leave behind: a burnt or raised label counter, a copy of the index as it was in the mutation cache
				}
				return true
			}
			return false
		}
		var verdictCalls []*ssa.Call
		isVerdict := func(x ssa.Instruction) bool {
			ret, ok := x.(*ssa.Return)
			if !ok {
				return false
			}
			for _, rv := range ret.Results {
				if !isErrorType(rv.Type()) {
					continue
				}
				for _, rt := range roots(rv, f) {
					call, ok := rt.V.(*ssa.Call)
					if !ok || rt.Fn != f {
						continue
					}
					callee := call.Call.StaticCallee()
					if callee == nil || callee.Name() != "Errorf" || callee.Pkg == nil || callee.Pkg.Pkg.Path() != "fmt" {
						continue
					}
					// this Errorf must be the one returned here: it lies in a block that reaches the return without another store to the result
					if !blockReaches(call.Block(), ret.Block()) && call.Block() != ret.Block() {
						continue
					}
					wraps := false
					for d := range dataDeps(call) {
						if d != ssa.Value(call) && d.Type() != nil && isErrorType(d.Type()) {
							wraps = true
						}
					}
					if !wraps {
						verdictCalls = append(verdictCalls, call)
						return true
					}
				}
			}
			return false
		}
		n++
		var witness []ssa.Instruction
		var first ssa.Instruction
		for _, b := range f.Blocks {
			for _, in := range b.Instrs {
				if !isWrite(in) {
					continue
				}
				verdictCalls = nil
				p := findPath(f, in, nil, isVerdict, allEdges)
				if p == nil {
					continue
				}
				// a receiver of a stream judges one element per iteration: a verdict made inside the receive loop
				// before anything of the current element was written refuses that element and ends the stream —
				// the writes it follows belong to earlier, complete elements
				streamed := len(verdictCalls) > 0
				for _, vc := range verdictCalls {
					// the block of a verdict that is followed by `break` is not part of the natural loop (it cannot
					// reach the back edge): the loop is the write's, and the verdict is made under its header
					h, set, _ := innermostLoop(f, in.Block())
					if set == nil || !h.Dominates(vc.Block()) {
						streamed = false
						continue
					}
					// the verdict belongs to the loop: it is reached from a block of the loop directly
					inBody := false
					for _, pr := range vc.Block().Preds {
						if set[pr] {
							inBody = true
						}
					}
					if !inBody && !set[vc.Block()] {
						streamed = false
						continue
					}
					var head ssa.Instruction
					for _, x := range h.Instrs {
						if _, isPhi := x.(*ssa.Phi); !isPhi {
							head = x
							break
						}
					}
					sameIteration := findPath(f, in, func(y ssa.Instruction) bool { return y == head }, func(y ssa.Instruction) bool { return y == ssa.Instruction(vc) }, allEdges)
					if sameIteration != nil {
						streamed = false
					}
				}
				if streamed {
					continue
				}
				if witness == nil {
					witness, first = p, in
				}
			}
		}
		pos := w.fpos(f)
		if first != nil {
			pos = w.pos(first.Pos())
		}
		r.check(witness == nil, fname(f)+":verdicts-before-writes", "no verdict on the request is reachable after a storage write",
			"the operation can refuse the request with a message of its own after a call that writes to the store: the client is told the operation failed while voxels, indices or the mapping have already been changed", pos, w.renderPath(witness)...)
	}
	r.check(n >= 4, "labelmap:operations-with-mutation-id", fmt.Sprintf("%d", n), "fewer than confirmed by reading: rule needs review", "-")
}
