package main

// R5.11 / R1.8 / R18.10 — every item put into a periodically flushed batch is committed.
//
// The repository's idiom: inside the loop `if (count+1) % BATCH == 0 { flush }` after the item was
// added and before `count++` (or `(i+1) % BATCH` on a range index), and after the loop
// `if count % BATCH != 0 { flush }`.  The two conditions only complement each other when the in-loop
// test sees the number of items *including* the current one: X = (items of earlier iterations) + 1.
// With any other offset an exact multiple of BATCH leaves the last batch uncommitted while the call
// still succeeds.

import (
	"fmt"
	"go/token"
	"go/types"
	"strings"

	"golang.org/x/tools/go/ssa"
)

func init() {
	reg := func(id, prop, title string) {
		register(ruleDef{ID: id, Prop: prop, Tier: "quick", Floor: 2, Title: title, Fn: ruleBatchFlush})
	}
	reg("R5.11", "C05", "a range delete commits every tombstone: where a batch is flushed every BATCH items inside the loop and once more after it when `count % BATCH != 0`, the in-loop test counts the current item (count of earlier iterations + 1), so no exact multiple of BATCH leaves a batch uncommitted")
	reg("R1.8", "C01", "versioned deletions are all written (shared with R5.11): the periodic and the trailing flush of a batched range delete complement each other")
	reg("R18.10", "C18", "every posted ROI span is stored (shared with R5.11): the periodic and the trailing commit of PutSpans complement each other")
	reg("R6.12", "C06", "instance deletion removes every key (shared with R5.11): the periodic and the trailing flush of DeleteAll complement each other")
}

func ruleBatchFlush(r *Run) {
	w := r.W
	n := 0
	isFlush := func(in ssa.Instruction) bool {
		c, ok := in.(ssa.CallInstruction)
		if !ok {
			return false
		}
		switch methodNameOf(c) {
		case "Commit", "Flush":
			return true
		}
		return false
	}
	for _, top := range w.RepoFuncs {
		if top.Parent() != nil || len(top.Blocks) == 0 || strings.HasSuffix(w.fposFile(top), "_test.go") {
			continue
		}
		p := relPkg(pkgPathOf(top))
		if !strings.HasPrefix(p, "storage/") && !strings.HasPrefix(p, "datatype/") {
			continue
		}
		for _, f := range withClosures(top) {
			k := 0
			for _, b := range f.Blocks {
				ifi, ok := b.Instrs[len(b.Instrs)-1].(*ssa.If)
				if !ok {
					continue
				}
				cmp, ok := ifi.Cond.(*ssa.BinOp)
				if !ok || cmp.Op != token.EQL {
					continue
				}
				rem, ok := stripConv(cmp.X).(*ssa.BinOp)
				if !ok || rem.Op != token.REM {
					continue
				}
				if z, isK := constInt(cmp.Y); !isK || z != 0 {
					continue
				}
				h, set, _ := innermostLoop(f, b)
				if h == nil {
					continue
				}
				// the true branch flushes
				flushes := false
				for _, in := range b.Succs[0].Instrs {
					if isFlush(in) {
						flushes = true
					}
				}
				if !flushes {
					continue
				}
				// the loop's counter: a header phi that is incremented by one per iteration
				var acc *ssa.Phi
				for _, in := range h.Instrs {
					phi, ok := in.(*ssa.Phi)
					if !ok {
						continue
					}
					for _, e := range phi.Edges {
						if add, ok := stripConv(e).(*ssa.BinOp); ok && add.Op == token.ADD && stripConv(add.X) == ssa.Value(phi) {
							if one, isK := constInt(add.Y); isK && one == 1 {
								acc = phi
							}
						}
					}
				}
				// counters captured from the enclosing function live in a cell: `*cell = *cell + 1`
				var cell ssa.Value
				if acc == nil {
					for blk := range set {
						for _, in := range blk.Instrs {
							st, ok := in.(*ssa.Store)
							if !ok {
								continue
							}
							if add, ok := stripConv(st.Val).(*ssa.BinOp); ok && add.Op == token.ADD {
								if one, isK := constInt(add.Y); isK && one == 1 {
									if ld, ok := stripConv(add.X).(*ssa.UnOp); ok && ld.Op == token.MUL && ld.X == st.Addr {
										cell = st.Addr
									}
								}
							}
						}
					}
				}
				if acc == nil && cell == nil {
					continue
				}
				n++
				k++
				// offset of the tested value relative to the number of earlier iterations
				off, okOff := int64(0), false
				x := stripConv(rem.X)
				var walk func(v ssa.Value, c int64, d int)
				walk = func(v ssa.Value, c int64, d int) {
					if d > 6 || okOff {
						return
					}
					v = stripConv(v)
					if acc != nil && v == ssa.Value(acc) {
						// a range index phi starts at -1: the index of this iteration is phi+1 = earlier iterations
						start := int64(0)
						for i, e := range acc.Edges {
							if !set[acc.Block().Preds[i]] {
								if s, isK := constInt(e); isK {
									start = s
								}
							}
						}
						off, okOff = c+start, true
						return
					}
					if cell != nil {
						if ld, ok := v.(*ssa.UnOp); ok && ld.Op == token.MUL && ld.X == cell {
							// was the increment already done in this iteration, before this load?
							inc := int64(0)
							for blk := range set {
								for _, in := range blk.Instrs {
									if st, ok := in.(*ssa.Store); ok && st.Addr == cell && domInstr(st, ld) && st.Block() != h {
										inc = 1
									}
								}
							}
							off, okOff = c+inc, true
							return
						}
					}
					if bo, ok := v.(*ssa.BinOp); ok && bo.Op == token.ADD {
						if kk, isK := constInt(bo.Y); isK {
							walk(bo.X, c+kk, d+1)
						}
					}
				}
				walk(x, 0, 0)
				// trailing flush: unconditional, or guarded by `… % BATCH != 0`
				r.check(okOff && off == 1, fmt.Sprintf("%s:periodic-flush#%d:counts-the-current-item", fname(f), k),
					"the in-loop test sees (items of earlier iterations + 1)",
					fmt.Sprintf("the in-loop flush test does not count exactly the items added so far (offset %d instead of 1, or not a function of the loop counter): together with the trailing `count %% BATCH != 0` flush, a count that is an exact multiple of the batch size leaves the last batch uncommitted although the call reports success", off), w.pos(rem.Pos()))
			}
		}
	}
	r.check(n >= 2, "repo:periodic-flush-loops", fmt.Sprintf("%d periodic flush tests examined", n), "too few: rule needs review", "-")
}

// ---------------------------------------------------------------------------------------------
// R6.13 / R1.9 / R5.12 — terminator-encoded string keys are prefix-free

func init() {
	reg := func(id, prop, title string) {
		register(ruleDef{ID: id, Prop: prop, Tier: "quick", Floor: 3, Title: title, Fn: ruleTerminatedKeysPrefixFree})
	}
	reg("R6.13", "C06", "no stored key is a byte prefix of another key of its class: a key constructor that encodes a string by appending a terminator byte refuses strings that contain that byte (all versions of a datum are collected by byte prefix)")
	reg("R1.9", "C01", "a read of a key never sees the entries of a longer key (shared with R6.13): terminator-encoded string keys are prefix-free")
	reg("R5.12", "C05", "a range or listing never confuses a key with a longer key that starts with it (shared with R6.13)")
}

func ruleTerminatedKeysPrefixFree(r *Run) {
	w := r.W
	n := 0
	for _, f := range w.RepoFuncs {
		if len(f.Blocks) == 0 || f.Parent() != nil || strings.HasSuffix(w.fposFile(f), "_test.go") || !strings.HasPrefix(relPkg(pkgPathOf(f)), "datatype/") {
			continue
		}
		for _, c := range calls(f) {
			cal := staticCallee(c)
			if cal == nil || cal.Name() != "NewTKey" || relPkg(pkgPathOf(cal)) != "storage" || len(c.Common().Args) != 2 {
				continue
			}
			// second argument: append([]byte(s), 0) with s a string parameter
			ap, ok := c.Common().Args[1].(*ssa.Call)
			if !ok {
				continue
			}
			bi, ok := ap.Call.Value.(*ssa.Builtin)
			if !ok || bi.Name() != "append" {
				continue
			}
			var strParam *ssa.Parameter
			for d := range dataDeps(ap.Call.Args[0]) {
				if p, ok := d.(*ssa.Parameter); ok {
					if b, ok := p.Type().Underlying().(*types.Basic); ok && b.Info()&types.IsString != 0 {
						strParam = p
					}
				}
			}
			term := false
			for d := range dataDeps(ap.Call.Args[1]) {
				if k, ok := d.(*ssa.Const); ok {
					if v, isK := constInt(k); isK && v == 0 {
						term = true
					}
				}
			}
			if strParam == nil || !term {
				continue
			}
			n++
			// a test on the parameter that mentions the terminator and leads to an error exit
			checked := false
			for _, b := range f.Blocks {
				ifi, ok := b.Instrs[len(b.Instrs)-1].(*ssa.If)
				if !ok || !b.Dominates(c.Block()) || b == c.Block() {
					continue
				}
				for d := range dataDeps(ifi.Cond) {
					cc, ok := d.(*ssa.Call)
					if !ok {
						continue
					}
					o := calleeObj(cc)
					if o == nil || o.Pkg() == nil || (o.Pkg().Path() != "strings" && o.Pkg().Path() != "bytes") {
						continue
					}
					switch o.Name() {
					case "IndexByte", "Contains", "ContainsRune", "IndexRune", "ContainsAny", "IndexAny":
						for d2 := range dataDeps(cc) {
							if d2 == ssa.Value(strParam) {
								checked = true
							}
						}
					}
				}
			}
			r.check(checked, fname(f)+":terminated-key:refuses-the-terminator-inside", "the string is searched for the terminator byte before the key is built",
				"a string is turned into a stored key by appending a zero terminator without refusing strings that contain a zero byte: \"a\" then is a byte prefix of \"a\\x00b\", and since the versions of a datum are collected by prefix, reads and listings of the shorter key see the longer key's entries", w.pos(c.Pos()))
		}
	}
	r.check(n >= 3, "datatype:terminated-key-constructors", fmt.Sprintf("%d constructors", n), "terminator-encoded key constructors not found: rule needs review", "-")
}

// ---------------------------------------------------------------------------------------------
// R1.10 — every parent's lineage is walked before a merge read is decided

func init() {
	register(ruleDef{ID: "R1.10", Prop: "C01", Tier: "quick", Floor: 1,
		Title: "the answer of a merge read does not depend on the order of the parents: the scan over a merge node's parents is not left before every parent's lineage was walked (an unresolved conflict met on one lineage can be settled by an entry that a later parent's walk marks as superseding)",
		Fn:    ruleAllParentsWalked})
}

func ruleAllParentsWalked(r *Run) {
	w := r.W
	f := w.method("datastore", "repoManager", "findMatch")
	if f == nil || len(f.Blocks) == 0 {
		r.violation("repoManager.findMatch", "not found", "-")
		return
	}
	loops := naturalLoops(f)
	n := 0
	for _, h := range f.Blocks {
		set := loops[h]
		if set == nil {
			continue
		}
		// the loop over the node's parents: its bound is len(parents) with parents from getParentsByVersion
		ifi, ok := h.Instrs[len(h.Instrs)-1].(*ssa.If)
		if !ok {
			continue
		}
		overParents := false
		for d := range dataDeps(ifi.Cond) {
			lc, ok := d.(*ssa.Call)
			if !ok {
				continue
			}
			bi, ok := lc.Call.Value.(*ssa.Builtin)
			if !ok || bi.Name() != "len" {
				continue
			}
			// the ranged slice is the parents list itself, not something built from it
			for _, rt := range roots(lc.Call.Args[0], f) {
				if ex, ok := rt.V.(*ssa.Extract); ok {
					if c, ok := ex.Tuple.(*ssa.Call); ok && callsMethodNamed(c, "getParentsByVersion") {
						overParents = true
					}
				}
			}
		}
		recursive := false
		for b := range set {
			for _, in := range b.Instrs {
				if c, ok := in.(ssa.CallInstruction); ok && c.Common().StaticCallee() == f {
					recursive = true
				}
			}
		}
		if !overParents || !recursive {
			continue
		}
		n++
		bad := ""
		for _, b := range f.Blocks {
			if !set[b] || b == h {
				continue
			}
			for _, s := range b.Succs {
				if !set[s] {
					bad = w.pos(blockPos(b))
				}
			}
		}
		r.check(bad == "", "findMatch:all-parents-walked", "the loop over the parents ends only at its end",
			"the scan over a merge node's parents is left before all of them were walked (e.g. on the first lineage that reports an unresolved conflict): a later parent whose lineage supersedes the conflicting entries is never looked at, so merge(C, D) and merge(D, C) answer differently", bad)
	}
	r.check(n >= 1, "findMatch:parents-loop", fmt.Sprintf("%d loops over a merge node's parents", n), "the loop over the parents was not found", w.fpos(f))
}

// ---------------------------------------------------------------------------------------------
// R5.13 — JSON object keys of arbitrary text are written by the encoder

func init() {
	register(ruleDef{ID: "R5.13", Prop: "C05", Tier: "quick", Floor: 1,
		Title: "the JSON form of a key-value range carries every key: where the keys are arbitrary text (keyvalue), a JSON object key is produced by the JSON encoder, never by formatting the key between quotes",
		Fn:    ruleJSONKeysEncoded})
}

func ruleJSONKeysEncoded(r *Run) {
	w := r.W
	nWriters, bad := 0, 0
	for _, f := range w.RepoFuncs {
		if relPkg(pkgPathOf(f)) != "datatype/keyvalue" || len(f.Blocks) == 0 || strings.HasSuffix(w.fposFile(f), "_test.go") {
			continue
		}
		writesJSON := false
		for _, c := range calls(f) {
			o := calleeObj(c)
			if o == nil || o.Pkg() == nil {
				continue
			}
			if o.Pkg().Path() == "encoding/json" && (o.Name() == "Marshal" || o.Name() == "Valid") {
				writesJSON = true
			}
			if o.Pkg().Path() != "fmt" || !strings.HasPrefix(o.Name(), "Sprintf") && !strings.HasPrefix(o.Name(), "Fprintf") {
				continue
			}
			for _, a := range c.Common().Args {
				if s, ok := constString(a); ok && strings.Contains(s, `"%s":`) {
					bad++
					r.violation(fmt.Sprintf("%s:json-key-by-formatting#%d", fname(f), bad),
						"a JSON object key is produced by formatting the key between double quotes: a key that contains a quote, a backslash or a control character makes the whole range answer an invalid document (the keys of the interval cannot be read back)", w.pos(c.Pos()))
				}
			}
		}
		if writesJSON {
			nWriters++
		}
	}
	if bad == 0 {
		r.ok("keyvalue:json-keys-encoded", fmt.Sprintf("%d functions of keyvalue emit JSON, none formats a key between quotes", nWriters), "-")
	}
}

// ---------------------------------------------------------------------------------------------
// R13.11 / R13.12 — one element per position within a request; kind changes reach the subscribers

func init() {
	register(ruleDef{ID: "R13.11", Prop: "C13", Tier: "quick", Floor: 3,
		Title: "one element per position, also within one request: where a position→index map decides between replacing and appending, the map is extended when an element is appended (otherwise two elements of one POST at one position are both stored, in every view)",
		Fn:    rulePositionMapExtended})
	register(ruleDef{ID: "R13.12", Prop: "C13", Tier: "quick", Floor: 1,
		Title: "per-kind counts follow replacements: where the label view replaces an element at an existing position, a change of its kind is reported to the subscribers (delete of the old kind, add of the new)",
		Fn:    ruleKindChangeReported})
}

func rulePositionMapExtended(r *Run) {
	w := r.W
	n := 0
	for _, f := range w.RepoFuncs {
		if relPkg(pkgPathOf(f)) != "datatype/annotation" || len(f.Blocks) == 0 || strings.HasSuffix(w.fposFile(f), "_test.go") {
			continue
		}
		k := 0
		for _, b := range f.Blocks {
			ifi, ok := b.Instrs[len(b.Instrs)-1].(*ssa.If)
			if !ok {
				continue
			}
			// `found` of a comma-ok lookup in a map[string]int keyed by MapKey()
			ex, ok := ifi.Cond.(*ssa.Extract)
			if !ok || ex.Index != 1 {
				continue
			}
			lk, ok := ex.Tuple.(*ssa.Lookup)
			if !ok || !lk.CommaOk {
				continue
			}
			byPos := false
			for d := range dataDeps(lk.Index) {
				if c, ok := d.(*ssa.Call); ok && methodNameOf(c) == "MapKey" {
					byPos = true
				}
			}
			if !byPos {
				continue
			}
			h, set, _ := innermostLoop(f, b)
			if h == nil {
				continue
			}
			// the not-found edge appends
			miss := b.Succs[1]
			appends := false
			var region []*ssa.BasicBlock
			seen := map[*ssa.BasicBlock]bool{}
			var walk func(x *ssa.BasicBlock)
			walk = func(x *ssa.BasicBlock) {
				if seen[x] || !set[x] || x == h || !miss.Dominates(x) {
					return
				}
				seen[x] = true
				region = append(region, x)
				for _, s := range x.Succs {
					walk(s)
				}
			}
			walk(miss)
			extended := false
			for _, x := range region {
				for _, in := range x.Instrs {
					if c, ok := in.(*ssa.Call); ok {
						if bi, ok := c.Call.Value.(*ssa.Builtin); ok && bi.Name() == "append" {
							appends = true
						}
					}
					if mu, ok := in.(*ssa.MapUpdate); ok && (mu.Map == lk.X || placeKey(mu.Map) == placeKey(lk.X)) {
						extended = true
					}
				}
			}
			if !appends {
				continue
			}
			n++
			k++
			r.check(extended, fmt.Sprintf("%s:position-map#%d:extended-on-append", fname(f), k), "the appended element's position is entered into the map",
				"an element is appended when its position is not in the position map, but the map is not extended: a second element of the same request at that position is appended too, so one position holds two elements (and a later delete removes only one of them from some views)", w.pos(lk.Pos()))
		}
	}
	r.check(n >= 3, "annotation:replace-or-append-sites", fmt.Sprintf("%d sites", n), "too few: rule needs review", "-")
}

func ruleKindChangeReported(r *Run) {
	w := r.W
	f := w.method("datatype/annotation", "Data", "storeLabelElements")
	if f == nil || len(f.Blocks) == 0 {
		r.violation("annotation.Data.storeLabelElements", "not found", "-")
		return
	}
	// a comparison of two Kind fields that guards appends to both delta.Del and delta.Add
	ok := false
	for _, b := range f.Blocks {
		ifi, isIf := b.Instrs[len(b.Instrs)-1].(*ssa.If)
		if !isIf {
			continue
		}
		bo, isBo := ifi.Cond.(*ssa.BinOp)
		if !isBo || (bo.Op != token.NEQ && bo.Op != token.EQL) {
			continue
		}
		isKind := func(v ssa.Value) bool {
			for d := range dataDeps(v) {
				switch x := d.(type) {
				case *ssa.FieldAddr:
					if name, _, _ := fieldName(x); name == "Kind" {
						return true
					}
				case *ssa.Field:
					if name, _, _ := fieldName(x); name == "Kind" {
						return true
					}
				}
			}
			return false
		}
		if !isKind(bo.X) || !isKind(bo.Y) {
			continue
		}
		edge := 0
		if bo.Op == token.EQL {
			edge = 1
		}
		del, add := false, false
		for _, in := range b.Succs[edge].Instrs {
			if st, isSt := in.(*ssa.Store); isSt {
				if fa, isFA := st.Addr.(*ssa.FieldAddr); isFA {
					switch name, _, _ := fieldName(fa); name {
					case "Del":
						del = true
					case "Add":
						add = true
					}
				}
			}
		}
		if del && add {
			ok = true
		}
	}
	r.check(ok, "storeLabelElements:kind-change-reported", "a replacement whose kind differs appends to delta.Del and delta.Add",
		"the label view replaces an element at an existing position without telling the subscribers when its kind changed: label/<l> shows the new kind while the synced labelsz keeps counting the old one", w.fpos(f))
}

func init() {
	register(ruleDef{ID: "R1.11", Prop: "C01", Tier: "quick", Floor: 2,
		Title: "a range delete hides older values (shared with R5.4): DeleteRange writes a tombstone through the versioned batch for every live key, never a raw delete of the data key alone (which would unmask the ancestor's value)",
		Fn:    ruleR5_4})
	register(ruleDef{ID: "R1.12", Prop: "C01", Tier: "quick", Floor: 3,
		Title: "range reads resolve through the ancestry like point reads (shared with R5.2): the versioned scanner starts at the minimum version key of the first datum, so inherited entries of the first key are seen",
		Fn:    ruleR5_2})
	register(ruleDef{ID: "R1.13", Prop: "C01", Tier: "quick", Floor: 10,
		Title: "the DAG that reads are resolved against is the one a restart reloads (shared with R3.3): every change of a node's parents/children is followed by a save of the repo",
		Fn:    ruleR3_3})
}

// ---------------------------------------------------------------------------------------------
// R13.14 — labelsz counts additions and removals under the same ROI filter
// R13.15 — a sync consumer builds the versioned context of each message from that message

func init() {
	register(ruleDef{ID: "R13.14", Prop: "C13", Tier: "quick", Floor: 4,
		Title: "ROI-filtered counts stay filtered: in labelsz every change of a count (for an added as for a removed element) is made only for positions its ROI filter accepts",
		Fn:    ruleLabelszROISymmetric})
	register(ruleDef{ID: "R13.15", Prop: "C13", Tier: "quick", Floor: 2,
		Title: "derived views are updated at the version of the event: in a sync consumer the versioned context handed to a handler is built inside the loop from the version of the message just received",
		Fn:    ruleSyncCtxPerMessage})
}

func ruleLabelszROISymmetric(r *Run) {
	w := r.W
	f := w.method("datatype/labelsz", "Data", "modifyElements")
	if f == nil || len(f.Blocks) == 0 {
		r.violation("labelsz.Data.modifyElements", "not found", "-")
		return
	}
	n := 0
	top := f
	for _, f := range withHelpers(top) { // the tally may be built by a helper (d.countChanges(delta))
		var roiIfs []*ssa.If
		for _, b := range f.Blocks {
			if ifi, ok := b.Instrs[len(b.Instrs)-1].(*ssa.If); ok {
				if c, ok := ifi.Cond.(*ssa.Call); ok && callName(c) == "inROI" {
					roiIfs = append(roiIfs, ifi)
				}
			}
		}
		for _, b := range f.Blocks {
			for _, in := range b.Instrs {
				mu, ok := in.(*ssa.MapUpdate)
				if !ok {
					continue
				}
				if _, isMk := mu.Map.(*ssa.MakeMap); !isMk {
					continue
				}
				if loopOf(mu.Block()) == nil {
					continue
				}
				// only the tally of changes (int32 deltas), built while ranging over the delta
				if bt, ok := mu.Value.Type().Underlying().(*types.Basic); !ok || bt.Kind() != types.Int32 {
					continue
				}
				n++
				guarded := false
				for _, ifi := range roiIfs {
					if guardedByEdge(ifi, 0, mu) {
						guarded = true
					}
				}
				r.check(guarded, fmt.Sprintf("modifyElements:count-change#%d:inside-roi-filter", n), "the change is made on the accepting edge of inROI",
					"a count is changed for an element without asking the ROI filter (the other direction does ask): removing an element outside the ROI decrements a count that never included it", w.pos(mu.Pos()))
			}
		}
	}
	r.check(n >= 4, "labelsz.modifyElements:count-changes", fmt.Sprintf("%d count changes", n), "too few: rule needs review", w.fpos(f))
}

func ruleSyncCtxPerMessage(r *Run) {
	w := r.W
	n := 0
	for _, f := range w.RepoFuncs {
		if len(f.Blocks) == 0 || f.Parent() != nil || !strings.HasPrefix(relPkg(pkgPathOf(f)), "datatype/") || strings.HasSuffix(w.fposFile(f), "_test.go") {
			continue
		}
		// the receive from the instance's sync channel
		var recv []ssa.Value
		var recvBlock *ssa.BasicBlock
		for _, b := range f.Blocks {
			for _, in := range b.Instrs {
				if sel, ok := in.(*ssa.Select); ok {
					for _, st := range sel.States {
						if st.Dir == types.RecvOnly && isSyncChan(st.Chan) {
							for _, ref := range *sel.Referrers() {
								if ex, ok := ref.(*ssa.Extract); ok && typeIs(ex.Type(), "datastore", "SyncMessage") {
									recv = append(recv, ex)
									recvBlock = sel.Block()
								}
							}
						}
					}
				}
			}
		}
		if len(recv) == 0 {
			continue
		}
		scc := loopOf(recvBlock)
		for _, c := range calls(f) {
			if !isCallTo(c, "datastore", "", "NewVersionedCtx") {
				continue
			}
			n++
			fromMsg := false
			for d := range dataDeps(c.Common().Args[1]) {
				for _, rv := range recv {
					if d == rv {
						fromMsg = true
					}
				}
			}
			inLoop := scc != nil && scc[c.Block()]
			// the handlers get this very context, not one carried over from an earlier message
			fresh := true
			if scc != nil {
				for _, h := range calls(f) {
					if !scc[h.Block()] || h == c {
						continue
					}
					for _, a := range h.Common().Args {
						pt, ok := a.Type().Underlying().(*types.Pointer)
						if !ok || !typeIs(pt.Elem(), "datastore", "VersionedCtx") {
							continue
						}
						if _, isPhi := stripConv(a).(*ssa.Phi); isPhi {
							fresh = false
						}
					}
				}
			}
			r.check(fromMsg && inLoop && fresh, fname(f)+":versioned-context:from-this-message", "built inside the loop from the received message's version",
				"the sync consumer hands its handlers a versioned context that is not built from the message just received (hoisted out of the loop, or built from another version): events of later versions update the derived views of the first event's version", w.pos(c.Pos()))
		}
	}
	r.check(n >= 2, "datatype:sync-consumer-contexts", fmt.Sprintf("%d versioned contexts built in sync consumers", n), "too few: rule needs review", "-")
}
