package main

import (
	"fmt"
	"sort"
	"strings"

	"golang.org/x/tools/go/ssa"
)

// ---------------------------------------------------------------------------------------------
// route table, read structurally from the function that registers routes on goji muxes

type route struct {
	Mux     ssa.Value
	Method  string // Get, Post, Head, Put, Delete, Patch, Handle, NotFound
	Pattern string
	Handler *ssa.Function
	Pos     string
}

type muxInfo struct {
	Val    ssa.Value
	Name   string
	Use    []*ssa.Function // middlewares in registration order
	Routes []*route
	Mounts []string  // patterns under which this mux is mounted on a parent
	Parent ssa.Value // parent mux (via Handle(pattern, thisMux))
}

type routeTable struct {
	Fn    *ssa.Function
	Muxes []*muxInfo
	byVal map[ssa.Value]*muxInfo
}

func isMuxType(v ssa.Value) bool {
	return typeIs(v.Type(), "github.com/zenazn/goji/web", "Mux") || typeIs(v.Type(), "web", "Mux")
}

// muxRoot resolves a mux value to its defining value (web.New() call or load of a global).
func muxRoot(v ssa.Value) ssa.Value {
	for i := 0; i < 5; i++ {
		switch x := v.(type) {
		case *ssa.UnOp:
			if g, ok := x.X.(*ssa.Global); ok {
				return g
			}
			if fa, ok := x.X.(*ssa.FieldAddr); ok {
				// webMux.Mux style embedded fields: resolve to the global
				v = fa.X
				continue
			}
			return v
		case *ssa.FieldAddr:
			v = x.X
			continue
		case *ssa.Global:
			return x
		}
		return v
	}
	return v
}

func readRouteTable(w *World) *routeTable {
	var best *routeTable
	for _, f := range w.RepoFuncs {
		if relPkg(pkgPathOf(f)) != "server" || f.Parent() != nil {
			continue
		}
		rt := &routeTable{Fn: f, byVal: map[ssa.Value]*muxInfo{}}
		get := func(v ssa.Value) *muxInfo {
			root := muxRoot(v)
			if m, ok := rt.byVal[root]; ok {
				return m
			}
			m := &muxInfo{Val: root, Name: root.Name()}
			if g, ok := root.(*ssa.Global); ok {
				m.Name = g.Name()
			}
			rt.byVal[root] = m
			rt.Muxes = append(rt.Muxes, m)
			return m
		}
		n := 0
		for _, c := range calls(f) {
			cc := c.Common()
			callee := cc.StaticCallee()
			if callee == nil || callee.Signature.Recv() == nil || len(cc.Args) == 0 || !isMuxType(cc.Args[0]) {
				continue
			}
			name := callee.Name()
			mux := get(cc.Args[0])
			switch name {
			case "Use":
				for _, fn := range funcsOfValue(cc.Args[1], 0) {
					mux.Use = append(mux.Use, fn)
				}
				n++
			case "Get", "Post", "Head", "Put", "Delete", "Patch", "Handle", "Options", "Connect", "Trace":
				pat, _ := constString(stripConv(cc.Args[1]))
				h := stripConv(cc.Args[2])
				if isMuxType(h) {
					child := get(h)
					child.Parent = mux.Val
					child.Mounts = append(child.Mounts, pat)
					n++
					continue
				}
				var hf *ssa.Function
				if fs := funcsOfValue(h, 0); len(fs) == 1 {
					hf = fs[0]
				}
				mux.Routes = append(mux.Routes, &route{Mux: mux.Val, Method: name, Pattern: pat, Handler: hf, Pos: w.pos(c.Pos())})
				n++
			case "NotFound":
				var hf *ssa.Function
				if fs := funcsOfValue(stripConv(cc.Args[1]), 0); len(fs) == 1 {
					hf = fs[0]
				}
				mux.Routes = append(mux.Routes, &route{Mux: mux.Val, Method: "NotFound", Pattern: "*", Handler: hf, Pos: w.pos(c.Pos())})
			}
		}
		if best == nil || n > routeCount(best) {
			if n > 0 {
				best = rt
			}
		}
	}
	// name muxes by the local variable they are assigned to when possible (debug refs absent):
	// fall back to their mount pattern
	if best != nil {
		for _, m := range best.Muxes {
			if len(m.Mounts) > 0 {
				m.Name = "mux@" + m.Mounts[0]
			}
		}
	}
	return best
}

func routeCount(rt *routeTable) int {
	n := 0
	for _, m := range rt.Muxes {
		n += len(m.Use) + len(m.Routes)
	}
	return n
}

// chain returns the middleware chain seen by a request routed through mux m: parents first.
func (rt *routeTable) chain(m *muxInfo) []*ssa.Function {
	var out []*ssa.Function
	if m.Parent != nil {
		if p, ok := rt.byVal[m.Parent]; ok && p != m {
			out = append(out, rt.chain(p)...)
		}
	}
	return append(out, m.Use...)
}

// passCall finds, in middleware mw (its closures included), the invoke of http.Handler.ServeHTTP on
// the wrapped handler: the "pass on" point.
func passCall(mw *ssa.Function) (*ssa.Function, ssa.CallInstruction) {
	for _, f := range withClosures(mw) {
		for _, c := range calls(f) {
			cc := c.Common()
			if cc.IsInvoke() && cc.Method.Name() == "ServeHTTP" && typeIs(cc.Value.Type(), "net/http", "Handler") {
				return f, c
			}
		}
	}
	return nil, nil
}

type gateQuery struct {
	assign map[string]bool
	method string // upper-case
	action string
}

func actionAtom(g *gateAtoms, q gateQuery) func(v ssa.Value) (AVal, bool) {
	base := g.atomFn(q.assign, q.method)
	return func(v ssa.Value) (AVal, bool) {
		if a, ok := base(v); ok {
			return a, true
		}
		if _, isLk := v.(*ssa.Lookup); isLk {
			if _, key, ok := mapLookupConstKey(v); ok && key == "action" {
				return aStr(q.action), true
			}
		}
		return unknown, false
	}
}

// middlewarePasses: can the wrapped handler be reached under q?  ok=false when mw has no pass
// point (not a wrapping middleware).
func middlewarePasses(mw *ssa.Function, q gateQuery) (pass bool, ok bool) {
	f, pc := passCall(mw)
	if f == nil {
		return true, false
	}
	g := collectGateAtoms(f)
	s := runSCCP(f, &AEnv{Atom: actionAtom(g, q)})
	return s.Feasible[pc.Block()], true
}

// handlerReaches: under q, can handler h execute a call satisfying pred?
func handlerReaches(h *ssa.Function, q gateQuery, pred func(c ssa.CallInstruction) bool) (bool, ssa.CallInstruction) {
	g := collectGateAtoms(h)
	s := runSCCP(h, &AEnv{Atom: actionAtom(g, q)})
	var hit ssa.CallInstruction
	s.eachFeasible(func(in ssa.Instruction) {
		if c, ok := in.(ssa.CallInstruction); ok && hit == nil && pred(c) {
			hit = c
		}
	})
	return hit != nil, hit
}

func lastSegment(p string) string {
	p = strings.TrimSuffix(p, "/")
	if i := strings.LastIndex(p, "/"); i >= 0 {
		return p[i+1:]
	}
	return p
}

var childCreatingActions = map[string]bool{"branch": true, "newversion": true, "tag": true}

func ruleR2_3impl(r *Run) {
	w := r.W
	rt := readRouteTable(w)
	if rt == nil {
		r.violation("routes", "no function in package server registers routes on a goji mux", "-")
		return
	}
	var lines []string
	nroutes := 0
	for _, m := range rt.Muxes {
		var use []string
		for _, u := range rt.chain(m) {
			use = append(use, u.Name())
		}
		for _, ro := range m.Routes {
			nroutes++
			h := "?"
			if ro.Handler != nil {
				h = ro.Handler.Name()
			}
			lines = append(lines, fmt.Sprintf("%s %s [%s] → %s", ro.Method, ro.Pattern, strings.Join(use, ","), h))
		}
	}
	sort.Strings(lines)
	r.note("R2.3 route table read from %s: %d muxes, %d routes: %s", fname(rt.Fn), len(rt.Muxes), nroutes, strings.Join(lines, " ; "))
	if nroutes < 40 {
		r.undecided("routes:count", fmt.Sprintf("only %d routes read from %s (≥40 confirmed by hand)", nroutes, fname(rt.Fn)))
	}

	lockedQ := func(method, action string) gateQuery {
		return gateQuery{assign: map[string]bool{"admin": false, "fullwrite": false, "locked": true, "readonly": false}, method: method, action: action}
	}
	nodeMutator := func(c ssa.CallInstruction) bool {
		return isCallTo(c, "datastore", "", "SetNodeNote") || isCallTo(c, "datastore", "", "AddToNodeLog") ||
			isCallTo(c, "datastore", "", "NewData") || isCallTo(c, "datastore", "", "Commit")
	}
	mutReach := w.newReach(nodeMutator, func(f *ssa.Function) bool { return relPkg(pkgPathOf(f)) != "server" })

	// (a) every node route with a mutating verb is refused on a locked node unless it creates a child
	var lockGates = map[*ssa.Function]bool{}
	for _, m := range rt.Muxes {
		chain := rt.chain(m)
		for _, ro := range m.Routes {
			if !strings.HasPrefix(ro.Pattern, "/api/node/") {
				continue
			}
			switch ro.Method {
			case "Get", "Head", "Options", "NotFound", "Handle":
				continue
			}
			action := lastSegment(ro.Pattern)
			method := strings.ToUpper(ro.Method)
			construct := "route:" + method + " " + ro.Pattern
			q := lockedQ(method, action)
			blockedBy := ""
			for _, mw := range chain {
				if pass, ok := middlewarePasses(mw, q); ok && !pass {
					blockedBy = mw.Name()
					lockGates[mw] = true
					break
				}
			}
			if blockedBy == "" && ro.Handler != nil && mutReach.From(ro.Handler) {
				// in-handler gate: no mutator call feasible under q
				if hit, _ := handlerReaches(ro.Handler, q, func(c ssa.CallInstruction) bool {
					if nodeMutator(c) {
						return true
					}
					for _, cal := range w.Callees(c) {
						if relPkg(pkgPathOf(cal)) == "server" && mutReach.From(cal) {
							return true
						}
					}
					return false
				}); !hit {
					blockedBy = "in-handler check of " + ro.Handler.Name()
				}
			}
			if childCreatingActions[action] {
				r.check(blockedBy == "", construct+":child-creation-allowed",
					"creating a child version of a committed node is not refused by the node gate",
					"route "+ro.Pattern+" creates child versions but is refused on committed nodes by "+blockedBy, ro.Pos)
				continue
			}
			r.check(blockedBy != "", construct+":refused-on-locked",
				"refused for (¬admin,¬fullwrite,locked) by "+blockedBy,
				"a "+method+" on "+ro.Pattern+" reaches its handler on a committed node for a non-admin in default mode: no middleware in its chain and no in-handler check refuses it", ro.Pos)
		}
	}

	// (b) the lock gate's allowed-action table must be exactly the child-creating actions
	for mw := range lockGates {
		for _, method := range []string{"POST", "PUT", "DELETE", "PATCH"} {
			for _, action := range []string{"branch", "newversion", "tag", "commit", "note", "log", "\x00other"} {
				pass, _ := middlewarePasses(mw, lockedQ(method, action))
				disp := action
				if action == "\x00other" {
					disp = "<other>"
				}
				construct := fmt.Sprintf("lockgate:%s:%s:%s", mw.Name(), method, disp)
				if childCreatingActions[action] {
					r.check(pass, construct, "passes (child creation stays allowed)", "the locked-node gate refuses child creation action "+disp, w.fpos(mw))
				} else {
					r.check(!pass, construct, "refused on a committed node", "the locked-node gate lets "+method+" action "+disp+" through on a committed node", w.fpos(mw))
				}
			}
		}
		for _, method := range []string{"GET", "HEAD"} {
			pass, _ := middlewarePasses(mw, lockedQ(method, "note"))
			r.check(pass, fmt.Sprintf("lockgate:%s:%s:read", mw.Name(), method), "reads pass on committed nodes", "reads are refused on committed nodes", w.fpos(mw))
		}
		// admin and fullwrite exceptions are honoured (they are part of the property statement)
		for _, ex := range []string{"admin", "fullwrite"} {
			q := lockedQ("POST", "note")
			q.assign[ex] = true
			pass, _ := middlewarePasses(mw, q)
			r.check(pass, fmt.Sprintf("lockgate:%s:%s-exception", mw.Name(), ex), ex+" may write", ex+" exception missing", w.fpos(mw))
		}
	}
	if len(lockGates) == 0 {
		r.violation("lockgate", "no middleware refuses mutating node routes on committed nodes", w.fpos(rt.Fn))
	}

	// (c) any route (repo or node) whose handler reaches NewData / SetNodeNote / AddToNodeLog is gated
	for _, m := range rt.Muxes {
		chain := rt.chain(m)
		for _, ro := range m.Routes {
			if ro.Handler == nil || strings.HasPrefix(ro.Pattern, "/api/node/") {
				continue
			}
			direct := false
			for _, c := range calls(ro.Handler) {
				if isCallTo(c, "datastore", "", "SetNodeNote") || isCallTo(c, "datastore", "", "AddToNodeLog") || isCallTo(c, "datastore", "", "NewData") {
					direct = true
				}
			}
			if !direct {
				continue
			}
			method := strings.ToUpper(ro.Method)
			q := lockedQ(method, lastSegment(ro.Pattern))
			blocked := false
			for _, mw := range chain {
				if pass, ok := middlewarePasses(mw, q); ok && !pass {
					blocked = true
				}
			}
			if !blocked {
				hit, _ := handlerReaches(ro.Handler, q, func(c ssa.CallInstruction) bool {
					return isCallTo(c, "datastore", "", "SetNodeNote") || isCallTo(c, "datastore", "", "AddToNodeLog") || isCallTo(c, "datastore", "", "NewData")
				})
				blocked = !hit
			}
			r.check(blocked, "route:"+method+" "+ro.Pattern+":node-mutator-gated",
				"node-state mutator unreachable for (¬admin,¬fullwrite,locked)",
				"handler "+ro.Handler.Name()+" changes node state (new instance / note / log) on a committed node without a LockedUUID refusal", ro.Pos)
		}
	}

	// (d) read-only mode: every mux serving node/repo/instance routes has a read-only gate
	roQ := gateQuery{assign: map[string]bool{"admin": false, "readonly": true, "fullwrite": false, "locked": false}, method: "POST", action: "note"}
	for _, m := range rt.Muxes {
		mounted := false
		for _, mp := range m.Mounts {
			if strings.HasPrefix(mp, "/api/node/") || strings.HasPrefix(mp, "/api/repo/") {
				mounted = true
			}
		}
		if !mounted {
			continue
		}
		blocked := ""
		for _, mw := range rt.chain(m) {
			if pass, ok := middlewarePasses(mw, roQ); ok && !pass {
				blocked = mw.Name()
				break
			}
		}
		r.check(blocked != "", "readonly:"+m.Name, "POST refused in read-only mode by "+blocked,
			"mux mounted at "+strings.Join(m.Mounts, ",")+" has no middleware refusing non-GET/HEAD requests in read-only mode", w.fpos(rt.Fn))
	}
}

// ---------------------------------------------------------------------------------------------
// R2.4 — datastore-level guards

// fieldStoreOf: instruction stores into field `field` of a value of named type typ.
func isFieldStore(in ssa.Instruction, typ, field string) bool {
	st, ok := in.(*ssa.Store)
	if !ok {
		return false
	}
	fa, ok := st.Addr.(*ssa.FieldAddr)
	if !ok {
		return false
	}
	name, _, ok := fieldName(fa)
	return ok && name == field && typeIs(fa.X.Type(), "", typ)
}

func isFieldLoad(v ssa.Value, typ, field string) bool {
	u, ok := v.(*ssa.UnOp)
	if !ok {
		return false
	}
	fa, ok := u.X.(*ssa.FieldAddr)
	if !ok {
		return false
	}
	name, _, ok := fieldName(fa)
	return ok && name == field && typeIs(fa.X.Type(), "", typ)
}

func ruleR2_4impl(r *Run) {
	w := r.W
	// commit: the store `node.locked = true` must be unreachable when node.locked was read true
	commit := w.method("datastore", "repoManager", "commit")
	if commit == nil {
		r.violation("repoManager.commit", "datastore.repoManager.commit not found: nothing sets the commit flag under a guard", "-")
	} else {
		var stores []ssa.Instruction
		for _, b := range commit.Blocks {
			for _, in := range b.Instrs {
				if isFieldStore(in, "nodeT", "locked") {
					stores = append(stores, in)
				}
			}
		}
		r.check(len(stores) > 0, "repoManager.commit:sets-locked", "commit sets nodeT.locked", "commit never sets nodeT.locked", w.fpos(commit))
		env := &AEnv{Atom: func(v ssa.Value) (AVal, bool) {
			if isFieldLoad(v, "nodeT", "locked") {
				return aBool(true), true
			}
			return unknown, false
		}}
		s := runSCCP(commit, env)
		reach := false
		for _, st := range stores {
			if s.Feasible[st.Block()] {
				reach = true
			}
		}
		errExit := false
		for _, b := range commit.Blocks {
			if s.Feasible[b] {
				if ret, ok := b.Instrs[len(b.Instrs)-1].(*ssa.Return); ok && isErrorExit(ret) {
					errExit = true
				}
			}
		}
		r.check(!reach && errExit, "repoManager.commit:refuses-locked",
			"with node.locked already true the commit flag/note/log writes are unreachable and an error is returned",
			"commit on an already committed node proceeds to rewrite its note/log/commit state", w.fpos(commit))
		// note and log of a committed node: the same function must not store note/log when locked
		for _, fld := range []string{"note", "log"} {
			bad := false
			for _, b := range commit.Blocks {
				for _, in := range b.Instrs {
					if isFieldStore(in, "nodeT", fld) && s.Feasible[b] {
						bad = true
					}
				}
			}
			r.check(!bad, "repoManager.commit:no-"+fld+"-rewrite-when-locked", "unreachable when locked", "commit rewrites nodeT."+fld+" of an already committed node", w.fpos(commit))
		}
	}
	// newVersion / merge: child insertion unreachable when a parent's locked flag reads false
	for _, name := range []string{"newVersion", "merge"} {
		f := w.method("datastore", "repoManager", name)
		if f == nil {
			r.violation("repoManager."+name, "datastore.repoManager."+name+" not found", "-")
			continue
		}
		env := &AEnv{Atom: func(v ssa.Value) (AVal, bool) {
			if isFieldLoad(v, "nodeT", "locked") {
				return aBool(false), true
			}
			return unknown, false
		}}
		s := runSCCP(f, env)
		reads := 0
		for _, b := range f.Blocks {
			for _, in := range b.Instrs {
				if v, ok := in.(ssa.Value); ok && isFieldLoad(v, "nodeT", "locked") {
					reads++
				}
			}
		}
		// link stores: node.children = append(...), child.parents = append(...)
		links, feasibleLinks := 0, 0
		var wit []string
		for _, b := range f.Blocks {
			for _, in := range b.Instrs {
				if isFieldStore(in, "nodeT", "children") {
					links++
					if s.Feasible[b] {
						feasibleLinks++
						wit = append(wit, w.pos(in.Pos())+": "+in.String())
					}
				}
			}
		}
		succ := feasibleLinks > 0
		r.check(reads > 0 && links > 0 && !succ, "repoManager."+name+":refuses-unlocked-parent",
			"with the parent's locked flag false no store linking a child into nodeT.children is reachable",
			fmt.Sprintf("%s can link a child under an uncommitted parent (locked reads=%d, link stores=%d, reachable with locked=false: %d)", name, reads, links, feasibleLinks), w.fpos(f), wit...)
	}
}
