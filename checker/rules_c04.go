package main

import (
	"fmt"
	"go/types"
	"strings"

	"golang.org/x/tools/go/ssa"
)

func init() {
	register(ruleDef{ID: "R4.1", Prop: "C04", Tier: "quick", Floor: 6,
		Title: "append-only log writers: header write → payload write → Sync, in that order on every success exit, with the file's lock held",
		Fn:    ruleR4_1})
	register(ruleDef{ID: "R4.2", Prop: "C04", Tier: "quick", Floor: 2,
		Title: "log readers: every slice of the file contents is dominated by a comparison bounding it by the bytes present (a torn record is never padded, invented or a panic)",
		Fn:    ruleR4_2})
	register(ruleDef{ID: "R4.3", Prop: "C04", Tier: "quick", Floor: 3,
		Title: "metadata write order: the id→uuid maps are persisted before the repo blob that the loader resolves through them; the start-up loader tolerates absent map keys",
		Fn:    ruleR4_3})
	register(ruleDef{ID: "R4.4", Prop: "C04", Tier: "quick", Floor: 4,
		Title: "versioned put/delete issue data-key and tombstone operations in one transaction (shared with C01 R1.2)",
		Fn: func(r *Run) {
			ruleR1_2(r)
		}})
}

func logImplementers(w *World, ifaceName string) []*types.Named {
	i := w.iface("storage", ifaceName)
	if i == nil {
		return nil
	}
	var out []*types.Named
	for _, n := range w.implementers(i) {
		if strings.HasPrefix(relPkg(n.Obj().Pkg().Path()), "storage/") {
			out = append(out, n)
		}
	}
	return out
}

// reachesOSFile: f (a repo function) calls (*os.File).<name> directly or through one level.
func callsOSFile(c ssa.CallInstruction, name string) bool {
	callee := c.Common().StaticCallee()
	if callee == nil {
		return false
	}
	return callee.Name() == name && callee.Signature.Recv() != nil && typeIs(callee.Signature.Recv().Type(), "os", "File")
}

func ruleR4_1(r *Run) {
	w := r.W
	impls := logImplementers(w, "WriteLog")
	if len(impls) == 0 {
		r.undecided("WriteLog", "no implementation of storage.WriteLog in this build")
		return
	}
	for _, t := range impls {
		for _, mname := range []string{"Append", "TopicAppend"} {
			f := w.methodOf(t, mname)
			if f == nil || len(f.Blocks) == 0 {
				continue
			}
			name := qname(t) + "." + mname
			var msgParam *ssa.Parameter
			for _, p := range f.Params {
				if typeIs(p.Type(), "storage", "LogMessage") {
					msgParam = p
				}
			}
			isPayload := func(in ssa.Instruction) bool {
				c, ok := in.(ssa.CallInstruction)
				if !ok || !callsOSFile(c, "Write") || msgParam == nil {
					return false
				}
				for _, rv := range roots(c.Common().Args[1], f) {
					if fl, ok := rv.V.(*ssa.Field); ok && fl.X == ssa.Value(msgParam) {
						return true
					}
					if u, ok := rv.V.(*ssa.UnOp); ok {
						if fa, ok := u.X.(*ssa.FieldAddr); ok {
							if nm, _, _ := fieldName(fa); nm == "Data" {
								return true
							}
						}
					}
				}
				return false
			}
			isHeader := func(in ssa.Instruction) bool {
				c, ok := in.(ssa.CallInstruction)
				if !ok {
					return false
				}
				callee := c.Common().StaticCallee()
				if callee == nil || !inRepo(callee) || callee.Signature.Recv() == nil {
					return false
				}
				// a repository method taking the message and writing to the file
				takesMsg := false
				for _, a := range c.Common().Args {
					if typeIs(a.Type(), "storage", "LogMessage") {
						takesMsg = true
					}
				}
				if !takesMsg {
					return false
				}
				for _, c2 := range calls(callee) {
					if callsOSFile(c2, "Write") {
						return true
					}
					if f2 := c2.Common().StaticCallee(); f2 != nil && f2.String() == "encoding/binary.Write" {
						return true
					}
				}
				return false
			}
			isSync := func(in ssa.Instruction) bool {
				c, ok := in.(ssa.CallInstruction)
				return ok && callsOSFile(c, "Sync")
			}
			succ := func(in ssa.Instruction) bool {
				ret, ok := in.(*ssa.Return)
				return ok && !isErrorExit(ret)
			}
			anyOf := func(p func(ssa.Instruction) bool) []ssa.Instruction {
				var out []ssa.Instruction
				for _, b := range f.Blocks {
					for _, in := range b.Instrs {
						if p(in) {
							out = append(out, in)
						}
					}
				}
				return out
			}
			hs, ps, ss := anyOf(isHeader), anyOf(isPayload), anyOf(isSync)
			if !r.check(len(hs) > 0 && len(ps) > 0 && len(ss) > 0, name+":steps-present",
				fmt.Sprintf("header writes=%d payload writes=%d syncs=%d", len(hs), len(ps), len(ss)),
				fmt.Sprintf("the log append lacks a step: header writes=%d, payload writes=%d, Sync calls=%d", len(hs), len(ps), len(ss)), w.fpos(f)) {
				continue
			}
			p1 := findPath(f, nil, isSync, succ, nil)
			r.check(p1 == nil, name+":sync-before-ack", "every success exit passes through File.Sync",
				"the append can be acknowledged without the record having been synced to disk", w.fpos(f), w.renderPath(p1)...)
			var p2, p3 []ssa.Instruction
			for _, s := range ss {
				if p := findPath(f, nil, isPayload, func(in ssa.Instruction) bool { return in == s }, nil); p != nil {
					p2 = p
				}
			}
			r.check(p2 == nil, name+":payload-before-sync", "Sync is reached only after the payload write",
				"Sync can be reached without the payload having been written (the acknowledged record has a header but no body)", w.fpos(f), w.renderPath(p2)...)
			for _, pw := range ps {
				if p := findPath(f, nil, isHeader, func(in ssa.Instruction) bool { return in == pw }, nil); p != nil {
					p3 = p
				}
			}
			r.check(p3 == nil, name+":header-before-payload", "the payload is written only after its header",
				"the payload can be written without its header before it (the reader would misframe every later record)", w.fpos(f), w.renderPath(p3)...)
			// errors of header and payload writes are checked: between header and payload no success exit
			for _, h := range hs {
				p := findPath(f, h, isPayload, succ, nil)
				r.check(p == nil, name+":no-ack-between-header-and-payload", "no success exit between header and payload",
					"a success exit is reachable after the header write without the payload", w.pos(h.Pos()), w.renderPath(p)...)
			}
			// lock held at each step
			okLock := true
			for _, in := range append(append(hs, ps...), ss...) {
				if !lockHeldAt(f, in, "", true) {
					okLock = false
				}
			}
			r.check(okLock, name+":steps-under-file-lock", "header, payload and Sync happen with the file's mutex held",
				"a step of the append runs without the log file's lock: concurrent appends can interleave header and payload bytes", w.fpos(f))
		}
	}
}

func ruleR4_2(r *Run) {
	w := r.W
	impls := logImplementers(w, "ReadLog")
	if len(impls) == 0 {
		r.undecided("ReadLog", "no implementation of storage.ReadLog in this build")
		return
	}
	for _, t := range impls {
		for _, mname := range []string{"ReadAll", "StreamAll"} {
			f := w.methodOf(t, mname)
			if f == nil || len(f.Blocks) == 0 {
				continue
			}
			name := qname(t) + "." + mname
			n, viol := checkBufferBounds(f, nil)
			if n == 0 {
				r.undecided(name+":framing", "no slice of the file contents found in the reader")
				continue
			}
			if len(viol) == 0 {
				r.ok(name+":framing", fmt.Sprintf("%d slice/index expressions on the file contents, each dominated by a length comparison", n), w.fpos(f))
			}
			if len(viol) > 0 {
				var wit []string
				for _, v := range viol {
					wit = append(wit, fmt.Sprintf("%s: %s %s of %s", w.pos(v.In.Pos()), v.What, shortForm(v.Bound), shortForm(v.Buffer)))
				}
				r.violation(name+":framing",
					fmt.Sprintf("%d of %d slice/index expressions on the file contents are not dominated by a comparison with the number of bytes present: a log torn inside a record makes the reader panic or return a padded/invented record", len(viol), n),
					w.pos(viol[0].In.Pos()), wit...)
			}
		}
	}
}

// shortForm makes a linear form position-free (strips SSA pointer identities) for construct keys.
func shortForm(s string) string {
	out := ""
	skip := false
	for _, ch := range s {
		if ch == '@' {
			skip = true
			continue
		}
		if skip {
			if ch == ' ' || ch == ')' {
				skip = false
			} else {
				continue
			}
		}
		out += string(ch)
	}
	return strings.ReplaceAll(out, " ", "")
}

func ruleR4_3(r *Run) {
	w := r.W
	putCaches := w.method("datastore", "repoManager", "putCaches")
	save := w.method("datastore", "repoT", "save")
	if putCaches == nil || save == nil {
		r.violation("persist-functions", "datastore.repoManager.putCaches or repoT.save not found", "-")
		return
	}
	isPutCaches := func(in ssa.Instruction) bool {
		c, ok := in.(ssa.CallInstruction)
		return ok && c.Common().StaticCallee() == putCaches
	}
	saves := w.newReach(func(c ssa.CallInstruction) bool { return c.Common().StaticCallee() == save }, func(f *ssa.Function) bool { return relPkg(pkgPathOf(f)) != "datastore" })
	isSave := func(in ssa.Instruction) bool {
		c, ok := in.(ssa.CallInstruction)
		if !ok {
			return false
		}
		callee := c.Common().StaticCallee()
		return callee == save || (callee != nil && relPkg(pkgPathOf(callee)) == "datastore" && callee != putCaches && saves.From(callee))
	}
	n := 0
	for _, f := range w.RepoFuncs {
		if relPkg(pkgPathOf(f)) != "datastore" || len(f.Blocks) == 0 {
			continue
		}
		for _, b := range f.Blocks {
			for _, in := range b.Instrs {
				if !isMapUpdateOnField(in, "repoManager", "repoToUUID") {
					continue
				}
				n++
				p := findPath(f, in, isPutCaches, isSave, nil)
				r.check(p == nil, fname(f)+":repoToUUID-persisted-before-repo-blob",
					"after a repo id is entered into repoToUUID the map is persisted (putCaches) before any repo blob is saved",
					"a repo blob can be written before the repo-id→uuid map that the loader needs to accept it: a crash between the two writes makes every later start fail", w.pos(in.Pos()), w.renderPath(p)...)
			}
		}
	}
	if n == 0 {
		r.undecided("repoToUUID-writers", "no store into repoManager.repoToUUID found")
	}
	// tolerant loader: with every metadata key absent (found=false, err=nil) the loader still succeeds
	lv := w.method("datastore", "repoManager", "loadVersion0")
	if lv == nil {
		r.violation("loadVersion0", "datastore.repoManager.loadVersion0 not found", "-")
		return
	}
	// the reads of the id maps may sit in a helper of the loader (m.loadIDMaps()): the tolerance is then that helper's
	countLoads := func(g *ssa.Function) int {
		k := 0
		for _, c := range calls(g) {
			if callsMethodNamed(c, "loadData") {
				k++
			}
		}
		return k
	}
	if countLoads(lv) < 2 {
		for _, g := range withHelpers(lv) {
			if countLoads(g) >= 2 {
				lv = g
				break
			}
		}
	}
	nLoad := 0
	env := &AEnv{Atom: func(v ssa.Value) (AVal, bool) {
		if ex, ok := v.(*ssa.Extract); ok {
			if c, ok := ex.Tuple.(*ssa.Call); ok && callsMethodNamed(c, "loadData") {
				if ex.Index == 0 {
					return aBool(false), true
				}
				return AVal{K: ANil}, true
			}
		}
		return unknown, false
	}}
	for _, c := range calls(lv) {
		if callsMethodNamed(c, "loadData") {
			nLoad++
		}
	}
	s := runSCCP(lv, env)
	succ := false
	for _, b := range lv.Blocks {
		if !s.Feasible[b] {
			continue
		}
		if ret, ok := b.Instrs[len(b.Instrs)-1].(*ssa.Return); ok && !isErrorExit(ret) {
			succ = true
		}
	}
	r.check(nLoad >= 2 && succ, "loadVersion0:tolerates-absent-maps",
		fmt.Sprintf("with the %d map keys absent (found=false, no error) a success exit is still reachable", nLoad),
		"the start-up loader fails when an id map key is absent: a crash during the very first initialisation (ids written, maps not yet) makes every later start fail", w.fpos(lv))
}
