package main

// R18.8 / R20.16 — signed remainders of coordinates.
//
// Go's % keeps the sign of the dividend.  The repository's own idiom for the in-block offset of a
// coordinate that may be negative tests the sign first (`if p < 0 { s + ((p+1) % s) - 1 } else { p % s }`,
// dvid/point.go).  Rule: a signed remainder whose dividend is a point / span / run coordinate is taken
// only where the dividend is known non-negative, in the negative branch of that idiom, or where the
// result is only compared with zero (divisibility) — otherwise the offset is negative for negative
// coordinates and whatever is computed from it (block membership, lengths) is wrong.

import (
	"fmt"
	"go/token"
	"go/types"
	"strings"

	"golang.org/x/tools/go/ssa"
)

func init() {
	register(ruleDef{ID: "R18.8", Prop: "C18", Tier: "quick", Floor: 8,
		Title: "block decomposition is defined for negative coordinates (dvid, roi, labelvol): a signed remainder or a division by the block size of a voxel/run coordinate is taken only under a sign test of that coordinate (the repository's Point3d idiom), normalised afterwards, or used only as a divisibility test",
		Fn:    func(r *Run) { ruleSignedRem(r, []string{"dvid", "datatype/roi", "datatype/labelvol"}, 8) }})
	register(ruleDef{ID: "R8.12", Prop: "C08", Tier: "quick", Floor: 4,
		Title: "point lookups address the right block for negative coordinates (label types): block coordinate and in-block offset of a point are not computed with truncating / and % (same rule as R18.8)",
		Fn: func(r *Run) {
			ruleSignedRem(r, []string{"datatype/labelmap", "datatype/labelarray", "datatype/labelblk", "datatype/common/labels"}, 4)
		}})
	register(ruleDef{ID: "R13.31", Prop: "C13", Tier: "quick", Floor: 1,
		Title: "an element's block is found the same way for negative coordinates (annotation, labelsz and the dvid point functions they file elements by; same rule as R18.8): the block of an element or of a related element is not computed with a truncating / or % of its position",
		Fn:    func(r *Run) { ruleSignedRem(r, []string{"datatype/annotation", "datatype/labelsz", "dvid"}, 0) }})
	register(ruleDef{ID: "R17.4", Prop: "C17", Tier: "quick", Floor: 1,
		Title: "slice position inside a block is defined below z = 0 (imageblk bulk load; same rule as R18.8)",
		Fn:    func(r *Run) { ruleSignedRem(r, []string{"datatype/imageblk", "dvid"}, 8) }})
}

func coordKey(v ssa.Value) string {
	v = stripConv(v)
	switch x := v.(type) {
	case *ssa.UnOp:
		if x.Op == token.MUL {
			return "*" + coordAddrKey(x.X)
		}
	case *ssa.Index:
		if k, ok := constInt(x.Index); ok {
			return coordKey(x.X) + fmt.Sprintf("[%d]", k)
		}
	case *ssa.Field:
		return coordKey(x.X) + fmt.Sprintf(".%d", x.Field)
	case *ssa.BinOp:
		if x.Op == token.ADD || x.Op == token.SUB {
			return "(" + coordKey(x.X) + x.Op.String() + coordKey(x.Y) + ")"
		}
	case *ssa.Const:
		return x.Value.String()
	}
	return "v@" + v.Name()
}

func coordAddrKey(a ssa.Value) string {
	switch x := a.(type) {
	case *ssa.IndexAddr:
		if k, ok := constInt(x.Index); ok {
			return coordAddrKey(x.X) + fmt.Sprintf("[%d]", k)
		}
		return coordAddrKey(x.X) + "[" + coordKey(x.Index) + "]"
	case *ssa.FieldAddr:
		return coordAddrKey(x.X) + fmt.Sprintf(".%d", x.Field)
	case *ssa.UnOp:
		if x.Op == token.MUL {
			return "*" + coordAddrKey(x.X)
		}
	}
	return "a@" + a.Name()
}

// nonNegAt: is v known ≥ 0 (or > 0) at block b through a dominating comparison with a constant ≥ 0?
func nonNegAt(v ssa.Value, at ssa.Instruction) bool {
	f := at.Parent()
	key := coordKey(v)
	for _, b := range f.Blocks {
		ifi, ok := b.Instrs[len(b.Instrs)-1].(*ssa.If)
		if !ok {
			continue
		}
		bo, ok := ifi.Cond.(*ssa.BinOp)
		if !ok {
			continue
		}
		x, y, op := bo.X, bo.Y, bo.Op
		if _, isK := stripConv(x).(*ssa.Const); isK {
			x, y = y, x
			switch op {
			case token.LSS:
				op = token.GTR
			case token.GTR:
				op = token.LSS
			case token.LEQ:
				op = token.GEQ
			case token.GEQ:
				op = token.LEQ
			}
		}
		k, isK := constInt(y)
		if !isK || k < 0 || coordKey(x) != key {
			continue
		}
		// x < k (k ≥ 0) false edge ⇒ x ≥ k ≥ 0 ; x >= k true edge ; x > k true edge ; x <= k (k≥0)… no
		switch op {
		case token.LSS:
			if guardedByEdge(ifi, 1, at) {
				return true
			}
		case token.GEQ, token.GTR:
			if guardedByEdge(ifi, 0, at) {
				return true
			}
		case token.LEQ:
			if guardedByEdge(ifi, 1, at) { // !(x <= k) ⇒ x > k ≥ 0
				return true
			}
		}
	}
	return false
}

func ruleSignedRem(r *Run, pkgs []string, floor int) {
	w := r.W
	n := 0
	for _, f := range w.RepoFuncs {
		if len(f.Blocks) == 0 || strings.HasSuffix(w.fposFile(f), "_test.go") {
			continue
		}
		p := relPkg(pkgPathOf(f))
		inScope := false
		for _, q := range pkgs {
			if p == q {
				inScope = true
			}
		}
		if !inScope {
			continue
		}
		if _, exc := r.exceptionFor("R18.8", fname(f)); exc {
			continue
		}
		k := 0
		for _, b := range f.Blocks {
			for _, in := range b.Instrs {
				bo, ok := in.(*ssa.BinOp)
				if !ok || (bo.Op != token.REM && bo.Op != token.QUO) {
					continue
				}
				bt, ok := bo.X.Type().Underlying().(*types.Basic)
				if !ok || bt.Info()&types.IsInteger == 0 || bt.Info()&types.IsUnsigned != 0 {
					continue
				}
				// truncate-then-step-down (q := p / s; if p < 0 { q-- }) is not floor division: it is one too
				// low for negative exact multiples of s
				if bo.Op == token.QUO && bo.Referrers() != nil {
					if kind, _, isAxis := axisOf(stripConv(bo.X)); isAxis && kind != "bs" {
						for _, ref := range *bo.Referrers() {
							sub, ok := ref.(*ssa.BinOp)
							if !ok || sub.Op != token.SUB || sub.X != ssa.Value(bo) {
								continue
							}
							if one, isK := constInt(sub.Y); !isK || one != 1 {
								continue
							}
							if negAt(stripConv(bo.X), sub) {
								n++
								k++
								r.violation(fmt.Sprintf("%s:coordinate-quotient#%d:truncate-then-decrement", fname(f), k),
									"the block coordinate of a negative coordinate is computed as p / s − 1: for negative exact multiples of the block size that is one block too low (the repository's idiom is (p − s + 1) / s)", w.pos(sub.Pos()))
							}
						}
					}
				}
				// a quotient taken where a coordinate is known negative must be the floor idiom (p - s + 1) / s
				if bo.Op == token.QUO {
					handled := false
					for _, leaf := range rootsOfLin(stripConv(bo.X)) {
						if kind, _, isAxis := axisOf(leaf); !isAxis || kind == "bs" || !negAt(leaf, bo) {
							continue
						}
						handled = true
						n++
						k++
						form := linCK(bo.X, 0).add(linCK(leaf, 0), -1).add(linCK(bo.Y, 0), 1)
						r.check(form.ok && len(form.terms) == 0 && form.c == 1, fmt.Sprintf("%s:coordinate-quotient#%d:floor-idiom", fname(f), k),
							"under `coordinate < 0` the quotient is (p - s + 1) / s",
							"where the coordinate is known negative the block coordinate is not computed as (p − s + 1) / s: for negative coordinates (in particular exact multiples of the block size) the result is the wrong block", w.pos(bo.Pos()))
					}
					if handled {
						continue
					}
				}
				// dividend: a coordinate, possibly ±const
				div := stripConv(bo.X)
				base := div
				if ab, ok := div.(*ssa.BinOp); ok && (ab.Op == token.ADD || ab.Op == token.SUB) {
					if _, isK := ab.Y.(*ssa.Const); isK {
						base = stripConv(ab.X)
					}
				}
				kind, _, isAxis := axisOf(base)
				if !isAxis {
					// a loop variable that starts at a coordinate (for v := minPt[2]; …; v++) is a coordinate
					if phi, isPhi := base.(*ssa.Phi); isPhi {
						for _, e := range phi.Edges {
							if k2, _, ok2 := axisOf(stripConv(e)); ok2 && k2 != "bs" {
								kind, isAxis = k2, true
							}
						}
					}
				}
				if !isAxis || kind == "bs" {
					continue
				}
				if bo.Op == token.QUO && kind != "bound" {
					// only the decomposition coordinate / block size (a voxel bound is only ever divided by a block size)
					if dk, _, isD := axisOf(stripConv(bo.Y)); !isD || dk != "bs" {
						continue
					}
				}
				n++
				k++
				okUse := nonNegAt(base, bo) || nonNegAt(div, bo)
				// negative branch of the idiom: s + ((p+1) % s) - 1 under p < 0
				if !okUse && base != div {
					okUse = negAt(base, bo)
				}
				// normalised afterwards: r := x % s; if r < 0 { r += s }
				if !okUse && bo.Op == token.REM && bo.Referrers() != nil {
					for _, ref := range *bo.Referrers() {
						if cmp, ok := ref.(*ssa.BinOp); ok && cmp.Op == token.LSS && cmp.X == ssa.Value(bo) {
							if kk, isK := constInt(cmp.Y); isK && kk == 0 {
								okUse = true
							}
						}
					}
				}
				// a quotient that is only meaningful together with an alignment flag computed from the same operands
				if !okUse && bo.Op == token.QUO {
					for _, b2 := range f.Blocks {
						for _, in2 := range b2.Instrs {
							if rm, ok := in2.(*ssa.BinOp); ok && rm.Op == token.REM && coordKey(rm.X) == coordKey(bo.X) && coordKey(rm.Y) == coordKey(bo.Y) && onlyZeroTests(rm) {
								okUse = true
							}
						}
					}
				}
				// divisibility only
				if !okUse && bo.Op == token.REM {
					okUse = onlyZeroTests(bo)
				}
				if false {
					onlyZero := bo.Referrers() != nil && len(*bo.Referrers()) > 0
					for _, ref := range *bo.Referrers() {
						cmp, ok := ref.(*ssa.BinOp)
						if !ok || (cmp.Op != token.EQL && cmp.Op != token.NEQ && cmp.Op != token.GTR) || bo.Op != token.REM {
							onlyZero = false
							continue
						}
						other := cmp.Y
						if other == ssa.Value(bo) {
							other = cmp.X
						}
						if kk, isK := constInt(other); !isK || kk != 0 {
							onlyZero = false
						}
					}
					okUse = onlyZero
				}
				r.check(okUse, fmt.Sprintf("%s:coordinate-%s#%d", fname(f), map[token.Token]string{token.REM: "remainder", token.QUO: "quotient"}[bo.Op], k), "taken under a sign test of the coordinate, or used as a divisibility test only",
					"a signed remainder of a coordinate is used as an offset without a sign test: for negative coordinates it is negative (Go's % keeps the dividend's sign), so a run/voxel near a block boundary is attributed to the wrong block", w.pos(bo.Pos()))
			}
		}
	}
	r.check(n >= floor, "repo:coordinate-remainders", fmt.Sprintf("%d signed remainders of coordinates examined", n), "too few: rule needs review", "-")
}

// negAt: v is known < 0 at `at`.
func negAt(v ssa.Value, at ssa.Instruction) bool {
	f := at.Parent()
	key := coordKey(v)
	for _, b := range f.Blocks {
		ifi, ok := b.Instrs[len(b.Instrs)-1].(*ssa.If)
		if !ok {
			continue
		}
		bo, ok := ifi.Cond.(*ssa.BinOp)
		if !ok || coordKey(bo.X) != key {
			continue
		}
		k, isK := constInt(bo.Y)
		if !isK || k != 0 {
			continue
		}
		if bo.Op == token.LSS && guardedByEdge(ifi, 0, at) {
			return true
		}
		if bo.Op == token.GEQ && guardedByEdge(ifi, 1, at) {
			return true
		}
	}
	return false
}

// onlyZeroTests: every use of the remainder compares it with zero (== 0, != 0, > 0).
func onlyZeroTests(bo *ssa.BinOp) bool {
	if bo.Referrers() == nil || len(*bo.Referrers()) == 0 {
		return false
	}
	for _, ref := range *bo.Referrers() {
		cmp, ok := ref.(*ssa.BinOp)
		if !ok || (cmp.Op != token.EQL && cmp.Op != token.NEQ && cmp.Op != token.GTR) {
			return false
		}
		other := cmp.Y
		if other == ssa.Value(bo) {
			other = cmp.X
		}
		if kk, isK := constInt(other); !isK || kk != 0 {
			return false
		}
	}
	return true
}

// ---------------------------------------------------------------------------------------------
// R18.9 — scans over sorted spans stop early only on the primary sort key

func init() {
	register(ruleDef{ID: "R18.9", Prop: "C18", Tier: "quick", Floor: 2,
		Title: "a scan over (z, y, x0)-sorted ROI spans gives up early only on z: an exit from the loop over the spans that ends the search without a hit is decided by the span's z alone (y and x start over in every plane)",
		Fn:    ruleSpanScanExit})
}

func ruleSpanScanExit(r *Run) {
	w := r.W
	n := 0
	for _, f := range w.RepoFuncs {
		if len(f.Blocks) == 0 || strings.HasSuffix(w.fposFile(f), "_test.go") {
			continue
		}
		p := relPkg(pkgPathOf(f))
		if p != "dvid" && p != "datatype/roi" {
			continue
		}
		loops := naturalLoops(f)
		k := 0
		for _, h := range f.Blocks {
			set := loops[h]
			if set == nil {
				continue
			}
			// the loop ranges over a slice of spans: the header compares an index with len(spans)
			ifi, ok := h.Instrs[len(h.Instrs)-1].(*ssa.If)
			if !ok {
				continue
			}
			overSpans := false
			for d := range dataDeps(ifi.Cond) {
				if c, ok := d.(*ssa.Call); ok {
					if bi, ok := c.Call.Value.(*ssa.Builtin); ok && bi.Name() == "len" {
						if sl, ok := c.Call.Args[0].Type().Underlying().(*types.Slice); ok {
							if nm := namedOf(sl.Elem()); nm != nil && nm.Obj().Name() == "Span" {
								overSpans = true
							}
						}
					}
				}
			}
			if !overSpans {
				continue
			}
			for _, b := range f.Blocks {
				if !set[b] || b == h {
					continue
				}
				bif, ok := b.Instrs[len(b.Instrs)-1].(*ssa.If)
				if !ok {
					continue
				}
				for _, s := range b.Succs {
					if set[s] {
						continue
					}
					// a positive answer may depend on everything
					if ret, ok := s.Instrs[len(s.Instrs)-1].(*ssa.Return); ok && len(s.Instrs) == 1 && len(ret.Results) > 0 {
						if c, ok := ret.Results[0].(*ssa.Const); ok && constVal(c).K == ABool && constVal(c).B {
							continue
						}
					}
					// error exits are not answers
					if successReachable(s, set) == nil {
						continue
					}
					other := ""
					usesSpan := false
					cmp, isCmp := bif.Cond.(*ssa.BinOp)
					if !isCmp {
						continue
					}
					for _, d := range []ssa.Value{stripConv(cmp.X), stripConv(cmp.Y)} {
						if kind, axis, ok := axisOf(d); ok && kind == "span" {
							usesSpan = true
							// lexicographic comparison: a test on y (x) is fine once z (z and y) are known equal
							need := []int{2}
							if axis == 0 {
								need = []int{2, 1}
							}
							if axis != 2 {
								for _, ax := range need {
									if !spanAxisEqualAt(f, ax, b) {
										other = w.pos(bif.Cond.Pos())
									}
								}
							}
						}
					}
					if !usesSpan {
						continue
					}
					n++
					k++
					r.check(other == "", fmt.Sprintf("%s:span-scan-exit#%d", fname(f), k), "the early exit is decided by the span's z only",
						"the scan over the sorted spans is abandoned on a comparison of a span's y or x: spans are sorted by (z, y, x0), so y and x start over in every z plane and later planes that intersect are never examined", other)
				}
			}
		}
	}
	r.check(n >= 2, "roi:span-scans", fmt.Sprintf("%d early exits from span scans examined", n), "span scans not found: rule needs review", "-")
}

// spanAxisEqualAt: block b is only reached when a span's component on `axis` equals some value q:
// the false edges of both `span[axis] > q` and `span[axis] < q` (same q), or an equality test, guard it.
func spanAxisEqualAt(f *ssa.Function, axis int, b *ssa.BasicBlock) bool {
	at := b.Instrs[0]
	gt, lt := map[string]bool{}, map[string]bool{}
	for _, blk := range f.Blocks {
		ifi, ok := blk.Instrs[len(blk.Instrs)-1].(*ssa.If)
		if !ok {
			continue
		}
		bo, ok := ifi.Cond.(*ssa.BinOp)
		if !ok {
			continue
		}
		x, y, op := stripConv(bo.X), stripConv(bo.Y), bo.Op
		if kind, ax, ok := axisOf(y); ok && kind == "span" && ax == axis {
			x, y = y, x
			switch op {
			case token.LSS:
				op = token.GTR
			case token.GTR:
				op = token.LSS
			}
		}
		kind, ax, ok := axisOf(x)
		if !ok || kind != "span" || ax != axis {
			continue
		}
		q := coordKey(y)
		switch op {
		case token.GTR:
			if guardedByEdge(ifi, 1, at) {
				gt[q] = true
			}
		case token.LSS:
			if guardedByEdge(ifi, 1, at) {
				lt[q] = true
			}
		case token.EQL:
			if guardedByEdge(ifi, 0, at) {
				return true
			}
		case token.NEQ:
			if guardedByEdge(ifi, 1, at) {
				return true
			}
		}
	}
	for q := range gt {
		if lt[q] {
			return true
		}
	}
	return false
}

// linCK: additive linear form whose atoms are access-path keys (so that two loads of size[0] cancel).
func linCK(v ssa.Value, d int) linForm {
	v = stripConv(v)
	if d > 8 {
		return linForm{}
	}
	switch x := v.(type) {
	case *ssa.Const:
		if k, ok := constInt(x); ok {
			return linConst(k)
		}
	case *ssa.BinOp:
		switch x.Op {
		case token.ADD:
			return linCK(x.X, d+1).add(linCK(x.Y, d+1), 1)
		case token.SUB:
			return linCK(x.X, d+1).add(linCK(x.Y, d+1), -1)
		}
	}
	return linAtom(coordKey(v))
}

// ---------------------------------------------------------------------------------------------
// R18.11 — runs are merged only within one scan line;  R18.12 — box queries read whole z layers of spans

func init() {
	register(ruleDef{ID: "R18.11", Prop: "C18", Tier: "quick", Floor: 1,
		Title: "normalisation keeps runs on their scan line: a run is extended by the next one only when both their y and their z are equal (and the x positions meet)",
		Fn:    ruleMergeSameLine})
	register(ruleDef{ID: "R18.12", Prop: "C18", Tier: "quick", Floor: 3,
		Title: "a box query sees every span that reaches into the box: the key range handed to the span reader is bounded in z only (spans are keyed by their start x, which may lie left of the box)",
		Fn:    ruleSpanRangeByZ})
}

// axisEqualAt: block b is reached only when two point components of the given axis are equal.
func axisEqualAt(f *ssa.Function, axis int, at ssa.Instruction) bool {
	for _, blk := range f.Blocks {
		ifi, ok := blk.Instrs[len(blk.Instrs)-1].(*ssa.If)
		if !ok {
			continue
		}
		bo, ok := ifi.Cond.(*ssa.BinOp)
		if !ok || (bo.Op != token.NEQ && bo.Op != token.EQL) {
			continue
		}
		kx, ax, okx := axisOf(stripConv(bo.X))
		ky, ay, oky := axisOf(stripConv(bo.Y))
		if !okx || !oky || kx == "bs" || ky == "bs" || ax != axis || ay != axis {
			continue
		}
		edge := 1
		if bo.Op == token.EQL {
			edge = 0
		}
		if guardedByEdge(ifi, edge, at) {
			return true
		}
	}
	return false
}

func ruleMergeSameLine(r *Run) {
	w := r.W
	n := 0
	for _, f := range w.RepoFuncs {
		if relPkg(pkgPathOf(f)) != "dvid" || len(f.Blocks) == 0 || strings.HasSuffix(w.fposFile(f), "_test.go") {
			continue
		}
		if f.Signature.Recv() == nil || recvName(f.Signature.Recv().Type()) != "RLEs" || f.Name() != "Normalize" {
			continue
		}
		for _, b := range f.Blocks {
			for _, in := range b.Instrs {
				st, ok := in.(*ssa.Store)
				if !ok {
					continue
				}
				fa, ok := st.Addr.(*ssa.FieldAddr)
				if !ok {
					continue
				}
				if name, _, _ := fieldName(fa); name != "length" {
					continue
				}
				add, ok := stripConv(st.Val).(*ssa.BinOp)
				if !ok || add.Op != token.ADD {
					continue
				}
				n++
				y, z := axisEqualAt(f, 1, st), axisEqualAt(f, 2, st)
				r.check(y && z, fmt.Sprintf("%s:run-extended#%d:same-y-and-z", fname(f), n), "the extension is reached only with equal y and equal z",
					fmt.Sprintf("a run is extended by its successor without both scan-line coordinates being tested equal (y tested: %v, z tested: %v): runs of different lines that happen to meet in x are joined and their voxels move to the wrong line", y, z), w.pos(st.Pos()))
			}
		}
	}
	r.check(n >= 1, "dvid.RLEs.Normalize:merge-sites", fmt.Sprintf("%d run extensions", n), "run extension in Normalize not found: rule needs review", "-")
}

func ruleSpanRangeByZ(r *Run) {
	w := r.W
	n := 0
	for _, f := range w.RepoFuncs {
		if relPkg(pkgPathOf(f)) != "datatype/roi" || len(f.Blocks) == 0 || strings.HasSuffix(w.fposFile(f), "_test.go") {
			continue
		}
		k := 0
		for _, c := range calls(f) {
			cal := staticCallee(c)
			if cal == nil || cal.Name() != "getSpans" || len(c.Common().Args) != 3 {
				continue
			}
			n++
			k++
			bad := ""
			for _, a := range c.Common().Args[1:] {
				okArg := false
				rs := roots(a, f)
				for _, rt := range rs {
					switch x := rt.V.(type) {
					case *ssa.Call:
						if cc := x.Call.StaticCallee(); cc != nil && (cc.Name() == "minIndexByBlockZ" || cc.Name() == "maxIndexByBlockZ") {
							okArg = true
						}
					case *ssa.UnOp:
						if g, ok := x.X.(*ssa.Global); ok && (g.Name() == "minIndexRLE" || g.Name() == "maxIndexRLE") {
							okArg = true
						}
					case *ssa.Parameter:
						okArg = true // judged at the callers
					}
				}
				if !okArg {
					bad = w.pos(c.Pos())
				}
			}
			r.check(bad == "", fmt.Sprintf("%s:getSpans#%d:range-bounded-in-z-only", fname(f), k), "the range covers whole z layers (or everything)",
				"the span reader is given a key range that is also bounded in y or x: spans are keyed by (z, y, start x), so a span that starts left of the box (or on the box's first rows) but reaches into it is never read, and mask / membership answers miss it", bad)
		}
	}
	r.check(n >= 3, "roi:getSpans-sites", fmt.Sprintf("%d call sites", n), "too few: rule needs review", "-")
}
