package main

import (
	"fmt"
	"go/token"
	"go/types"
	"sort"
	"strings"

	"golang.org/x/tools/go/ssa"
)

func init() {
	register(ruleDef{ID: "R13.1", Prop: "C13", Tier: "quick", Floor: 12,
		Title: "edit × denormalisation matrix: element post / delete / move update, on every success exit, the block store, the per-tag index, the per-body index and (delete/move) partner relationships, and commit the batch",
		Fn:    ruleR13_1})
	register(ruleDef{ID: "R13.2", Prop: "C13", Tier: "quick", Floor: 6,
		Title: "publisher → subscriber exhaustiveness: every label operation publishes, on success, an event annotation subscribes to for labelmap with a delta type the annotation handler has a case for",
		Fn:    ruleR13_2})
	register(ruleDef{ID: "R13.3", Prop: "C13", Tier: "quick", Floor: 5,
		Title: "delta ⇒ notify: wherever a per-body annotation delta (Add/Del) is recorded, count subscribers are notified before the function succeeds",
		Fn:    ruleR13_3})
	register(ruleDef{ID: "R13.4", Prop: "C13", Tier: "quick", Floor: 4,
		Title: "sibling agreement of the label-event handlers: each handler that moves elements between bodies both writes and deletes per-body index keys (an emptied body's list is removed)",
		Fn:    ruleR13_4})
}

func ruleR13_1(r *Run) {
	w := r.W
	matrix := map[string][]string{
		"StoreElements": {"storeBlockElements", "storeLabelElements", "modifyTagElements", "Commit"},
		"DeleteElement": {"putElements", "deleteElementInLabel", "deleteElementInTags", "deleteElementInRelationships", "Commit"},
		"MoveElement":   {"putBatchElements", "moveElementInLabels", "moveElementInTags", "moveElementInRelationships", "Commit"},
	}
	var ops []string
	for k := range matrix {
		ops = append(ops, k)
	}
	sort.Strings(ops)
	for _, op := range ops {
		f := w.method("datatype/annotation", "Data", op)
		if f == nil {
			r.violation("annotation.Data."+op, "edit path not found", "-")
			continue
		}
		for _, need := range matrix[op] {
			is := func(in ssa.Instruction) bool { return w.performs(in, []string{need}, 2) }
			p := findPath(f, nil, is, func(in ssa.Instruction) bool {
				ret, ok := in.(*ssa.Return)
				return ok && !isErrorExit(ret)
			}, nil)
			r.check(p == nil, fmt.Sprintf("annotation.%s:updates:%s", op, need),
				"every success exit passes through "+need,
				fmt.Sprintf("%s can succeed without %s: one of the views of the element set (block store / tag index / body index / partner relationships) is left stale", op, need), w.fpos(f), w.renderPath(p)...)
		}
	}
	// the rebuild covers tag and label classes
	rd := w.method("datatype/annotation", "Data", "RecreateDenormalizations")
	if rd == nil {
		for _, f := range w.RepoFuncs {
			if relPkg(pkgPathOf(f)) == "datatype/annotation" && strings.Contains(f.Name(), "ecreateDenorm") && f.Parent() == nil {
				rd = f
			}
		}
	}
	if rd != nil {
		reach := func(name string) bool {
			rr := w.newReach(func(c ssa.CallInstruction) bool {
				callee := c.Common().StaticCallee()
				return callee != nil && callee.Name() == name
			}, func(f *ssa.Function) bool { return relPkg(pkgPathOf(f)) != "datatype/annotation" })
			return rr.From(rd)
		}
		r.check(reach("NewTagTKey") && reach("NewLabelTKey"), "annotation.RecreateDenormalizations:covers-tag-and-label",
			"the rebuild writes both tag and label key classes", "the denormalisation rebuild no longer covers both the tag and the label key classes", w.fpos(rd))
	}
}

// publishInfo describes one datastore.NotifySubscribers call.
type publishInfo struct {
	Call      ssa.CallInstruction
	Fn        *ssa.Function
	Events    []string
	DeltaType types.Type
}

func structFieldStores(v ssa.Value, field string, f *ssa.Function) []ssa.Value {
	// v is a load of an Alloc holding a struct; return the value most recently stored into `field`
	// before the load (flow-sensitive along the straight-line / single-predecessor path), else all stores.
	u, ok := v.(*ssa.UnOp)
	if !ok {
		return nil
	}
	al, ok := u.X.(*ssa.Alloc)
	if !ok {
		return nil
	}
	if lv := lastStoreBefore(al, u); lv != nil {
		if u2, ok := lv.(*ssa.UnOp); ok {
			if al2, ok := u2.X.(*ssa.Alloc); ok {
				al = al2
			}
		}
	}
	b := u.Block()
	idx := instrIndex(u)
	for hops := 0; hops < 12; hops++ {
		for i := idx - 1; i >= 0; i-- {
			if st, ok := b.Instrs[i].(*ssa.Store); ok {
				if fa, ok := st.Addr.(*ssa.FieldAddr); ok && fa.X == ssa.Value(al) {
					if name, _, _ := fieldName(fa); name == field {
						return []ssa.Value{st.Val}
					}
				}
			}
		}
		if len(b.Preds) != 1 {
			break
		}
		b = b.Preds[0]
		idx = len(b.Instrs)
	}
	var out []ssa.Value
	for _, ref := range *al.Referrers() {
		fa, ok := ref.(*ssa.FieldAddr)
		if !ok {
			continue
		}
		if name, _, _ := fieldName(fa); name != field {
			continue
		}
		for _, r2 := range *fa.Referrers() {
			if st, ok := r2.(*ssa.Store); ok {
				out = append(out, st.Val)
			}
		}
	}
	return out
}

func publishesIn(w *World, pkg string) []publishInfo {
	var out []publishInfo
	for _, f := range w.RepoFuncs {
		if relPkg(pkgPathOf(f)) != pkg || len(f.Blocks) == 0 {
			continue
		}
		for _, c := range calls(f) {
			if !isCallTo(c, "datastore", "", "NotifySubscribers") {
				continue
			}
			pi := publishInfo{Call: c, Fn: f}
			for _, ev := range structFieldStores(c.Common().Args[0], "Event", f) {
				for _, rv := range roots(ev, f) {
					if s, ok := constString(rv.V); ok {
						pi.Events = append(pi.Events, s)
					}
				}
			}
			var dts []types.Type
			for _, dv := range structFieldStores(c.Common().Args[1], "Delta", f) {
				for _, rv := range rootsKeepIface(dv, f) {
					if mi, ok := rv.(*ssa.MakeInterface); ok {
						dts = append(dts, mi.X.Type())
					}
				}
			}
			if len(dts) == 0 {
				out = append(out, pi)
			}
			for _, dt := range dts {
				p2 := pi
				p2.DeltaType = dt
				out = append(out, p2)
			}
		}
	}
	return out
}

func ruleR13_2(r *Run) {
	w := r.W
	subsFn := w.method("datatype/annotation", "Data", "GetSyncSubs")
	handler := w.method("datatype/annotation", "Data", "handleSyncMessage")
	if subsFn == nil || handler == nil {
		r.violation("annotation.sync", "GetSyncSubs / handleSyncMessage not found", "-")
		return
	}
	// events subscribed for labelmap: constants stored into SyncEvent.Event in blocks guarded by TypeName()=="labelmap"
	var guard *ssa.If
	for _, b := range subsFn.Blocks {
		if ifi, ok := b.Instrs[len(b.Instrs)-1].(*ssa.If); ok {
			if bo, ok := ifi.Cond.(*ssa.BinOp); ok && bo.Op == token.EQL {
				if s, ok := constString(bo.Y); ok && s == "labelmap" {
					guard = ifi
				}
			}
		}
	}
	subscribed := map[string]bool{}
	if guard != nil {
		body := guard.Block().Succs[0]
		for _, b := range subsFn.Blocks {
			if !(body == b || body.Dominates(b)) {
				continue
			}
			for _, in := range b.Instrs {
				if st, ok := in.(*ssa.Store); ok {
					if s, ok := constString(st.Val); ok {
						if fa, ok := st.Addr.(*ssa.FieldAddr); ok {
							if name, _, _ := fieldName(fa); name == "Event" {
								subscribed[s] = true
							}
						}
					}
				}
			}
		}
	}
	var sl []string
	for s := range subscribed {
		sl = append(sl, s)
	}
	sort.Strings(sl)
	if len(subscribed) < 4 {
		r.violation("annotation.GetSyncSubs:labelmap", fmt.Sprintf("annotation subscribes to only %v for labelmap: label operations no longer reach the per-body index", sl), w.fpos(subsFn))
		return
	}
	// delta types handled
	handled := []types.Type{}
	for _, b := range handler.Blocks {
		for _, in := range b.Instrs {
			if ta, ok := in.(*ssa.TypeAssert); ok {
				handled = append(handled, ta.AssertedType)
			}
		}
	}
	isHandled := func(t types.Type) bool {
		for _, h := range handled {
			if types.Identical(h, t) {
				return true
			}
		}
		return false
	}
	r.note("R13.2 subscribed labelmap events: %v; %d delta types handled", sl, len(handled))
	pubs := publishesIn(w, "datatype/labelmap")
	// (b) every published subscribed event carries a handled delta type
	for _, p := range pubs {
		for _, ev := range p.Events {
			if !subscribed[ev] || p.DeltaType == nil {
				continue
			}
			r.check(isHandled(p.DeltaType), fmt.Sprintf("%s:publishes:%s:%s", fname(p.Fn), ev, typeShort(p.DeltaType)),
				"the delta type has a case in annotation's handler",
				fmt.Sprintf("labelmap publishes event %s with a %s delta, which annotation subscribes to but has no handler case for ('unexpected delta'): the per-body index is not updated", ev, typeShort(p.DeltaType)), w.pos(p.Call.Pos()))
		}
	}
	// (a) each label operation publishes a subscribed + handled event on every success exit
	for _, op := range []string{"MergeLabels", "CleaveLabel", "SplitLabels"} {
		f := w.method("datatype/labelmap", "Data", op)
		if f == nil {
			r.violation("labelmap.Data."+op, "operation not found", "-")
			continue
		}
		isPub := func(in ssa.Instruction) bool {
			for _, p := range pubs {
				if ssa.Instruction(p.Call) != in {
					continue
				}
				for _, ev := range p.Events {
					if subscribed[ev] && p.DeltaType != nil && isHandled(p.DeltaType) {
						return true
					}
				}
			}
			return false
		}
		path := findPath(f, nil, isPub, func(in ssa.Instruction) bool {
			ret, ok := in.(*ssa.Return)
			return ok && !isErrorExit(ret)
		}, nil)
		r.check(path == nil, "labelmap."+op+":publishes-subscribed-event",
			"every success exit passes a NotifySubscribers of a subscribed event with a handled delta",
			op+" can succeed without publishing an event that annotation subscribes to and handles: annotations on the affected bodies keep their old body assignment", w.fpos(f), w.renderPath(path)...)
	}
	// block writes: the callbacks publish ingest/mutate events
	nBlockPubs := 0
	for _, p := range pubs {
		for _, ev := range p.Events {
			if (ev == "BLOCK_INGEST" || ev == "BLOCK_MUTATE") && subscribed[ev] && p.DeltaType != nil && isHandled(p.DeltaType) {
				nBlockPubs++
			}
		}
	}
	r.check(nBlockPubs >= 2, "labelmap:block-writes-publish", fmt.Sprintf("%d block-write publications of subscribed events with handled deltas", nBlockPubs),
		"labelmap block writes no longer publish ingest/mutate events that annotation handles", "-")
}

func ruleR13_3(r *Run) {
	w := r.W
	n := 0
	for _, f := range w.RepoFuncs {
		if relPkg(pkgPathOf(f)) != "datatype/annotation" || len(f.Blocks) == 0 {
			continue
		}
		for _, b := range f.Blocks {
			for _, in := range b.Instrs {
				st, ok := in.(*ssa.Store)
				if !ok {
					continue
				}
				fa, ok := st.Addr.(*ssa.FieldAddr)
				if !ok || !typeIs(fa.X.Type(), "datatype/annotation", "DeltaModifyElements") {
					continue
				}
				if c, ok := st.Val.(*ssa.Call); !ok || !isAppend(c) {
					continue
				}
				n++
				fld, _, _ := fieldName(fa)
				key := addrKey(fa)
				// slices appended in the same block (same iteration) are non-empty whenever the delta is
				coAppended := map[string]bool{}
				grownVals := map[ssa.Value]bool{}
				for _, x := range st.Block().Instrs {
					if s2, ok := x.(*ssa.Store); ok {
						if c2, ok := s2.Val.(*ssa.Call); ok && isAppend(c2) {
							coAppended[addrKey(s2.Addr)] = true
						}
					}
					if c2, ok := x.(*ssa.Call); ok && isAppend(c2) {
						grownVals[c2] = true
					}
					if mu, ok := x.(*ssa.MapUpdate); ok {
						grownVals[mu.Map] = true
					}
				}
				feasible := func(bb *ssa.BasicBlock, i int) bool {
					ifi, ok := bb.Instrs[len(bb.Instrs)-1].(*ssa.If)
					if !ok {
						return true
					}
					bo, ok := ifi.Cond.(*ssa.BinOp)
					if !ok {
						return true
					}
					lc, ok := bo.X.(*ssa.Call)
					if !ok {
						return true
					}
					if bi, ok := lc.Call.Value.(*ssa.Builtin); !ok || bi.Name() != "len" {
						return true
					}
					grown := false
					if ld, ok := lc.Call.Args[0].(*ssa.UnOp); ok && (addrKey(ld.X) == key || coAppended[addrKey(ld.X)]) {
						grown = true
					}
					// SSA-register slices / maps grown in the same block as the delta entry
					var stack []ssa.Value
					stack = append(stack, lc.Call.Args[0])
					seenV := map[ssa.Value]bool{}
					for len(stack) > 0 && !grown {
						x := stack[len(stack)-1]
						stack = stack[:len(stack)-1]
						if seenV[x] {
							continue
						}
						seenV[x] = true
						if grownVals[x] {
							grown = true
						}
						if phi, ok := x.(*ssa.Phi); ok {
							stack = append(stack, phi.Edges...)
						}
					}
					if !grown {
						return true
					}
					k, _ := constInt(bo.Y)
					switch {
					case (bo.Op == token.NEQ || bo.Op == token.GTR) && k == 0:
						return i == 0
					case bo.Op == token.EQL && k == 0:
						return i == 1
					}
					return true
				}
				isNotify := func(x ssa.Instruction) bool {
					c, ok := x.(ssa.CallInstruction)
					return ok && isCallTo(c, "datastore", "", "NotifySubscribers")
				}
				p := findPath(f, st, isNotify, func(x ssa.Instruction) bool {
					ret, ok := x.(*ssa.Return)
					return ok && !isErrorExit(ret) && !isLoggedErrorExit(ret)
				}, feasible)
				r.check(p == nil, fmt.Sprintf("%s:delta.%s-notified", fname(f), fld),
					"after an entry is added to the delta every success exit notifies subscribers",
					fmt.Sprintf("a change of the per-body annotation index is recorded in delta.%s but a success exit skips NotifySubscribers: synced per-body counts (labelsz) drift from the elements", fld), w.pos(st.Pos()), w.renderPath(p)...)
			}
		}
	}
	if n < 5 {
		r.undecided("delta-sites", fmt.Sprintf("only %d delta recordings found", n))
	}
}

func isAppend(c *ssa.Call) bool {
	bi, ok := c.Call.Value.(*ssa.Builtin)
	return ok && bi.Name() == "append"
}

func ruleR13_4(r *Run) {
	w := r.W
	handler := w.method("datatype/annotation", "Data", "handleSyncMessage")
	if handler == nil {
		r.violation("annotation.handleSyncMessage", "not found", "-")
		return
	}
	// label-operation handlers: annotation methods called from the handler with a labels.* op/delta argument
	n := 0
	seen := map[*ssa.Function]bool{}
	for _, c := range calls(handler) {
		callee := c.Common().StaticCallee()
		if callee == nil || relPkg(pkgPathOf(callee)) != "datatype/annotation" || seen[callee] {
			continue
		}
		takesLabelOp := false
		for _, a := range c.Common().Args {
			if n := namedOf(a.Type()); n != nil && n.Obj().Pkg() != nil && strings.HasSuffix(n.Obj().Pkg().Path(), "datatype/common/labels") {
				takesLabelOp = true
			}
		}
		if !takesLabelOp {
			continue
		}
		seen[callee] = true
		n++
		puts, dels := 0, 0
		for _, g := range withClosures(callee) {
			for _, c2 := range calls(g) {
				if c2.Common().IsInvoke() && typeIs(c2.Common().Value.Type(), "storage", "Batch") {
					switch c2.Common().Method.Name() {
					case "Put":
						puts++
					case "Delete":
						dels++
					}
				}
			}
		}
		r.check(puts > 0 && dels > 0, fname(callee)+":writes-and-deletes-body-lists",
			fmt.Sprintf("%d batch puts, %d batch deletes of per-body lists", puts, dels),
			fmt.Sprintf("the label-event handler %s has %d puts and %d deletes of per-body lists while its siblings have both: a body that lost all its annotated elements keeps a stale list", callee.Name(), puts, dels), w.fpos(callee))
	}
	if n < 4 {
		r.undecided("label-event-handlers", fmt.Sprintf("only %d label-event handlers found", n))
	}
}

// rootsKeepIface resolves a value through phis and local spills but stops at MakeInterface (so the
// static type boxed into an interface is visible).
func rootsKeepIface(v ssa.Value, f *ssa.Function) []ssa.Value {
	var out []ssa.Value
	seen := map[ssa.Value]bool{}
	var rec func(v ssa.Value, d int)
	rec = func(v ssa.Value, d int) {
		if v == nil || d > 8 || seen[v] {
			return
		}
		seen[v] = true
		switch x := v.(type) {
		case *ssa.Phi:
			for _, e := range x.Edges {
				rec(e, d+1)
			}
			return
		case *ssa.UnOp:
			if al, ok := x.X.(*ssa.Alloc); ok {
				n := 0
				for _, ref := range *al.Referrers() {
					if st, ok := ref.(*ssa.Store); ok && st.Addr == ssa.Value(al) {
						rec(st.Val, d+1)
						n++
					}
				}
				if n > 0 {
					return
				}
			}
		}
		out = append(out, v)
	}
	rec(v, 0)
	return out
}

// isLoggedErrorExit: a return of a function without error result in a block that logs an error.
func isLoggedErrorExit(ret *ssa.Return) bool {
	if errResultIndex(ret.Parent()) >= 0 {
		return false
	}
	for _, in := range ret.Block().Instrs {
		if c, ok := in.(ssa.CallInstruction); ok {
			if callee := c.Common().StaticCallee(); callee != nil {
				switch callee.String() {
				case modPath + "/dvid.Errorf", modPath + "/dvid.Criticalf":
					return true
				}
			}
		}
	}
	return false
}

func init() {
	register(ruleDef{ID: "R13.5", Prop: "C13", Tier: "quick", Floor: 1,
		Title: "moving an element rewrites partner references in every partner block except the source block (the only block whose relationships the caller already rewrote)",
		Fn:    ruleR13_5})
}

func ruleR13_5(r *Run) {
	w := r.W
	f := w.method("datatype/annotation", "Data", "moveElementInRelationships")
	if f == nil {
		r.violation("annotation.moveElementInRelationships", "not found", "-")
		return
	}
	// point parameters in order: from, to
	var pts []*ssa.Parameter
	for _, p := range f.Params {
		if typeIs(p.Type(), "dvid", "Point3d") {
			pts = append(pts, p)
		}
	}
	if len(pts) < 2 {
		r.undecided("annotation.moveElementInRelationships:params", "expected (from, to dvid.Point3d) parameters")
		return
	}
	from := pts[0]
	n := 0
	bad := ""
	for _, c := range calls(f) {
		callee := c.Common().StaticCallee()
		if callee == nil || callee.Name() != "Equals" || callee.Signature.Recv() == nil || !strings.Contains(callee.Signature.Recv().Type().String(), "ChunkPoint3d") {
			continue
		}
		n++
		// the coordinate compared against must derive from `from` only
		arg := c.Common().Args[len(c.Common().Args)-1]
		okFrom := false
		for _, rv := range roots(arg, f) {
			okFrom = derivesFromPointParam(rv.V, from, 0)
			if !okFrom {
				break
			}
		}
		if !okFrom {
			bad = w.pos(c.Pos())
		}
	}
	r.check(n > 0 && bad == "", "annotation.moveElementInRelationships:only-source-block-skipped",
		fmt.Sprintf("%d block-equality tests, all against the source block", n),
		"a partner block other than the source block is skipped when references to a moved element are rewritten: a partner living in that block keeps pointing at the old position", bad)
}

func derivesFromPointParam(v ssa.Value, p *ssa.Parameter, depth int) bool {
	if depth > 8 || v == nil {
		return false
	}
	v = stripConv(v)
	switch x := v.(type) {
	case *ssa.Parameter:
		return x == p
	case *ssa.TypeAssert:
		return derivesFromPointParam(x.X, p, depth+1)
	case *ssa.Call:
		// from.Chunk(blockSize)
		args := x.Call.Args
		if x.Call.IsInvoke() {
			return derivesFromPointParam(x.Call.Value, p, depth+1)
		}
		if len(args) > 0 {
			return derivesFromPointParam(args[0], p, depth+1)
		}
	case *ssa.Extract:
		return derivesFromPointParam(x.Tuple, p, depth+1)
	case *ssa.UnOp:
		return derivesFromPointParam(x.X, p, depth+1)
	}
	return false
}
