#!/usr/bin/env python3
# record_fix.py <commit> "<PROP RULE[ / PROP RULE]>" "<construct>" "<what failed>"
# appends `fixed` entries to known_findings.json and a row to DESIGN.md §8.3
import json,sys
commit,rules,construct,what=sys.argv[1:5]
k=json.load(open('/verif/known_findings.json'))
for pr in rules.split('/'):
    prop,rule=pr.split()
    k['fixed'].append({"property":prop,"commit":commit,"rule":rule,"construct":construct,
        "what_failed":"fixed: property=%s %s %s"%(prop,commit,what)})
json.dump(k,open('/verif/known_findings.json','w'),indent=1)
p='/verif/DESIGN.md'; s=open(p).read()
i=s.index("\n### 8.4 Known findings"); j=s.rfind("|\n",0,i)+2
s=s[:j]+"| %s | %s | %s |\n"%(commit,rules,what)+s[j:]
open(p,'w').write(s)
