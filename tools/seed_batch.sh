#!/bin/bash
# usage: seed_batch.sh <PROP> <tag> <suffix>   e.g. C18 c18a a
prop=$1; tag=$2; suf=$3
cd /verif
for i in 1 2 3 4 5; do
  d=/tmp/mut/out_$tag/m$i
  [ -d $d ] || continue
  python3 seed.py add $d $prop-$suf$i $prop 2>&1 | tail -3
done
