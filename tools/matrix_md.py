#!/usr/bin/env python3
"""matrix_md.py : renders /verif/seeded/MATRIX.json as a markdown table (stdout)."""
import json, collections
M = json.load(open('/verif/seeded/MATRIX.json'))
WHY = {
 "C05-d4": "value-level: `>=` instead of `>` in an early return for inverted intervals (single-key intervals come back empty)",
 "C08-c2": "value-level: which map loses an entry when a supervoxel's count in a block drops to zero (the block entry instead of the count)",
 "C08-c4": "ordering of the mapping/log step before a per-block rejection: the unchanged code also has error exits behind that step, so no must-precede rule separates the two",
 "C09-a1": "value-level: row stride of a local variable (ny for nx) in BinaryBlock.Read; no size object is involved that R18.6 could see",
 "C09-b1": "value-level: a sentinel (MaxUint64) that is itself a legal label in encodeBlock's first pass; a 'every voxel's label goes through the map' rule would also fire on a correct cache of the previous label, so none is armed",
 "C09-b2": "value-level: where the 'all requested labels located' exit is tested in WriteBinaryBlocks' table scan",
 "C09-b3": "value-level: a dropped index indirection (curIndices[]) in one of three branches of writeRLEs",
 "C09-b4": "value-level: which of two size fields (volume vs block) is passed to MakeSolidBlock",
 "C09-c2": "value-level: gy for gx in a row-major sub-block number (only non-cubic blocks)",
 "C12-c4": "timing: the counter raise is moved into a goroutine; the unchanged tree does the same for block writes (§8.9), so a 'raise before acknowledging' rule would fire there too and no demonstration of that was found",
 "C13-c1": "value-level: additions applied before deletions in mutateBlock's per-label update",
 "C13-c4": "value-level: an ElementPos reported to subscribers for replaced elements as well (counts exceed elements); the index itself stays right",
 "C14-b1": "value-level: a 4-4 vote tie decided by scan order inside downresArray; the sibling-direction rule R14.5 sees the same comparison",
 "C14-c4": "the single-pass rewrite of downresArray removes the loop shape R14.5 is anchored on: the check ends UNDECIDED (exit 2), i.e. it is flagged for review but not as a violation",
 "C15-b4": "value-level: a plausibility bound (128:1) on the LZ4 ratio rejects legitimate data (the unchanged tree now has the format's own 255:1 bound)",
 "C16-a1": "value-level: which fields a conditional update keeps",
 "C16-b2": "value-level: which _user/_time stamps a conditional update rewrites",
 "C16-c1": "value-level: an integral float is no longer normalised to the integer list in checkField; the same behaviour could be had on the query side, so a rule on this branch would reject correct code",
 "C17-a1": "value-level: a byte offset loses its bytes-per-voxel factor in the YZ-slice copy of readBlock (wrong only for multi-byte voxels)",
 "C17-a4": "value-level: the order of two span comparisons in roi InsideFast (the x1 test hoisted before the y/z match)",
 "C17-b4": "value-level: boolean logic of Isotropy2D's early returns",
 "C17-c4": "value-level: InsideFast no longer advances to the next span of the same row (the exits it takes are still lexicographically guarded, so R18.9 is satisfied)",
 "C18-b1": "value-level: a stale local (the un-clipped start) in the max-X clip of RLEs.FitToBounds",
 "C18-b3": "a versioned query filtered by instance-level (unversioned) Z extents: would need a notion of which fields are per version",
 "C18-c2": "value-level: `else if` instead of `if` between the left and right extension in RLEs.Add (legacy labelvol only)",
 "C18-e3": "value-level: the '+X neighbour' test of WriteRLEs (x+1 == x') weakened to an order comparison; an exact-form rule on the comparison would be a frozen fragment",
 "C03-m1": "value-level: the start-up recomputation of branch heads counts any child as a continuation (the child's branch is no longer compared with the node's); the running server sets heads directly, so only the rebuild differs — a rule on this one comparison would be a frozen fragment",
 "C05-m4": "value-level: `len(kv.V) == 0` instead of `kv.V == nil` as the skip test of one range callback; the package has legitimate emptiness tests (an empty value is sent as {}), so 'no emptiness test' is not a shape of the unchanged code",
 "C08-m3": "a new shortcut in front of GetLabelIndex that confuses body ids with supervoxel ids (returns nil when the mapping sends the id elsewhere); no must-pass-through on the slow path separates it from the existing 'index not found' returns",
 "C09-m1": "value-level: a 'previous label' cache in encodeBlock's first pass initialised with MaxUint64, itself a legal label (the same idea as C09-b1)",
 "C10-m1": "value-level: the slot MergeLabels reuses for an absent target is a zero-initialised minimum that never updates (the same site as C10-h1)",
 "C10-m3": "value-level: SplitStats fetches the relabeling only the first time a supervoxel is seen but assigns it from a loop-shared variable on every voxel; which variable is read is not a shape",
 "C13-m3": "value-level: the intermediate flush of resyncLowMemory is handed the current block's elements instead of the accumulator that is cleared afterwards",
 "C15-m4": "ownership/timing: a pooled snappy scratch buffer is put back before the envelope has copied it; needs an ownership analysis of sync.Pool values across a call",
 "C16-m4": "value-level: an integral float is no longer normalised in checkField (the same change as C16-c1)",
 "C17-m2": "the alignment refusal of PutVoxels made conditional on the mutate flag; the triggering request is itself outside C17's quantifier (block-aligned writes), so no rule was written",
 "C17-m3": "a new whole-plane fast path in readBlock whose condition omits 'the block's rows are wanted from x = 0'; value-level (which offsets make the fast path legal)",
 "C18-m3": "value-level: `x1 <= x` instead of `x1 < x` as the skip test of InsideFast (the last block of every span reported outside)",
 "C19-b3": "value-level: which ancestors calcVersionPath keeps",
 "C20-b2": "value-level: order of swap-with-last deletions",
 "C20-c3": "ordering: a consistency check moved behind the block rewrite in SplitLabels (split endpoint, off by default); 'validate before the first store write' is not a shape the unchanged handlers share",
 "C20-d3": "WaitGroup balance: Add moved inside a condition while every queued item still calls Done; needs a count argument across a channel",
 "C10-h1": "value-level: which slot MergeLabels reuses for an absent target (an off-by-one in a remembered position); the slot is a legal table position either way",
 "C09-h1": "value-level: a term (x mod 8) dropped from the bit cursor of writeRLEs when a bounded request starts inside a sub-block",
 "C08-h3": "value-level: the index-versus-voxels check of the supervoxel split compares sums instead of the kept and split sizes one by one",
 "C15-h2": "value-level: a hand-written LZ4 literal run for tiny payloads omits the length-extension byte at exactly 15 bytes; a rule 'compressed bytes come from the library' would also reject a correct fast path",
 "C17-i4": "value-level: the payload offset of SendSerializedBlock computed from the checksum enum's value (1 + int(checksum)) instead of 1 or 5",
 "C13-k2": "error discipline across a call: deleteElementInLabel turns a logged condition into a returned error, and its caller has already rewritten the block — the verdict and the write are in different functions",
 "C17-l3": "value-level: GetBlocks fills only the first block of its reply buffer with the background value (copy of one block instead of the loop over the buffer)",
 "C20-d4": "value-level: ascending instead of descending order of swap-with-last deletions",
}
by = collections.defaultdict(list)
for k, v in sorted(M.items()):
    by[v['property']].append((k, v))
tot = caught = 0
print("| property | seeded | caught | rules that fired (first per seed) | missed |")
print("|---|---|---|---|---|")
for p in sorted(by):
    rules = collections.Counter()
    missed = []
    for k, v in by[p]:
        tot += 1
        if v['caught']:
            caught += 1
            first = None
            for prop, res in v['by'].items():
                if res['violations']:
                    first = res['violations'][0].split()[0]
                    break
            rules[first or '?'] += 1
        else:
            missed.append(k)
    print("| %s | %d | %d | %s | %s |" % (p, len(by[p]), len(by[p]) - len(missed), ", ".join("%s×%d" % (r, n) for r, n in sorted(rules.items())), ", ".join(missed) or "—"))
print()
print("Total: %d of %d seeded changes reported by the check of their own property (a few more only by a sibling property, see `checked_against`)." % (caught, tot))
print()
print("Missed, and why no rule was added:")
print()
for p in sorted(by):
    for k, v in by[p]:
        if not v['caught']:
            print("* **%s** — %s.  %s" % (k, WHY.get(k, "see meta.json"), (v.get('summary') or '')[:140].replace('\n', ' ')))
