#!/usr/bin/env python3
"""matrix_md.py : renders /verif/seeded/MATRIX.json as a markdown table (stdout)."""
import json, collections
M = json.load(open('/verif/seeded/MATRIX.json'))
WHY = {
 "C05-b2": "value-level: the flush condition of DeleteRange is modular arithmetic on a counter (numKV % 1000); a path-insensitive must-flush rule would also flag the correct code",
 "C14-b1": "value-level: a 4–4 vote tie decided by scan order inside downresArray; the sibling-direction rule R14.5 sees the same comparison",
 "C16-a1": "value-level: which fields a conditional update keeps",
 "C16-a3": "value-level: inclusive vs exclusive upper end of an id range (> vs >= in an otherwise monotone predicate)",
 "C16-b2": "value-level: which _user/_time stamps a conditional update rewrites",
 "C17-a1": "value-level: a byte offset loses its bytes-per-voxel factor in the YZ-slice copy of readBlock (wrong only for multi-byte voxels)",
 "C17-a2": "value-level: floor division for negative coordinates rewritten (exact multiples of the block size come out one block low)",
 "C17-a4": "value-level: the order of two span comparisons in roi InsideFast (the x1 test hoisted before the y/z match)",
 "C17-b4": "value-level: boolean logic of Isotropy2D's early returns",
 "C09-a1": "value-level: row stride of a local variable (ny for nx) in BinaryBlock.Read; no size object is involved that R18.6 could see",
 "C15-b4": "value-level: a plausibility bound (128:1) on the LZ4 ratio rejects legitimate data",
 "C19-b3": "value-level: which ancestors calcVersionPath keeps",
 "C20-b2": "value-level: order of swap-with-last deletions",
 "C08-b3": "schedule property: decided by C11 R11.1 (listed under C11 in checked_against)",
}
by = collections.defaultdict(list)
for k, v in sorted(M.items()):
    by[v['property']].append((k, v))
tot = caught = 0
print("| property | seeded | caught | rules that fired (first per seed) | missed |")
print("|---|---|---|---|---|")
for p in sorted(by):
    rules = collections.Counter()
    missed = []
    for k, v in by[p]:
        tot += 1
        if v['caught']:
            caught += 1
            first = None
            for prop, res in v['by'].items():
                if res['violations']:
                    first = res['violations'][0].split()[0]
                    break
            rules[first or '?'] += 1
        else:
            missed.append(k)
    print("| %s | %d | %d | %s | %s |" % (p, len(by[p]), len(by[p]) - len(missed), ", ".join("%s×%d" % (r, n) for r, n in sorted(rules.items())), ", ".join(missed) or "—"))
print()
print("Total: %d of %d seeded changes reported by the check of their own property (a few more only by a sibling property, see `checked_against`)." % (caught, tot))
print()
print("Missed, and why no rule was added:")
print()
for p in sorted(by):
    for k, v in by[p]:
        if not v['caught']:
            print("* **%s** — %s.  %s" % (k, WHY.get(k, "see meta.json"), (v.get('summary') or '')[:140].replace('\n', ' ')))
