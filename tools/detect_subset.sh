#!/bin/bash
# detect_subset.sh <N> <regex>: re-detect the seeds whose id matches, in N shards, merging into seeded/MATRIX.json
N=$1; RE=$2
cd /verif || exit 2
ids=($(ls seeded | grep -v MATRIX.json | grep -E "$RE"))
rm -f /tmp/detect_matrix_*.json
for i in $(seq 0 $((N-1))); do
  wt=/tmp/detect_wt$i
  git -C /repo worktree remove --force $wt 2>/dev/null; rm -rf $wt
  git -C /repo worktree add -q --detach $wt HEAD || exit 3
  shard=()
  for j in "${!ids[@]}"; do if [ $((j % N)) -eq $i ]; then shard+=("${ids[$j]}"); fi; done
  [ ${#shard[@]} -eq 0 ] && continue
  SEED_REPO=$wt SEED_MATRIX=/tmp/detect_matrix_$i.json python3 seed.py detect "${shard[@]}" > /tmp/detect_log_$i.txt 2>&1 &
done
wait
python3 - <<'PY'
import json,glob
m=json.load(open('/verif/seeded/MATRIX.json'))
n=0
for f in sorted(glob.glob('/tmp/detect_matrix_*.json')):
    x=json.load(open(f)); m.update(x); n+=len(x)
json.dump(m,open('/verif/seeded/MATRIX.json','w'),indent=1,sort_keys=True)
c=sum(1 for v in m.values() if v['caught'])
print(f"re-detected {n}; {len(m)} seeds: {c} caught, {len(m)-c} missed")
PY
for i in $(seq 0 $((N-1))); do git -C /repo worktree remove --force /tmp/detect_wt$i 2>/dev/null; done
git -C /repo worktree prune
