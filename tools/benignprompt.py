#!/usr/bin/env python3
"""benignprompt.py <PROP1> <PROP2> <tag> [n]: prompt for a sub-agent that writes behaviour-preserving refactors around
the anchors of two properties (to test that the checks stay silent).  Writes /tmp/mut/prompts/<tag>.txt and creates the
scratch worktree /tmp/mut/<tag>.  The prompt contains the property texts only."""
import json, sys, os, subprocess
p1, p2, tag = sys.argv[1], sys.argv[2], sys.argv[3]
n = int(sys.argv[4]) if len(sys.argv) > 4 else 3
props = {}
for l in open('/verif/properties.jsonl'):
    p = json.loads(l); props[p['id']] = p
def text(P):
    anch = "; ".join("%s @ %s" % (m['name'], m['where']) for m in P['anchors']['mechanism'])
    return ("  id: %s\n  title: %s\n  statement: %s\n  quantifier: %s\n  code anchors (where the mechanism lives): %s\n"
            % (P['id'], P['title'], P['statement'], P['quantifier']['text'], anch))
wt = "/tmp/mut/%s" % tag; out = "/tmp/mut/out_%s" % tag
os.makedirs("/tmp/mut/prompts", exist_ok=True); os.makedirs(out, exist_ok=True)
if not os.path.isdir(wt):
    subprocess.check_call("git -C /repo worktree add -q --detach %s HEAD" % wt, shell=True)
T = open(os.environ.get('BENIGN_TMPL', '/verif/tools/benignprompt.tmpl')).read()
txt = (T.replace("@WT@", wt).replace("@OUT@", out).replace("@N@", str(n))
        .replace("@PROPS@", text(props[p1]) + "\n" + text(props[p2])))
open("/tmp/mut/prompts/%s.txt" % tag, "w").write(txt)
print("/tmp/mut/prompts/%s.txt" % tag)
