#!/bin/bash
# buildcheck.sh <shard> <N>: applies each seed of the shard in its own worktree and builds the packages it changes
i=$1; N=$2
export GOFLAGS=-mod=mod GOPROXY=off GOSUMDB=off GOTOOLCHAIN=local
wt=/tmp/bc_wt$i
git -C /repo worktree remove --force $wt 2>/dev/null; rm -rf $wt
git -C /repo worktree add -q --detach $wt HEAD || exit 3
ids=($(ls /verif/seeded | grep -v MATRIX.json))
for j in "${!ids[@]}"; do
  [ $((j % N)) -eq $i ] || continue
  id=${ids[$j]}
  cd $wt
  if ! git apply /verif/seeded/$id/patch.diff 2>/dev/null; then echo "$id APPLYFAIL"; continue; fi
  pkgs=$(git diff --name-only | xargs -n1 dirname | sort -u | sed 's|^|./|' | tr '\n' ' ')
  if ! out=$(go build -tags "badger filestore ngprecomputed" $pkgs 2>&1); then echo "$id BUILDFAIL $(echo "$out" | grep -v '^#' | head -1 | cut -c1-120)"; fi
  git checkout -q -- . ; git clean -fdq
done
cd /; git -C /repo worktree remove --force $wt 2>/dev/null
