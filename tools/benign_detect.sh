#!/bin/bash
# benign_detect.sh <out dir with */patch.diff> ...: applies each behaviour-preserving patch in a scratch worktree
# (never /repo) and runs every property's quick check there; prints the rules that alarm (there should be none).
export GOFLAGS=-mod=mod GOPROXY=off GOSUMDB=off GOTOOLCHAIN=local; unset GOWORK
wt=${BENIGN_WT:-/tmp/vw_benign}
[ -d $wt ] || git -C /repo worktree add -q --detach $wt HEAD
cd $wt || exit 2
for out in "$@"; do
 for m in $out/*/; do
  [ -f $m/patch.diff ] || continue
  git checkout -q -- . ; git clean -fdq
  if ! git apply $m/patch.diff 2>/dev/null; then echo "$(basename $out)/$(basename $m): APPLY FAIL"; continue; fi
  o=$(/verif/bin/dvidlint -repo $wt -prop all -tier quick -noevidence 2>&1); rc=$?
  rules=$(echo "$o" | grep -E "^  rule=|UNDECIDED|^ERROR" | sed 's/^  rule=\([^ ]*\) .*/\1/' | sort -u | tr '\n' ',' | cut -c1-300)
  echo "$(basename $out)/$(basename $m): rc=$rc [$rules]"
  echo "$o" | grep -E -A3 "^  rule=|UNDECIDED|^ERROR" > $m/lint.out
 done
done
git checkout -q -- . ; git clean -fdq
