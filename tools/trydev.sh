#!/bin/bash
# trydev.sh <outdir> <props...>: applies each m*/patch.diff in /tmp/vw_dev and runs the checker there (never /repo)
out=$1; shift
cd /tmp/vw_dev || exit 2
git checkout -q -- . ; git checkout -q --detach main
for m in $out/m*/; do
  [ -f $m/patch.diff ] || continue
  if ! git apply $m/patch.diff 2>/dev/null; then echo "$(basename $m): APPLY FAIL"; continue; fi
  res=""
  for p in "$@"; do
    o=$(/verif/bin/dvidlint -repo /tmp/vw_dev -prop $p -tier quick -noevidence 2>&1); rc=$?
    rules=$(echo "$o" | grep "^  rule=" | sed 's/^  rule=\([^ ]*\) .*/\1/' | sort -u | tr '\n' ',')
    res="$res $p:rc=$rc[$rules]"
  done
  echo "$(basename $m):$res"
  git checkout -q -- . ; git clean -fdq
done
