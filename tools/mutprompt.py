#!/usr/bin/env python3
"""mutprompt.py <PROP> <tag> : writes the prompt for a fresh mutation sub-agent to /tmp/mut/prompts/<tag>.txt and
creates its scratch worktree /tmp/mut/<tag> at /repo HEAD.  The prompt contains the property text only."""
import json, sys, os, subprocess
prop, tag = sys.argv[1], sys.argv[2]
n = int(sys.argv[3]) if len(sys.argv) > 3 else 4
P = None
for l in open('/verif/properties.jsonl'):
    p = json.loads(l)
    if p['id'] == prop:
        P = p
anch = "; ".join("%s @ %s" % (m['name'], m['where']) for m in P['anchors']['mechanism'])
wt = "/tmp/mut/%s" % tag
out = "/tmp/mut/out_%s" % tag
os.makedirs("/tmp/mut/prompts", exist_ok=True)
os.makedirs(out, exist_ok=True)
if not os.path.isdir(wt):
    subprocess.check_call("git -C /repo worktree add -q --detach %s HEAD" % wt, shell=True)
T = open('/verif/tools/mutprompt.tmpl').read()
txt = (T.replace("@WT@", wt).replace("@OUT@", out).replace("@ID@", prop).replace("@TITLE@", P['title'])
        .replace("@STATEMENT@", P['statement']).replace("@QUANT@", P['quantifier']['text']).replace("@ANCHORS@", anch)
        .replace("@OBSERVE@", "; ".join(P['anchors'].get('observe_at', []))).replace("@N@", str(n)))
open("/tmp/mut/prompts/%s.txt" % tag, "w").write(txt)
print("/tmp/mut/prompts/%s.txt" % tag)
