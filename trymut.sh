#!/bin/bash
# trymut.sh <dir with patch.diff> <prop...> : applies the patch to /repo, runs the checks, undoes it.
d="$1"; shift
cd /repo || exit 2
git -C /repo apply "$d/patch.diff" || { echo "APPLY FAILED"; exit 3; }
for prop in "$@"; do
  out=$(/verif/bin/dvidlint -prop "$prop" -noevidence 2>&1)
  echo "$out" | grep -A2 "^VIOLATION\|^UNDECIDED\|^ERROR" | grep -v "^--" | cut -c1-260 | head -12
  echo "$out" | grep "^$prop tier"
done
git -C /repo checkout -- . 
git -C /repo status --short | head -3
