#!/bin/bash
# Runs the repository's pinned test suite (guard off: no build tag) and checks that every test in
# /root/.vp/BASELINE.json's stable_pass list passes.
export GOFLAGS=-mod=mod GOPROXY=off GOSUMDB=off GOTOOLCHAIN=local
unset GOWORK
cd /repo || exit 2
out=$(mktemp)
go test -json -vet=off -count=1 -timeout 25m ./... > "$out" 2>/dev/null
python3 - "$out" <<'PY'
import json,sys
passed=set()
for l in open(sys.argv[1]):
    try: e=json.loads(l)
    except Exception: continue
    if e.get('Action')=='pass' and e.get('Test'):
        passed.add(e['Package']+'::'+e['Test'])
base=json.load(open('/root/.vp/BASELINE.json'))['stable_pass']
missing=[t for t in base if t not in passed]
print("baseline: %d/%d stable tests pass"%(len(base)-len(missing),len(base)))
for m in missing: print("  NOT PASSING:",m)
sys.exit(1 if missing else 0)
PY
rc=$?
rm -f "$out"
exit $rc
