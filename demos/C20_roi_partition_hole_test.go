package roi

// Demonstration of a C20 defect at the pinned commit (drop into datatype/roi, run with
//   go test -vet=off -count=1 -tags "badger filestore" -run TestOptimizedPartitionOfRowWithAHole ./datatype/roi
//
// GET partition?batchsize=3&optimized=true on an ROI whose first row has a hole (blocks x=0 and x=2)
// takes the "extend the previous subvolume" branch while no subvolume exists yet: index out of range
// [-1], a panic in the request.

import (
	"fmt"
	"testing"

	"github.com/janelia-flyem/dvid/datastore"
	"github.com/janelia-flyem/dvid/dvid"
	"github.com/janelia-flyem/dvid/server"
)

func TestOptimizedPartitionOfRowWithAHole(t *testing.T) {
	if err := server.OpenTest(); err != nil {
		t.Fatalf("can't open test server: %v\n", err)
	}
	defer server.CloseTest()
	uuid, _ := initTestRepo()
	dataservice, err := datastore.NewData(uuid, roitype, "roi", dvid.NewConfig())
	if err != nil {
		t.Fatalf("Error creating new roi instance: %v\n", err)
	}
	data := dataservice.(*Data)
	roiRequest := fmt.Sprintf("%snode/%s/%s/roi", server.WebAPIPath, uuid, data.DataName())
	server.TestHTTP(t, "POST", roiRequest, getSpansJSON([]dvid.Span{{0, 0, 0, 0}, {0, 0, 2, 2}}))

	code := func() (code int) {
		defer func() {
			if e := recover(); e != nil {
				t.Errorf("the partition request panicked: %v", e)
				code = 500
			}
		}()
		req := fmt.Sprintf("%snode/%s/%s/partition?batchsize=3&optimized=true", server.WebAPIPath, uuid, data.DataName())
		return server.TestHTTPResponse(t, "GET", req, nil).Code
	}()
	if code != 200 {
		t.Errorf("optimized partition of the ROI {x=0, x=2} with batchsize 3 is answered with status %d", code)
	}
}
