package labelmap

// Demonstration for R20.65.  Drop into datatype/labelmap and run
//   go test -vet=off -count=1 -tags "badger filestore" -run TestDemoHistoryWorkerSignsOffOnce ./datatype/labelmap
// processMutationLogStream called wg.Done() for every log record it could not use (undecodable, or a
// merge/cleave without labels) and once more when the stream ended: the WaitGroup counter went negative
// and the panic, in the worker's goroutine, ended the process.

import (
	"net/http/httptest"
	"sync"
	"testing"

	"github.com/janelia-flyem/dvid/datatype/common/labels"
	"github.com/janelia-flyem/dvid/datatype/common/proto"
	"github.com/janelia-flyem/dvid/storage"
)

func TestDemoHistoryWorkerSignsOffOnce(t *testing.T) {
	ch := make(chan storage.LogMessage, 4)
	wg := new(sync.WaitGroup)
	wg.Add(1)
	w := httptest.NewRecorder()
	go processMutationLogStream(w, 1, ch, wg, labels.Set{1: struct{}{}}, labels.Set{1: struct{}{}})
	ch <- storage.LogMessage{EntryType: proto.MergeOpType, Data: []byte{0xff, 0xff, 0xff}} // not a MergeOp
	ch <- storage.LogMessage{EntryType: proto.MergeOpType, Data: []byte{}}                 // a MergeOp without merged labels
	close(ch)
	wg.Wait()
}
