package labelmap

// Demonstration of a C20 defect at the pinned commit (drop into datatype/labelmap, run with
//   go test -vet=off -count=1 -tags "badger filestore" -run TestSupervoxelSplitsWhileSplitting ./datatype/labelmap
//
// GET supervoxel-splits reads the per-version split records while split requests append to them.
// On the unrepaired tree the read is unlocked and the Go runtime aborts the process with
// "fatal error: concurrent map read and map write" (this test binary dies).

import (
	"sync"
	"testing"

	"github.com/janelia-flyem/dvid/datatype/common/labels"
	"github.com/janelia-flyem/dvid/datastore"
	"github.com/janelia-flyem/dvid/dvid"
	"github.com/janelia-flyem/dvid/server"
)

func TestSupervoxelSplitsWhileSplitting(t *testing.T) {
	if err := server.OpenTest(); err != nil {
		t.Fatalf("can't open test server: %v\n", err)
	}
	defer server.CloseTest()

	uuid, v := initTestRepo()
	var config dvid.Config
	server.CreateTestInstance(t, uuid, "labelmap", "labels", config)
	d, err := GetByUUIDName(uuid, "labels")
	if err != nil {
		t.Fatal(err)
	}
	lmap, err := getMapping(d, v)
	if err != nil {
		t.Fatal(err)
	}
	// a second version so that the map itself grows while it is read
	if err := datastore.Commit(uuid, "c", nil); err != nil {
		t.Fatal(err)
	}
	var wg sync.WaitGroup
	stop := make(chan struct{})
	wg.Add(1)
	go func() {
		defer wg.Done()
		for {
			select {
			case <-stop:
				return
			default:
			}
			if _, err := lmap.SupervoxelSplitsJSON(v); err != nil {
				t.Errorf("SupervoxelSplitsJSON: %v", err)
				return
			}
		}
	}()
	cur := uuid
	for i := 0; i < 300; i++ {
		child, err := datastore.NewVersion(cur, "n", "", nil)
		if err != nil {
			t.Fatal(err)
		}
		cv, _ := datastore.VersionFromUUID(child)
		op := labels.SplitSupervoxelOp{MutID: uint64(i + 1), Supervoxel: uint64(10 + i), SplitSupervoxel: uint64(100000 + i), RemainSupervoxel: uint64(200000 + i)}
		if err := addSupervoxelSplitToMapping(d, cv, op); err != nil {
			t.Fatal(err)
		}
		if err := datastore.Commit(child, "c", nil); err != nil {
			t.Fatal(err)
		}
		cur = child
	}
	close(stop)
	wg.Wait()
}
