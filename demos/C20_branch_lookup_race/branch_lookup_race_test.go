package server

// Demonstration for R20.41 / R11.27 (declared guards).  Drop into server/ and run
//   go test -vet=off -count=1 -tags "badger filestore" -run TestDemoBranchLookupRace ./server
// Before the fix getBranchVersion read the repo manager's uuidToVersion map without idMutex while
// repo creation writes it: the test binary dies with "fatal error: concurrent map read and map write".

import (
	"bytes"
	"fmt"
	"sync"
	"testing"

	"github.com/janelia-flyem/dvid/datastore"
)

func TestDemoBranchLookupRace(t *testing.T) {
	if err := OpenTest(); err != nil {
		t.Fatalf("can't open test server: %v\n", err)
	}
	defer CloseTest()
	uuid, _ := datastore.NewTestRepo()
	done := make(chan struct{})
	var wg sync.WaitGroup
	for i := 0; i < 8; i++ {
		wg.Add(1)
		go func() {
			defer wg.Done()
			for {
				select {
				case <-done:
					return
				default:
				}
				TestHTTPResponse(t, "GET", fmt.Sprintf("%snode/%s:master/note", WebAPIPath, uuid), nil)
			}
		}()
	}
	for i := 0; i < 3000; i++ {
		TestHTTPResponse(t, "POST", WebAPIPath+"repos", bytes.NewBufferString(`{"alias":"x"}`))
	}
	close(done)
	wg.Wait()
}
