package labelmap

// Demonstration of a C11 defect at the pinned commit (drop into datatype/labelmap, run with
//   go test -vet=off -count=1 -tags "badger filestore" -run TestConcurrentSplitRecords ./datatype/labelmap
//
// addSplitToMapping (the mapping half of POST split/<label>) is run for N disjoint splits of one version
// at once.  Each call must leave its supervoxel-split record in the version's split list, which is what
// supervoxel look-ups of split supervoxels in descendant versions are answered from.

import (
	"sync"
	"testing"

	"github.com/janelia-flyem/dvid/datatype/common/labels"
	"github.com/janelia-flyem/dvid/dvid"
	"github.com/janelia-flyem/dvid/server"
)

func TestConcurrentSplitRecords(t *testing.T) {
	if err := server.OpenTest(); err != nil {
		t.Fatalf("can't open test server: %v\n", err)
	}
	defer server.CloseTest()

	uuid, v := initTestRepo()
	var config dvid.Config
	server.CreateTestInstance(t, uuid, "labelmap", "labels", config)
	d, err := GetByUUIDName(uuid, "labels")
	if err != nil {
		t.Fatal(err)
	}
	const N = 64
	for round := 0; round < 20 && !t.Failed(); round++ {
		lmap, err := getMapping(d, v)
		if err != nil {
			t.Fatal(err)
		}
		lmap.splitsMu.Lock()
		before := len(lmap.splits[v])
		lmap.splitsMu.Unlock()
		start := make(chan struct{})
		var wg sync.WaitGroup
		for i := 0; i < N; i++ {
			wg.Add(1)
			go func(i uint64) {
				defer wg.Done()
				<-start
				op := labels.SplitOp{
					MutID: 1000 + i, Target: 1, NewLabel: 5000 + i,
					SplitMap: map[uint64]labels.SVSplit{100 + i: {Split: 7000 + i, Remain: 9000 + i}},
				}
				if err := addSplitToMapping(d, v, op); err != nil {
					t.Errorf("addSplitToMapping: %v", err)
				}
			}(uint64(round*N + i))
		}
		close(start)
		wg.Wait()
		lmap.splitsMu.Lock()
		after := len(lmap.splits[v])
		lmap.splitsMu.Unlock()
		if after-before != N {
			t.Errorf("round %d: %d concurrent splits were applied, but only %d split records were kept", round, N, after-before)
		}
	}
}
