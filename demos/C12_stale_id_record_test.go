//go:build !clustered && !gcloud
// +build !clustered,!gcloud

package datastore

// Demonstration of a C12/C07 defect at the pinned commit (drop into datastore, run with
//   go test -vet=off -count=1 -tags "badger filestore" -run TestConcurrentAllocationsPersistTheLatestCounters ./datastore
//
// newRepoID, newUUID and newVersionID advance their counter under idMutex, release it, and then call
// putNewIDs, which reads all three counters without a lock and writes them as one record.  A record
// assembled before a concurrent allocation can reach the store after that allocation's own record:
// once the requests have finished, the persisted counters lag behind the ids that were handed out,
// and after a restart those ids (repo ids have no load-time correction) are handed out again.

import (
	"fmt"
	"github.com/janelia-flyem/dvid/dvid"
	"sync"
	"testing"
)

func TestConcurrentAllocationsPersistTheLatestCounters(t *testing.T) {
	OpenTest()
	defer CloseTest()

	root, _ := NewTestRepo()
	if err := Commit(root, "root", nil); err != nil {
		t.Fatal(err)
	}
	stale := 0
	for round := 0; round < 30; round++ {
		var wg sync.WaitGroup
		for i := 0; i < 8; i++ {
			wg.Add(1)
			go func() {
				defer wg.Done()
				if _, err := NewRepo("r", "d", nil, ""); err != nil {
					t.Error(err)
				}
			}()
			wg.Add(1)
			go func(i int) {
				defer wg.Done()
				if _, err := manager.newVersionID(dvid.UUID(fmt.Sprintf("%032d", round*100+i)), false); err != nil {
					t.Error(err)
				}
			}(i)
		}
		wg.Wait()
		memRepo, memVersion := manager.repoID, manager.versionID
		tmp := &repoManager{store: manager.store}
		if err := tmp.loadNewIDs(); err != nil {
			t.Fatal(err)
		}
		if tmp.repoID != memRepo || tmp.versionID != memVersion {
			stale++
			t.Logf("round %d: counters in memory repo=%d version=%d, persisted repo=%d version=%d", round, memRepo, memVersion, tmp.repoID, tmp.versionID)
		}
	}
	if stale > 0 {
		t.Errorf("in %d of 30 rounds the persisted id counters lag behind the ids handed out: after a restart those ids are handed out again", stale)
	}
}
