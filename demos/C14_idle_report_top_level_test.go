package labelmap

// Demonstration of a C14 defect at the pinned commit (drop into datatype/labelmap, run with
//   go test -vet=off -count=1 -tags "badger filestore" -run TestIdleReportCoversTopLevel ./datatype/labelmap
//
// downres.NewMutation marks levels 1..MaxDownresLevel as updating; the volume must not report itself
// idle (AnyScaleUpdating, which downres.BlockOnUpdating waits on) while any of them is still marked.

import (
	"testing"

	"github.com/janelia-flyem/dvid/dvid"
	"github.com/janelia-flyem/dvid/server"
)

func TestIdleReportCoversTopLevel(t *testing.T) {
	if err := server.OpenTest(); err != nil {
		t.Fatalf("can't open test server: %v\n", err)
	}
	defer server.CloseTest()

	uuid, _ := initTestRepo()
	var config dvid.Config
	config.Set("MaxDownresLevel", "2")
	server.CreateTestInstance(t, uuid, "labelmap", "labels", config)
	d, err := GetByUUIDName(uuid, "labels")
	if err != nil {
		t.Fatal(err)
	}
	for scale := uint8(1); scale <= d.GetMaxDownresLevel(); scale++ {
		d.StartScaleUpdate(scale)
		if !d.ScaleUpdating(scale) {
			t.Fatalf("scale %d not marked", scale)
		}
		if !d.AnyScaleUpdating() {
			t.Errorf("level %d (of %d) is marked as updating but the volume reports itself idle", scale, d.GetMaxDownresLevel())
		}
		d.StopScaleUpdate(scale)
	}
}
