package labelmap

import (
	"bytes"
	"encoding/json"
	"fmt"
	"sync"
	"testing"

	"github.com/janelia-flyem/dvid/datastore"
	"github.com/janelia-flyem/dvid/dvid"
	"github.com/janelia-flyem/dvid/server"
)

func TestZZConcurrentMergesIntoOneTarget(t *testing.T) {
	for round := 0; round < 6; round++ {
		zzMergeRound(t, round)
		if t.Failed() {
			return
		}
	}
}

func zzMergeRound(t *testing.T, round int) {
	if err := server.OpenTest(); err != nil {
		t.Fatalf("can't open test server: %v\n", err)
	}
	defer server.CloseTest()
	uuid, _ := initTestRepo()
	var config dvid.Config
	server.CreateTestInstance(t, uuid, "labelmap", "labels", config)
	const numSV = 25
	const svVoxels = 4 * 8 * 8
	tvol := newTestVolume(128, 64, 64)
	for i := int32(0); i < numSV; i++ {
		tvol.addSubvol(dvid.Point3d{4 * i, 8, 8}, dvid.Point3d{4, 8, 8}, uint64(i+1))
	}
	tvol.put(t, uuid, "labels")
	if err := datastore.BlockOnUpdating(uuid, "labels"); err != nil {
		t.Fatalf("Error blocking on sync of labels: %v\n", err)
	}
	start := make(chan struct{})
	var wg sync.WaitGroup
	errs := make([]error, numSV+1)
	for sv := uint64(2); sv <= numSV; sv++ {
		wg.Add(1)
		go func(sv uint64) {
			defer wg.Done()
			<-start
			reqStr := fmt.Sprintf("%snode/%s/labels/merge", server.WebAPIPath, uuid)
			_, errs[sv] = server.TestHTTPError(t, "POST", reqStr, bytes.NewBufferString(fmt.Sprintf("[1,%d]", sv)))
		}(sv)
	}
	close(start)
	wg.Wait()
	for sv := uint64(2); sv <= numSV; sv++ {
		if errs[sv] != nil {
			t.Fatalf("round %d: merge of %d not acknowledged: %v", round, sv, errs[sv])
		}
	}
	reqStr := fmt.Sprintf("%snode/%s/labels/sparsevol-size/1", server.WebAPIPath, uuid)
	r, err := server.TestHTTPError(t, "GET", reqStr, nil)
	if err != nil {
		t.Fatalf("round %d: %v", round, err)
	}
	var sz struct {
		Voxels uint64 `json:"voxels"`
	}
	if err := json.Unmarshal(r, &sz); err != nil {
		t.Fatalf("bad sparsevol-size response: %s", string(r))
	}
	if sz.Voxels != numSV*svVoxels {
		t.Errorf("round %d: LOST MERGE: all %d merges acknowledged, body 1 index reports %d voxels, expected %d", round, numSV-1, sz.Voxels, numSV*svVoxels)
	}
}
