package keyvalue

// Demonstration of a C05 defect at the pinned commit (drop into datatype/keyvalue, run with
//   go test -vet=off -count=1 -tags "badger filestore" -run TestKeyRangeValuesReportsScanError ./datatype/keyvalue
//
// One stored value is made unreadable (bytes that are not a valid serialization).  GET key/<k> of it
// fails; a range request over an interval containing it must not answer 200 with the keys before it.

import (
	"encoding/json"
	"fmt"
	"strings"
	"testing"

	"github.com/janelia-flyem/dvid/datastore"
	"github.com/janelia-flyem/dvid/dvid"
	"github.com/janelia-flyem/dvid/server"
)

func TestKeyRangeValuesReportsScanError(t *testing.T) {
	if err := server.OpenTest(); err != nil {
		t.Fatalf("can't open test server: %v\n", err)
	}
	defer server.CloseTest()

	uuid, v := initTestRepo()
	ds, err := datastore.NewData(uuid, kvtype, "kv", dvid.NewConfig())
	if err != nil {
		t.Fatal(err)
	}
	d := ds.(*Data)
	for _, k := range []string{"a", "c"} {
		server.TestHTTP(t, "POST", fmt.Sprintf("%snode/%s/kv/key/%s", server.WebAPIPath, uuid, k), strings.NewReader(`{"x":1}`))
	}
	// an unreadable value between them
	db, err := datastore.GetOrderedKeyValueDB(d)
	if err != nil {
		t.Fatal(err)
	}
	tk, _ := NewTKey("b")
	if err := db.Put(datastore.NewVersionedCtx(d, v), tk, []byte{0xFF, 0xFF, 0xFF}); err != nil {
		t.Fatal(err)
	}
	resp := server.TestHTTPResponse(t, "GET", fmt.Sprintf("%snode/%s/kv/key/b", server.WebAPIPath, uuid), nil)
	if resp.Code == 200 {
		t.Fatalf("the damaged value was served: %q", resp.Body.String())
	}
	for _, q := range []string{"?json=true", ""} {
		resp = server.TestHTTPResponse(t, "GET", fmt.Sprintf("%snode/%s/kv/keyrangevalues/a/z%s", server.WebAPIPath, uuid, q), nil)
		// the JSON form is streamed, so its status line is already out when the scan fails: then the
		// body at least must not be a complete JSON document
		if resp.Code == 200 && (q == "" || json.Valid(resp.Body.Bytes())) {
			t.Errorf("keyrangevalues/a/z%s answered 200 with the complete-looking %q although the scan failed at key b (GET key/b fails)", q, resp.Body.String())
		}
	}
}
