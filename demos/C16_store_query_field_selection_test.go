package neuronjson

// Demonstration of a C16 defect at the pinned commit (drop into datatype/neuronjson, run with
//   go test -vet=off -count=1 -tags "badger filestore" -run TestQueryFieldSelectionOnBothPaths ./datatype/neuronjson
//
// A query with ?fields=… returns only the named fields.  The in-memory path of the head applies the
// selection; the store path of a committed version ignores it and returns whole records.

import (
	"fmt"
	"strings"
	"testing"

	"github.com/janelia-flyem/dvid/datastore"
	"github.com/janelia-flyem/dvid/dvid"
	"github.com/janelia-flyem/dvid/server"
)

func TestQueryFieldSelectionOnBothPaths(t *testing.T) {
	if err := server.OpenTest(); err != nil {
		t.Fatalf("can't open test server: %v\n", err)
	}
	defer server.CloseTest()
	uuid, _ := initTestRepo()
	server.CreateTestInstance(t, uuid, "neuronjson", "neurons", dvid.Config{})
	api := func(u dvid.UUID, path string) string {
		return fmt.Sprintf("%snode/%s/neurons/%s", server.WebAPIPath, u, path)
	}
	server.TestHTTP(t, "POST", api(uuid, "key/7?u=frank"), strings.NewReader(`{"bodyid": 7, "type": "A", "x": 3, "note": "n"}`))
	if err := datastore.Commit(uuid, "done", nil); err != nil {
		t.Fatal(err)
	}
	child, err := datastore.NewVersion(uuid, "child", "", nil)
	if err != nil {
		t.Fatal(err)
	}
	fromStore := string(server.TestHTTP(t, "POST", api(uuid, "query?fields=x"), strings.NewReader(`{"type": "A"}`)))
	fromMemory := string(server.TestHTTP(t, "POST", api(child, "query?fields=x"), strings.NewReader(`{"type": "A"}`)))
	if fromStore != fromMemory {
		t.Errorf("query?fields=x: the store path answers %s, the in-memory head %s", fromStore, fromMemory)
	}
}
