package labelmap

// Demonstration of a C08 defect at the pinned commit (drop into datatype/labelmap, run with
//   go test -vet=off -count=1 -tags "badger filestore" -run TestRenumberTo ./datatype/labelmap
//
// Renumbering a body maps its supervoxels to the new label and then maps the new label itself to 0
// ("not a supervoxel").  When a supervoxel with that id exists -- in the renumbered body or merged
// into another one -- its voxels read as background while the index still counts them.  The second
// half of the first test repeats the read after the mapping was rebuilt from the mutation log.

import (
	"bytes"
	"encoding/binary"
	"encoding/json"
	"fmt"
	"testing"

	"github.com/janelia-flyem/dvid/datastore"
	"github.com/janelia-flyem/dvid/dvid"
	"github.com/janelia-flyem/dvid/server"
)

func nmVolume(nx, ny, nz int, f func(x, y, z int) uint64) []byte {
	data := make([]byte, nx*ny*nz*8)
	i := 0
	for z := 0; z < nz; z++ {
		for y := 0; y < ny; y++ {
			for x := 0; x < nx; x++ {
				binary.LittleEndian.PutUint64(data[i:i+8], f(x, y, z))
				i += 8
			}
		}
	}
	return data
}

func nmSetup(t *testing.T) (dvid.UUID, string) {
	uuid, _ := datastore.NewTestRepo()
	var config dvid.Config
	config.Set("BlockSize", "32,32,32")
	server.CreateTestInstance(t, uuid, "labelmap", "labels", config)
	return uuid, fmt.Sprintf("%snode/%s/labels/", server.WebAPIPath, uuid)
}

func nmCounts(t *testing.T, api string, nx, ny, nz int, query string) map[uint64]int {
	got := server.TestHTTP(t, "GET", fmt.Sprintf("%sraw/0_1_2/%d_%d_%d/0_0_0%s", api, nx, ny, nz, query), nil)
	counts := make(map[uint64]int)
	for i := 0; i+8 <= len(got); i += 8 {
		counts[binary.LittleEndian.Uint64(got[i:i+8])]++
	}
	return counts
}

// 1. Renumbering a body to a label that is the id of one of its own supervoxels maps that supervoxel to 0.
//    Sequence: merge [1,2]; cleave supervoxel 2 from body 1 -> body N = {2}; renumber N -> 2.
func TestRenumberToOwnSupervoxelID(t *testing.T) {
	if err := server.OpenTest(); err != nil {
		t.Fatalf("can't open test server: %v\n", err)
	}
	defer server.CloseTest()
	uuid, api := nmSetup(t)

	nx, ny, nz := 64, 32, 32
	vol := nmVolume(nx, ny, nz, func(x, y, z int) uint64 {
		if x < 32 {
			return 1
		}
		return 2
	})
	server.TestHTTP(t, "POST", fmt.Sprintf("%sraw/0_1_2/%d_%d_%d/0_0_0", api, nx, ny, nz), bytes.NewBuffer(vol))
	if err := datastore.BlockOnUpdating(uuid, "labels"); err != nil {
		t.Fatalf("Error blocking on sync of labels: %v\n", err)
	}
	server.TestHTTP(t, "POST", api+"merge", bytes.NewBufferString("[1, 2]"))
	r := server.TestHTTP(t, "POST", api+"cleave/1", bytes.NewBufferString("[2]"))
	var resp struct {
		CleavedLabel uint64
	}
	if err := json.Unmarshal(r, &resp); err != nil || resp.CleavedLabel == 0 {
		t.Fatalf("bad cleave response %q: %v", string(r), err)
	}
	// renumber pairs are [new, old]
	server.TestHTTP(t, "POST", api+"renumber", bytes.NewBufferString(fmt.Sprintf("[2, %d]", resp.CleavedLabel)))

	r = server.TestHTTP(t, "GET", api+"sizes", bytes.NewBufferString("[1, 2]"))
	if string(r) != "[32768,32768]" {
		t.Errorf("sizes of bodies 1 and 2: %s", string(r))
	}
	r = server.TestHTTP(t, "GET", api+"label/40_5_5", nil)
	if string(r) != `{"Label": 2}` {
		t.Errorf("expected body 2 at (40,5,5) after renumbering to 2, got %s", string(r))
	}
	counts := nmCounts(t, api, nx, ny, nz, "")
	if counts[1] != 32768 || counts[2] != 32768 {
		t.Errorf("mapped volume after renumber has label counts %v, expected 32768 voxels each of bodies 1 and 2", counts)
	}

	// the mapping rebuilt from the mutation log answers the same
	iMap.Lock()
	iMap.maps = make(map[dvid.UUID]*VCache)
	iMap.Unlock()
	r = server.TestHTTP(t, "GET", api+"label/40_5_5", nil)
	if string(r) != `{"Label": 2}` {
		t.Errorf("after the mapping was replayed from the log: expected body 2 at (40,5,5), got %s", string(r))
	}
}

// 2. Renumbering to an unused body label that is the id of a supervoxel of ANOTHER body maps that supervoxel to 0.
//    Sequence: merge [1,2] (label 2 has no index any more); renumber 3 -> 2.
func TestRenumberToForeignSupervoxelID(t *testing.T) {
	if err := server.OpenTest(); err != nil {
		t.Fatalf("can't open test server: %v\n", err)
	}
	defer server.CloseTest()
	uuid, api := nmSetup(t)

	nx, ny, nz := 96, 32, 32
	vol := nmVolume(nx, ny, nz, func(x, y, z int) uint64 {
		return uint64(x/32 + 1)
	})
	server.TestHTTP(t, "POST", fmt.Sprintf("%sraw/0_1_2/%d_%d_%d/0_0_0", api, nx, ny, nz), bytes.NewBuffer(vol))
	if err := datastore.BlockOnUpdating(uuid, "labels"); err != nil {
		t.Fatalf("Error blocking on sync of labels: %v\n", err)
	}
	server.TestHTTP(t, "POST", api+"merge", bytes.NewBufferString("[1, 2]"))
	resp := server.TestHTTPResponse(t, "POST", api+"renumber", bytes.NewBufferString("[2, 3]"))
	if resp.Code != 200 {
		t.Logf("renumber 3 -> 2 was refused (%d): %s", resp.Code, resp.Body.String())
		return
	}
	r := server.TestHTTP(t, "GET", api+"sizes", bytes.NewBufferString("[1, 2, 3]"))
	t.Logf("sizes of bodies 1,2,3 after merge [1,2] and renumber 3->2: %s", string(r))
	counts := nmCounts(t, api, nx, ny, nz, "")
	if counts[1] != 65536 || counts[2] != 32768 {
		t.Errorf("mapped volume has label counts %v, expected 65536 voxels of body 1 (supervoxels 1,2) and 32768 of body 2 (supervoxel 3)", counts)
	}
	r = server.TestHTTP(t, "GET", api+"label/40_5_5", nil)
	if string(r) != `{"Label": 1}` {
		t.Errorf("expected body 1 at (40,5,5) (supervoxel 2), got %s", string(r))
	}
}

// 3. Mapping ingested before the voxels: supervoxels that already map to another body are dropped from the index.
