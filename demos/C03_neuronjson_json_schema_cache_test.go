package neuronjson

// Demonstration of two defects at the pinned commit (drop into datatype/neuronjson, run with
//   go test -vet=off -count=1 -tags "badger filestore" -run "TestJSONSchemaAtNewHeadAfterRestart|TestDeletedJSONSchemaStopsValidating" ./datatype/neuronjson
//
// C03: the in-memory metadata cache answers for the branch head.  At start-up the neutu/neu3 schemas
// are cached unconditionally, the JSON validation schema only when the leaf is an open head.  With a
// committed leaf at start-up, a new version created afterwards answers GET json_schema with 404,
// while the same history without the restart answers 200.
//
// C16: DELETE json_schema at the head removes the document from the cache and the store but leaves
// the compiled schema behind: POSTs are still validated and converted by the deleted schema until
// the next restart, so the head and a restarted server store different values for the same request.

import (
	"fmt"
	"strings"
	"testing"

	"github.com/janelia-flyem/dvid/datastore"
	"github.com/janelia-flyem/dvid/dvid"
	"github.com/janelia-flyem/dvid/server"
)

const demoJSONSchema = `{"$schema":"http://json-schema.org/draft-07/schema#","type":"object","properties":{"bodyid":{"type":"integer"},"group":{"type":"integer"}},"required":["bodyid"]}`

func TestJSONSchemaAtNewHeadAfterRestart(t *testing.T) {
	run := func(restart bool) int {
		if err := server.OpenTest(); err != nil {
			t.Fatalf("can't open test server: %v\n", err)
		}
		defer server.CloseTest()
		uuid, _ := initTestRepo()
		server.CreateTestInstance(t, uuid, "neuronjson", "neurons", dvid.Config{})
		server.TestHTTP(t, "POST", fmt.Sprintf("%snode/%s/neurons/json_schema?u=frank", server.WebAPIPath, uuid), strings.NewReader(demoJSONSchema))
		if err := datastore.Commit(uuid, "root", nil); err != nil {
			t.Fatal(err)
		}
		if restart {
			datastore.CloseReopenTest()
		}
		child, err := datastore.NewVersion(uuid, "child", "", nil)
		if err != nil {
			t.Fatal(err)
		}
		return server.TestHTTPResponse(t, "GET", fmt.Sprintf("%snode/%s/neurons/json_schema", server.WebAPIPath, child), nil).Code
	}
	without, with := run(false), run(true)
	if without != with {
		t.Errorf("GET json_schema at the new head: status %d without a restart, %d with a restart before newversion", without, with)
	}
}

func TestDeletedJSONSchemaStopsValidating(t *testing.T) {
	if err := server.OpenTest(); err != nil {
		t.Fatalf("can't open test server: %v\n", err)
	}
	defer server.CloseTest()
	uuid, _ := initTestRepo()
	server.CreateTestInstance(t, uuid, "neuronjson", "neurons", dvid.Config{})
	api := fmt.Sprintf("%snode/%s/neurons/", server.WebAPIPath, uuid)
	server.TestHTTP(t, "POST", api+"json_schema?u=frank", strings.NewReader(demoJSONSchema))
	server.TestHTTP(t, "DELETE", api+"json_schema", nil)

	server.TestHTTP(t, "POST", api+"key/1?u=frank", strings.NewReader(`{"bodyid": 1, "group": "77"}`))
	before := string(server.TestHTTP(t, "GET", api+"key/1?show=user", nil))
	datastore.CloseReopenTest()
	server.TestHTTP(t, "POST", api+"key/2?u=frank", strings.NewReader(`{"bodyid": 2, "group": "77"}`))
	after := string(server.TestHTTP(t, "GET", api+"key/2?show=user", nil))
	if strings.Contains(before, `"group":77`) != strings.Contains(after, `"group":77`) {
		t.Errorf("the same POST after DELETE json_schema stores %s before a restart and %s after it", before, after)
	}
}
