package labelmap

// Demonstration of a C09/C18 defect at the pinned commit (drop into datatype/labelmap, run with
//   go test -vet=off -count=1 -tags "badger filestore" -run TestSparsevolWithEmptyBoundsInterval ./datatype/labelmap
//
// When the exact voxel bounds leave nothing of a block (minx > maxx after clipping) the run-length
// writer still emits one voxel per row: its scan along x tests the upper bound only after the first
// step.  (The same happens in a solid block, where run lengths come out zero or negative.)

import (
	"bytes"
	"encoding/binary"
	"fmt"
	"testing"

	"github.com/janelia-flyem/dvid/datatype/common/downres"
	"github.com/janelia-flyem/dvid/dvid"
	"github.com/janelia-flyem/dvid/server"
)

func demoSparsevolVoxels(t *testing.T, reqStr string) map[dvid.Point3d]int {
	resp := server.TestHTTPResponse(t, "GET", reqStr, nil)
	vox := make(map[dvid.Point3d]int)
	if resp.Code == 404 {
		return vox
	}
	if resp.Code != 200 {
		t.Fatalf("GET %s returned %d: %s", reqStr, resp.Code, resp.Body.String())
	}
	b := resp.Body.Bytes()
	if len(b) == 0 {
		return vox
	}
	rles, err := dvid.ReadRLEs(bytes.NewReader(b))
	if err != nil {
		t.Fatalf("GET %s: cannot parse sparsevol: %v", reqStr, err)
	}
	for _, r := range rles {
		s := r.StartPt()
		if r.Length() <= 0 {
			t.Errorf("GET %s: run %s has non-positive length", reqStr, r)
		}
		for i := int32(0); i < r.Length(); i++ {
			vox[dvid.Point3d{s[0] + i, s[1], s[2]}]++
		}
	}
	return vox
}

// label 7 occupies x in [-10,9], y in [10,11], z in [10,11]  (blocks (-1,0,0) and (0,0,0)).
func demoNegativeLabel(t *testing.T) dvid.UUID {
	uuid, _ := initTestRepo()
	var config dvid.Config
	server.CreateTestInstance(t, uuid, "labelmap", "labels", config)

	const nx, ny, nz = 128, 64, 64
	data := make([]byte, nx*ny*nz*8)
	for z := 10; z <= 11; z++ {
		for y := 10; y <= 11; y++ {
			for x := -10; x <= 9; x++ {
				i := (z*nx*ny + y*nx + (x + 64)) * 8
				binary.LittleEndian.PutUint64(data[i:i+8], 7)
			}
		}
	}
	apiStr := fmt.Sprintf("%snode/%s/labels/raw/0_1_2/%d_%d_%d/-64_0_0", server.WebAPIPath, uuid, nx, ny, nz)
	server.TestHTTP(t, "POST", apiStr, bytes.NewBuffer(data))
	if err := downres.BlockOnUpdating(uuid, "labels"); err != nil {
		t.Fatalf("Error blocking on update for labels: %v\n", err)
	}
	return uuid
}

// An empty X interval (minx > maxx inside one block) still returns one voxel per row, because the
// X scan in PositionedBlock.writeRLEs is a do-while.
func TestSparsevolWithEmptyBoundsInterval(t *testing.T) {
	if err := server.OpenTest(); err != nil {
		t.Fatalf("can't open test server: %v\n", err)
	}
	defer server.CloseTest()
	uuid := demoNegativeLabel(t)
	base := fmt.Sprintf("%snode/%s/labels/sparsevol/7", server.WebAPIPath, uuid)
	got := demoSparsevolVoxels(t, base+"?minx=5&maxx=2")
	if len(got) != 0 {
		t.Errorf("bounds minx=5&maxx=2 are empty but sparsevol returned %d voxels: %v", len(got), got)
	}
}

