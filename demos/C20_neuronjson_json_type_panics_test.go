package neuronjson

// Demonstration of C20 defects at the pinned commit (drop into datatype/neuronjson, run with
//   go test -vet=off -count=1 -tags "badger filestore" -run TestWellFormedJSONNeverPanics ./datatype/neuronjson
//
// Well-formed requests whose JSON elements have an unexpected JSON type must not end in a
// recovered panic ("Panic detected" / internal error).

import (
	"fmt"
	"strings"
	"testing"

	"github.com/janelia-flyem/dvid/dvid"
	"github.com/janelia-flyem/dvid/server"
)

func TestWellFormedJSONNeverPanics(t *testing.T) {
	if err := server.OpenTest(); err != nil {
		t.Fatalf("can't open test server: %v\n", err)
	}
	defer server.CloseTest()

	uuid, _ := initTestRepo()
	server.CreateTestInstance(t, uuid, "neuronjson", "neurons", dvid.Config{})
	do := func(what, method, url, body string) {
		defer func() {
			if e := recover(); e != nil {
				t.Errorf("%s: panic: %v", what, e)
			}
		}()
		resp := server.TestHTTPResponse(t, method, url, strings.NewReader(body))
		if resp.Code >= 500 || strings.Contains(resp.Body.String(), "Panic detected") {
			t.Errorf("%s: answered %d %s", what, resp.Code, resp.Body.String())
		}
	}
	do("store", "POST", fmt.Sprintf("%snode/%s/neurons/key/1?u=frank", server.WebAPIPath, uuid), `{"bodyid": 1, "size": 1.5}`)
	do("query with a mixed-type list", "POST", fmt.Sprintf("%snode/%s/neurons/query", server.WebAPIPath, uuid), `{"size": [1.5, "a"]}`)

	schema := `{"type":"object","properties":{"a":{"type":"object","properties":{"b":{"type":"integer"}}}}}`
	do("schema", "POST", fmt.Sprintf("%snode/%s/neurons/json_schema?u=frank", server.WebAPIPath, uuid), schema)
	do("nested integer field given as a string", "POST", fmt.Sprintf("%snode/%s/neurons/key/1000?u=frank", server.WebAPIPath, uuid), `{"bodyid": 1000, "a": {"b": "5"}}`)
}
