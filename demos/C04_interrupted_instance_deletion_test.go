package keyvalue

// Demonstration of a C04 defect at the pinned commit (drop into datatype/keyvalue, run with
//   go test -vet=off -count=1 -tags "badger filestore" -run TestDeletionOfAnInstanceIsPersistedBeforeItStarts ./datatype/keyvalue
//
// Deleting a data instance marks it as deleted in memory, acknowledges, and removes its key-values in
// the background; the repo is saved only when that has finished.  The start-up loader has a loop that
// restarts deletions in progress -- but the mark is never persisted, so the loop can never find one.
// The metadata reloaded from the store right after the acknowledgement (what a process started after
// a crash at that moment would see) shows a live instance, while part of its key-values is gone.

import (
	"fmt"
	"strings"
	"testing"

	"github.com/janelia-flyem/dvid/datastore"
	"github.com/janelia-flyem/dvid/dvid"
	"github.com/janelia-flyem/dvid/server"
)

func TestDeletionOfAnInstanceIsPersistedBeforeItStarts(t *testing.T) {
	if err := server.OpenTest(); err != nil {
		t.Fatalf("can't open test server: %v\n", err)
	}
	defer server.CloseTest()

	uuid, _ := initTestRepo()
	server.CreateTestInstance(t, uuid, "keyvalue", "doomed", dvid.Config{})
	for i := 0; i < 200; i++ {
		server.TestHTTP(t, "POST", fmt.Sprintf("%snode/%s/doomed/key/k%04d", server.WebAPIPath, uuid, i), strings.NewReader("some value"))
	}
	if err := datastore.DeleteDataByName(uuid, "doomed", "foobar"); err != nil {
		t.Fatal(err)
	}
	// what the next process would load if this one died now
	if err := datastore.ReloadMetadata(); err != nil {
		t.Fatal(err)
	}
	if _, err := datastore.GetDataByUUIDName(uuid, "doomed"); err == nil {
		t.Errorf("the deletion of instance %q was acknowledged, yet the metadata in the store still describes it as a live instance: a crash during the background deletion brings it back with part of its key-values gone", "doomed")
	}
}
