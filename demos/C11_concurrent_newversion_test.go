package datastore

// Demonstration of a C11 defect at the pinned commit (drop into datastore, run with
//   go test -vet=off -count=1 -tags "badger filestore" -run TestConcurrentNewVersionOneBranch ./datastore
//
// A committed node can get one child per branch.  N concurrent newversion requests on one parent
// (same branch) must leave exactly one child; the others must be refused.

import (
	"sync"
	"testing"
)

func TestConcurrentNewVersionOneBranch(t *testing.T) {
	OpenTest()
	defer CloseTest()

	for round := 0; round < 30 && !t.Failed(); round++ {
		root, _ := NewTestRepo()
		if err := Commit(root, "root", nil); err != nil {
			t.Fatal(err)
		}
		const N = 16
		start := make(chan struct{})
		var wg sync.WaitGroup
		var mu sync.Mutex
		accepted := 0
		for i := 0; i < N; i++ {
			wg.Add(1)
			go func() {
				defer wg.Done()
				<-start
				if _, err := NewVersion(root, "child", "", nil); err == nil {
					mu.Lock()
					accepted++
					mu.Unlock()
				}
			}()
		}
		close(start)
		wg.Wait()
		if accepted != 1 {
			t.Errorf("round %d: %d of %d concurrent newversion requests on one committed parent were accepted: the branch has %d heads", round, accepted, N, accepted)
		}
	}
}
