package labels

// Demonstration for R9.14 / R20.58.  Drop into datatype/common/labels and run
//   go test -vet=off -count=1 -run TestDemoMalformedBlockTables ./datatype/common/labels
// Before the fix Block.UnmarshalBinary accepted blocks whose tables fit in the buffer but point outside
// each other; the first reader (MakeLabelVolume, CalcNumLabels — in DVID mostly run in goroutines that
// no recover handler covers, so the server process ended) then indexed out of range.

import (
	"bytes"
	"encoding/binary"
	"testing"
)

func demoRawBlock(gx, gy, gz uint32, lbls []uint64, numSB []uint16, sbIdx []uint32, sbVals []byte) []byte {
	var b bytes.Buffer
	binary.Write(&b, binary.LittleEndian, gx)
	binary.Write(&b, binary.LittleEndian, gy)
	binary.Write(&b, binary.LittleEndian, gz)
	binary.Write(&b, binary.LittleEndian, uint32(len(lbls)))
	binary.Write(&b, binary.LittleEndian, lbls)
	binary.Write(&b, binary.LittleEndian, numSB)
	binary.Write(&b, binary.LittleEndian, sbIdx)
	b.Write(sbVals)
	return b.Bytes()
}

func TestDemoMalformedBlockTables(t *testing.T) {
	ones := func(n int, v uint16) []uint16 {
		s := make([]uint16, n)
		for i := range s {
			s[i] = v
		}
		return s
	}
	idx := func(n int, v uint32) []uint32 {
		s := make([]uint32, n)
		for i := range s {
			s[i] = v
		}
		return s
	}
	cases := map[string][]byte{
		"sub-block indices 99 with 2 labels":         demoRawBlock(8, 8, 8, []uint64{1, 2}, ones(512, 1), idx(512, 99), nil),
		"two labels per sub-block, no packed values": demoRawBlock(8, 8, 8, []uint64{1, 2}, ones(512, 2), idx(1024, 1), nil),
		"first sub-block claims 600 labels":          demoRawBlock(8, 8, 8, []uint64{1, 2}, append([]uint16{600}, ones(511, 1)...), idx(600+511, 1), make([]byte, 512*10/8)),
	}
	for name, data := range cases {
		func() {
			defer func() {
				if r := recover(); r != nil {
					t.Errorf("%s: accepted by UnmarshalBinary, then a reader panicked: %v", name, r)
				}
			}()
			var b Block
			if err := b.UnmarshalBinary(data); err != nil {
				return // refused: fine
			}
			b.MakeLabelVolume()
			b.CalcNumLabels(nil)
		}()
	}
}
