package keyvalue

// Demonstration for R20.44 (a map handed out by a getter is not changed in place).  Drop into
// datatype/keyvalue and run
//   go test -vet=off -count=1 -tags "badger filestore" -run TestDemoTagsRace ./datatype/keyvalue
// Before the fix datastore.SetTagsByJSON inserted into the live map returned by d.Tags() while the
// tags and info endpoints encode that map with no lock: the test binary dies with
// "fatal error: concurrent map iteration and map write".

import (
	"bytes"
	"fmt"
	"sync"
	"testing"

	"github.com/janelia-flyem/dvid/dvid"
	"github.com/janelia-flyem/dvid/server"
)

func TestDemoTagsRace(t *testing.T) {
	if err := server.OpenTest(); err != nil {
		t.Fatalf("can't open test server: %v\n", err)
	}
	defer server.CloseTest()
	uuid, _ := initTestRepo()
	server.CreateTestInstance(t, uuid, "keyvalue", "kv", dvid.NewConfig())
	base := fmt.Sprintf("%snode/%s/kv/", server.WebAPIPath, uuid)
	server.TestHTTPResponse(t, "POST", base+"tags", bytes.NewReader([]byte(`{"a":"b"}`)))
	done := make(chan struct{})
	var wg sync.WaitGroup
	for i := 0; i < 8; i++ {
		wg.Add(1)
		go func(i int) {
			defer wg.Done()
			for {
				select {
				case <-done:
					return
				default:
				}
				if i%2 == 0 {
					server.TestHTTPResponse(t, "GET", base+"tags", nil)
				} else {
					server.TestHTTPResponse(t, "GET", base+"info", nil)
				}
			}
		}(i)
	}
	for i := 0; i < 20000; i++ {
		server.TestHTTPResponse(t, "POST", base+"tags", bytes.NewReader([]byte(fmt.Sprintf(`{"k%d":"v"}`, i%500))))
	}
	close(done)
	wg.Wait()
}
