package multichan16

// Demonstration for the fix "a copied multichan16 instance keeps its volume properties": CopyPropertiesFrom
// of multichan16 set NumChannels only and — unlike its siblings labelblk, labelarray and labelmap — did not
// hand the embedded image volume to imageblk's own copy, so a copy made with non-default block size,
// resolution or background addressed and filled blocks differently from its source.
//
// Drop into datatype/multichan16 and run:
//   go test -vet=off -count=1 -tags "badger filestore" -run TestCopyKeepsVolumeProperties ./datatype/multichan16

import (
	"testing"

	"github.com/janelia-flyem/dvid/datastore"
	"github.com/janelia-flyem/dvid/dvid"
	"github.com/janelia-flyem/dvid/server"
)

func TestCopyKeepsVolumeProperties(t *testing.T) {
	if err := server.OpenTest(); err != nil {
		t.Fatalf("can't open test server: %v\n", err)
	}
	defer server.CloseTest()

	uuid, _ := initTestRepo()

	config := dvid.NewConfig()
	config.Set("BlockSize", "16,16,16")
	config.Set("VoxelSize", "4.0,4.0,40.0")
	config.Set("Background", "7")
	srcService, err := datastore.NewData(uuid, dtype, "chans", config)
	if err != nil {
		t.Fatalf("Error creating new multichan16 instance: %v\n", err)
	}
	src := srcService.(*Data)
	src.NumChannels = 3

	if err := datastore.CopyInstance(uuid, "chans", "chans-copy", dvid.NewConfig()); err != nil {
		t.Fatalf("copy failed: %v\n", err)
	}
	dstService, err := datastore.GetDataByUUIDName(uuid, "chans-copy")
	if err != nil {
		t.Fatal(err)
	}
	dst := dstService.(*Data)

	if dst.NumChannels != src.NumChannels {
		t.Errorf("copy has %d channels, source %d\n", dst.NumChannels, src.NumChannels)
	}
	if dst.BlockSize().String() != src.BlockSize().String() {
		t.Errorf("copy has block size %s, source %s: the copied blocks are addressed with the wrong size\n", dst.BlockSize(), src.BlockSize())
	}
	if dst.Properties.Background != src.Properties.Background {
		t.Errorf("copy has background %d, source %d\n", dst.Properties.Background, src.Properties.Background)
	}
	if len(dst.Properties.Resolution.VoxelSize) != 3 || dst.Properties.Resolution.VoxelSize[2] != src.Properties.Resolution.VoxelSize[2] {
		t.Errorf("copy has voxel size %v, source %v\n", dst.Properties.Resolution.VoxelSize, src.Properties.Resolution.VoxelSize)
	}
}
