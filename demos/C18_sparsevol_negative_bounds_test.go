package labelmap

// Demonstration of a C18 defect at the pinned commit (drop into datatype/labelmap, run with
//   go test -vet=off -count=1 -tags "badger filestore" -run TestSparsevolWithNegativeVoxelBounds ./datatype/labelmap
//
// The voxel bounds of a sparse-volume request (minx, maxx, …) are turned into block bounds by
// OptionalBounds.Divide, which divides with Go's truncating `/`.  A negative voxel bound such as
// minx=-5 (block -1 for 64-voxel blocks) becomes block 0: the block that holds the voxels -5..-1 is
// screened out, and bounds that lie entirely on the negative side return voxels from block 0.

import (
	"bytes"
	"encoding/binary"
	"fmt"
	"testing"

	"github.com/janelia-flyem/dvid/datatype/common/downres"
	"github.com/janelia-flyem/dvid/dvid"
	"github.com/janelia-flyem/dvid/server"
)

func probeSparsevolVoxels(t *testing.T, reqStr string) map[dvid.Point3d]int {
	resp := server.TestHTTPResponse(t, "GET", reqStr, nil)
	vox := make(map[dvid.Point3d]int)
	if resp.Code == 404 {
		return vox
	}
	if resp.Code != 200 {
		t.Fatalf("GET %s returned %d: %s", reqStr, resp.Code, resp.Body.String())
	}
	b := resp.Body.Bytes()
	if len(b) == 0 {
		return vox
	}
	rles, err := dvid.ReadRLEs(bytes.NewReader(b))
	if err != nil {
		t.Fatalf("GET %s: cannot parse sparsevol: %v", reqStr, err)
	}
	for _, r := range rles {
		s := r.StartPt()
		if r.Length() <= 0 {
			t.Errorf("GET %s: run %s has non-positive length", reqStr, r)
		}
		for i := int32(0); i < r.Length(); i++ {
			vox[dvid.Point3d{s[0] + i, s[1], s[2]}]++
		}
	}
	return vox
}

// label 7 occupies x in [-10,9], y in [10,11], z in [10,11]  (blocks (-1,0,0) and (0,0,0)).
func probeNegativeLabel(t *testing.T) dvid.UUID {
	uuid, _ := initTestRepo()
	var config dvid.Config
	server.CreateTestInstance(t, uuid, "labelmap", "labels", config)

	const nx, ny, nz = 128, 64, 64
	data := make([]byte, nx*ny*nz*8)
	for z := 10; z <= 11; z++ {
		for y := 10; y <= 11; y++ {
			for x := -10; x <= 9; x++ {
				i := (z*nx*ny + y*nx + (x + 64)) * 8
				binary.LittleEndian.PutUint64(data[i:i+8], 7)
			}
		}
	}
	apiStr := fmt.Sprintf("%snode/%s/labels/raw/0_1_2/%d_%d_%d/-64_0_0", server.WebAPIPath, uuid, nx, ny, nz)
	server.TestHTTP(t, "POST", apiStr, bytes.NewBuffer(data))
	if err := downres.BlockOnUpdating(uuid, "labels"); err != nil {
		t.Fatalf("Error blocking on update for labels: %v\n", err)
	}
	return uuid
}

func probeCheck(t *testing.T, what string, got map[dvid.Point3d]int, x0, x1 int32) {
	want := 0
	for z := int32(10); z <= 11; z++ {
		for y := int32(10); y <= 11; y++ {
			for x := x0; x <= x1; x++ {
				want++
				if got[dvid.Point3d{x, y, z}] != 1 {
					t.Errorf("%s: voxel (%d,%d,%d) is in the label and inside the bounds but appears %d times", what, x, y, z, got[dvid.Point3d{x, y, z}])
					return
				}
			}
		}
	}
	if len(got) != want {
		for pt := range got {
			if pt[0] < x0 || pt[0] > x1 {
				t.Errorf("%s: expected %d voxels, got %d; e.g. voxel %s is outside the requested bounds x in [%d,%d]", what, want, len(got), pt, x0, x1)
				return
			}
		}
	}
}

func TestSparsevolWithNegativeVoxelBounds(t *testing.T) {
	if err := server.OpenTest(); err != nil {
		t.Fatalf("can't open test server: %v\n", err)
	}
	defer server.CloseTest()
	uuid := probeNegativeLabel(t)

	base := fmt.Sprintf("%snode/%s/labels/sparsevol/7", server.WebAPIPath, uuid)

	// sanity: the unbounded volume is right, so negative coordinates as such are handled
	probeCheck(t, "no bounds", probeSparsevolVoxels(t, base), -10, 9)

	// minx=-5: the block bound becomes -5/64 = 0, so block (-1,0,0) is screened out and voxels -5..-1 vanish
	probeCheck(t, "minx=-5", probeSparsevolVoxels(t, base+"?minx=-5"), -5, 9)

	// maxx=-1: block bound -1/64 = 0 keeps block 0 (and minx unset keeps block -1); in block 0 the clipped
	// X range is empty (0..-1) but the scan loop runs once, emitting a voxel at x=0
	probeCheck(t, "maxx=-1", probeSparsevolVoxels(t, base+"?maxx=-1"), -10, -1)

	// both: only block 0 survives the block screen: all wanted voxels are lost and x=0 is returned instead
	probeCheck(t, "minx=-10&maxx=-1", probeSparsevolVoxels(t, base+"?minx=-10&maxx=-1"), -10, -1)

	// same through the streaming format
	probeCheck(t, "format=srles minx=-5", probeStreamingVoxels(t, base+"?format=srles&minx=-5"), -5, 9)
}

func probeStreamingVoxels(t *testing.T, reqStr string) map[dvid.Point3d]int {
	resp := server.TestHTTPResponse(t, "GET", reqStr, nil)
	vox := make(map[dvid.Point3d]int)
	if resp.Code != 200 {
		return vox
	}
	b := resp.Body.Bytes()
	for i := 0; i+16 <= len(b); i += 16 {
		x := int32(binary.LittleEndian.Uint32(b[i:]))
		y := int32(binary.LittleEndian.Uint32(b[i+4:]))
		z := int32(binary.LittleEndian.Uint32(b[i+8:]))
		n := int32(binary.LittleEndian.Uint32(b[i+12:]))
		for j := int32(0); j < n; j++ {
			vox[dvid.Point3d{x + j, y, z}]++
		}
	}
	return vox
}

