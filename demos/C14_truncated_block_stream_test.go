package labelmap

// Demonstration of a C14 defect at the pinned commit (drop into datatype/labelmap, run with
//   go test -vet=off -count=1 -tags "badger filestore" -run TestTruncatedBlockStreamKeepsPyramidConsistent ./datatype/labelmap
//
// POST blocks?downres=true stores each block of the stream as it is parsed.  When a later part of the
// stream is malformed the request is answered 400 -- after the earlier blocks were stored at level 0 --
// and the deferred Abort drops the down-sampling of those blocks: level 1 and 2 no longer match level 0,
// and the instance reports idle.

import (
	"bytes"
	"compress/gzip"
	"encoding/binary"
	"fmt"
	"testing"

	"github.com/janelia-flyem/dvid/datatype/common/downres"
	"github.com/janelia-flyem/dvid/datatype/common/labels"
	"github.com/janelia-flyem/dvid/dvid"
	"github.com/janelia-flyem/dvid/server"
)

// ---- c14d harness ----

type c14dVol struct {
	off, size dvid.Point3d
	data      []byte
}

func c14dNewVol(off, size dvid.Point3d) *c14dVol {
	return &c14dVol{off, size, make([]byte, int64(size[0])*int64(size[1])*int64(size[2])*8)}
}

func (v *c14dVol) set(x, y, z int32, lbl uint64) {
	i := ((z-v.off[2])*v.size[1]+(y-v.off[1]))*v.size[0] + (x - v.off[0])
	binary.LittleEndian.PutUint64(v.data[i*8:i*8+8], lbl)
}

func (v *c14dVol) get(x, y, z int32) uint64 {
	i := ((z-v.off[2])*v.size[1]+(y-v.off[1]))*v.size[0] + (x - v.off[0])
	return binary.LittleEndian.Uint64(v.data[i*8 : i*8+8])
}

func (v *c14dVol) fill(f func(x, y, z int32) uint64) {
	for z := v.off[2]; z < v.off[2]+v.size[2]; z++ {
		for y := v.off[1]; y < v.off[1]+v.size[1]; y++ {
			for x := v.off[0]; x < v.off[0]+v.size[0]; x++ {
				v.set(x, y, z, f(x, y, z))
			}
		}
	}
}

func (v *c14dVol) post(t *testing.T, uuid dvid.UUID, name string, query string) {
	apiStr := fmt.Sprintf("%snode/%s/%s/raw/0_1_2/%d_%d_%d/%d_%d_%d%s", server.WebAPIPath,
		uuid, name, v.size[0], v.size[1], v.size[2], v.off[0], v.off[1], v.off[2], query)
	server.TestHTTP(t, "POST", apiStr, bytes.NewBuffer(v.data))
}

func c14dGet(t *testing.T, uuid dvid.UUID, name string, off, size dvid.Point3d, scale int) *c14dVol {
	apiStr := fmt.Sprintf("%snode/%s/%s/raw/0_1_2/%d_%d_%d/%d_%d_%d?scale=%d&supervoxels=true", server.WebAPIPath,
		uuid, name, size[0], size[1], size[2], off[0], off[1], off[2], scale)
	data := server.TestHTTP(t, "GET", apiStr, nil)
	if int64(len(data)) != int64(size[0])*int64(size[1])*int64(size[2])*8 {
		t.Fatalf("GET %s returned %d bytes", apiStr, len(data))
	}
	return &c14dVol{off, size, data}
}

// documented vote: most frequent non-zero label, ties to smaller, all zero -> zero.
func c14dVote(hi *c14dVol, x, y, z int32) uint64 {
	votes := make(map[uint64]int)
	for dz := int32(0); dz < 2; dz++ {
		for dy := int32(0); dy < 2; dy++ {
			for dx := int32(0); dx < 2; dx++ {
				if l := hi.get(2*x+dx, 2*y+dy, 2*z+dz); l != 0 {
					votes[l]++
				}
			}
		}
	}
	var best uint64
	var bestN int
	for l, n := range votes {
		if n > bestN || (n == bestN && l < best) {
			best, bestN = l, n
		}
	}
	return best
}

// checks that every level 1..maxLevel equals the vote over the level beneath it within the
// level-0 region (off,size), which must be aligned to 2^maxLevel.
func c14dCheckPyramid(t *testing.T, context string, uuid dvid.UUID, name string, off, size dvid.Point3d, maxLevel int) bool {
	ok := true
	hi := c14dGet(t, uuid, name, off, size, 0)
	for level := 1; level <= maxLevel; level++ {
		loff := dvid.Point3d{off[0] >> uint(level), off[1] >> uint(level), off[2] >> uint(level)}
		lsize := dvid.Point3d{size[0] >> uint(level), size[1] >> uint(level), size[2] >> uint(level)}
		lo := c14dGet(t, uuid, name, loff, lsize, level)
		bad := 0
		for z := loff[2]; z < loff[2]+lsize[2]; z++ {
			for y := loff[1]; y < loff[1]+lsize[1]; y++ {
				for x := loff[0]; x < loff[0]+lsize[0]; x++ {
					exp := c14dVote(hi, x, y, z)
					got := lo.get(x, y, z)
					if exp != got {
						if bad < 5 {
							t.Errorf("%s: level %d voxel (%d,%d,%d) is %d but the vote over level %d gives %d", context, level, x, y, z, got, level-1, exp)
						}
						bad++
					}
				}
			}
		}
		if bad > 0 {
			t.Errorf("%s: level %d has %d voxels not matching the down-sampling of level %d", context, level, bad, level-1)
			ok = false
		}
		hi = lo
	}
	return ok
}

func c14dWait(t *testing.T, uuid dvid.UUID, name string) {
	if err := downres.BlockOnUpdating(uuid, dvid.InstanceName(name)); err != nil {
		t.Fatalf("error blocking on update: %v", err)
	}
}

// serialises blocks for POST .../blocks
func c14dBlocksPayload(t *testing.T, bsize dvid.Point3d, coords []dvid.ChunkPoint3d, f func(x, y, z int32) uint64) []byte {
	var buf bytes.Buffer
	for _, c := range coords {
		off := dvid.Point3d{c[0] * bsize[0], c[1] * bsize[1], c[2] * bsize[2]}
		v := c14dNewVol(off, bsize)
		v.fill(f)
		block, err := labels.MakeBlock(v.data, bsize)
		if err != nil {
			t.Fatalf("MakeBlock: %v", err)
		}
		ser, _ := block.MarshalBinary()
		var gz bytes.Buffer
		zw := gzip.NewWriter(&gz)
		zw.Write(ser)
		zw.Close()
		hdr := make([]byte, 16)
		binary.LittleEndian.PutUint32(hdr[0:4], uint32(c[0]))
		binary.LittleEndian.PutUint32(hdr[4:8], uint32(c[1]))
		binary.LittleEndian.PutUint32(hdr[8:12], uint32(c[2]))
		binary.LittleEndian.PutUint32(hdr[12:16], uint32(gz.Len()))
		buf.Write(hdr)
		buf.Write(gz.Bytes())
	}
	return buf.Bytes()
}

func c14dLabel(x, y, z int32) uint64 {
	// a pattern with zeros, ties and small features
	bx, by, bz := x>>3, y>>3, z>>3
	if (bx+by+bz)%5 == 0 {
		return 0
	}
	return uint64(1 + ((bx*7+by*13+bz*29)%11+11)%11 + ((x+y+z)&1)*100)
}

func c14dSetup(t *testing.T, bsize string, maxLevel int) dvid.UUID {
	uuid, _ := initTestRepo()
	var config dvid.Config
	config.Set("MaxDownresLevel", fmt.Sprintf("%d", maxLevel))
	config.Set("BlockSize", bsize)
	server.CreateTestInstance(t, uuid, "labelmap", "labels", config)
	return uuid
}

func TestTruncatedBlockStreamKeepsPyramidConsistent(t *testing.T) {
	if err := server.OpenTest(); err != nil {
		t.Fatalf("can't open test server: %v\n", err)
	}
	defer server.CloseTest()
	uuid := c14dSetup(t, "32,32,32", 2)
	bsize := dvid.Point3d{32, 32, 32}
	c := []dvid.ChunkPoint3d{{1, 1, 1}}
	p1 := c14dBlocksPayload(t, bsize, c, func(x, y, z int32) uint64 { return 7 })
	payload := append(p1, []byte{1, 2, 3, 4, 5}...)
	apiStr := fmt.Sprintf("%snode/%s/labels/blocks?downres=true", server.WebAPIPath, uuid)
	resp := server.TestHTTPResponse(t, "POST", apiStr, bytes.NewBuffer(payload))
	t.Logf("bad stream POST returned %d: %s", resp.Code, resp.Body.String())
	c14dWait(t, uuid, "labels")
	c14dCheckPyramid(t, "badstream", uuid, "labels", dvid.Point3d{0, 0, 0}, dvid.Point3d{128, 128, 128}, 2)
}

