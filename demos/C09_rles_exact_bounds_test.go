package labels

// Demonstration of a C09 defect at the pinned commit (drop into datatype/common/labels, run with
//   go test -vet=off -count=1 -run TestRLEsRespectExactBoundsInsideSolidSubBlock ./datatype/common/labels
//
// With exact voxel bounds the run-length view must stay inside the bounds.  Inside a sub-block that
// holds a single label the writer steps to the end of the sub-block (SubBlockSize - x%SubBlockSize)
// without clipping the step to the upper x bound: bounds x = 2..4 give runs of length 6 (x = 2..7).

import (
	"bytes"
	"testing"

	"github.com/janelia-flyem/dvid/dvid"
)

func TestRLEsRespectExactBoundsInsideSolidSubBlock(t *testing.T) {
	sz := dvid.Point3d{32, 32, 32}
	vol := make([]uint64, 32*32*32)
	// label 5 fills sub-block (0,0,0) entirely plus nothing else -> 2 labels in block.
	for z := 0; z < 8; z++ {
		for y := 0; y < 8; y++ {
			for x := 0; x < 8; x++ {
				vol[z*32*32+y*32+x] = 5
			}
		}
	}
	b, err := MakeBlock(dvid.AliasUint64ToByte(vol), sz)
	if err != nil {
		t.Fatal(err)
	}
	var bounds dvid.Bounds
	bounds.Exact = true
	bounds.Voxel = new(dvid.OptionalBounds)
	bounds.Voxel.SetMinX(2)
	bounds.Voxel.SetMaxX(4)
	var buf bytes.Buffer
	op := NewOutputOp(&buf)
	go WriteRLEs(Set{5: struct{}{}}, op, bounds)
	pb := PositionedBlock{Block: *b, BCoord: dvid.ChunkPoint3d{0, 0, 0}.ToIZYXString()}
	op.Process(&pb)
	if err := op.Finish(); err != nil {
		t.Fatal(err)
	}
	var rles dvid.RLEs
	if err := rles.UnmarshalBinary(buf.Bytes()); err != nil {
		t.Fatal(err)
	}
	for _, r := range rles {
		if r.StartPt()[0] != 2 || r.Length() != 3 {
			t.Errorf("expected runs x=2 len 3, got %s (of %d rles)", r, len(rles))
			break
		}
	}
}
