package labelmap

// Demonstration for R20.41 / R11.27 (declared guards).  Drop into datatype/labelmap and run
//   go test -vet=off -count=1 -tags "badger filestore" -run TestDemoMaxlabelReadRace ./datatype/labelmap
// Before the fix GET maxlabel read the map d.MaxLabel without d.mlMu while POST maxlabel/<n> writes it
// under the lock: the test binary dies with "fatal error: concurrent map read and map write".

import (
	"fmt"
	"sync"
	"testing"

	"github.com/janelia-flyem/dvid/dvid"
	"github.com/janelia-flyem/dvid/server"
)

func TestDemoMaxlabelReadRace(t *testing.T) {
	if err := server.OpenTest(); err != nil {
		t.Fatalf("can't open test server: %v\n", err)
	}
	defer server.CloseTest()
	uuid, _ := initTestRepo()
	server.CreateTestInstance(t, uuid, "labelmap", "labels", dvid.NewConfig())
	base := fmt.Sprintf("%snode/%s/labels/", server.WebAPIPath, uuid)
	server.TestHTTPResponse(t, "POST", base+"maxlabel/10", nil)
	var wg sync.WaitGroup
	stop := make(chan struct{})
	for i := 0; i < 8; i++ {
		wg.Add(1)
		go func() {
			defer wg.Done()
			for {
				select {
				case <-stop:
					return
				default:
				}
				server.TestHTTPResponse(t, "GET", base+"maxlabel", nil)
			}
		}()
	}
	for i := 0; i < 20000; i++ {
		server.TestHTTPResponse(t, "POST", fmt.Sprintf("%smaxlabel/%d", base, 100+i), nil)
	}
	close(stop)
	wg.Wait()
}
