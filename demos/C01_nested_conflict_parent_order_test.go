package keyvalue

// Demonstration of a C01 defect at the pinned commit (drop into datatype/keyvalue, run with
//   go test -vet=off -count=1 -tags "badger filestore" -run TestNestedConflictParentOrder ./datatype/keyvalue
//
//        R
//       / \
//      A   B        A: k = "value a"   B: k = "value b"
//       \ /
//        M1         (k is in conflict here)
//       /  \
//      C    D       C: k = "value c"   (supersedes a and b)   D: nothing
//
// A read of k at merge(C, D) and at merge(D, C) must give the same answer, "value c".

import (
	"fmt"
	"strings"
	"testing"

	"github.com/janelia-flyem/dvid/datastore"
	"github.com/janelia-flyem/dvid/dvid"
	"github.com/janelia-flyem/dvid/server"
)

// Finding 2: findMatch returns the error of an unresolved conflict met in one parent's lineage
// at once, before a later parent whose lineage supersedes both conflicting values is walked;
// the outcome depends on the order of the merge's parents.
func TestNestedConflictParentOrder(t *testing.T) {
	if err := server.OpenTest(); err != nil {
		t.Fatalf("can't open test server: %v\n", err)
	}
	defer server.CloseTest()

	uuid, _ := initTestRepo()
	dataservice, err := datastore.NewData(uuid, kvtype, "probe", dvid.NewConfig())
	if err != nil {
		t.Fatalf("Error creating new keyvalue instance: %v\n", err)
	}
	name := dataservice.DataName()
	url := func(u dvid.UUID, k string) string {
		return fmt.Sprintf("%snode/%s/%s/key/%s", server.WebAPIPath, u, name, k)
	}
	must := func(err error) {
		if err != nil {
			t.Fatal(err)
		}
	}
	must(datastore.Commit(uuid, "root", nil))
	a, err := datastore.NewVersion(uuid, "a", "", nil)
	must(err)
	b, err := datastore.NewVersion(uuid, "b", "bb", nil)
	must(err)
	server.TestHTTP(t, "POST", url(a, "k"), strings.NewReader("value a"))
	server.TestHTTP(t, "POST", url(b, "k"), strings.NewReader("value b"))
	must(datastore.Commit(a, "a", nil))
	must(datastore.Commit(b, "b", nil))
	m1, err := datastore.Merge([]dvid.UUID{a, b}, "m1", datastore.MergeConflictFree) // k is in conflict here
	must(err)
	must(datastore.Commit(m1, "m1", nil))
	c, err := datastore.NewVersion(m1, "c", "", nil)
	must(err)
	d, err := datastore.NewVersion(m1, "d", "dd", nil)
	must(err)
	server.TestHTTP(t, "POST", url(c, "k"), strings.NewReader("value c")) // supersedes a and b
	must(datastore.Commit(c, "c", nil))
	must(datastore.Commit(d, "d", nil))

	mcd, err := datastore.Merge([]dvid.UUID{c, d}, "c,d", datastore.MergeConflictFree)
	must(err)
	mdc, err := datastore.Merge([]dvid.UUID{d, c}, "d,c", datastore.MergeConflictFree)
	must(err)
	for _, m := range []dvid.UUID{mcd, mdc} {
		resp := server.TestHTTPResponse(t, "GET", url(m, "k"), nil)
		if resp.Code != 200 || resp.Body.String() != "value c" {
			t.Errorf("GET k at merge %s: expected 200 \"value c\", got %d %q\n", m, resp.Code, resp.Body.String())
		}
		resp = server.TestHTTPResponse(t, "GET", fmt.Sprintf("%snode/%s/%s/keys", server.WebAPIPath, m, name), nil)
		if resp.Code != 200 || resp.Body.String() != `["k"]` {
			t.Errorf("GET keys at merge %s: expected 200 [\"k\"], got %d %q\n", m, resp.Code, resp.Body.String())
		}
	}
}
