package annotation

// Demonstration of a C11 defect at the pinned commit (drop into datatype/annotation, run with
//   go test -vet=off -count=1 -tags "badger filestore" -run TestConcurrentElementPostsKeepEveryElement ./datatype/annotation
//
// Every acknowledged POST of elements must be visible afterwards.  The element list of a block
// (and of a tag) is read, extended and written back whole; without a lock around that sequence two
// simultaneous POSTs into one block keep only the elements of the one that writes last.

import (
	"encoding/json"
	"fmt"
	"strings"
	"sync"
	"testing"

	"github.com/janelia-flyem/dvid/dvid"
	"github.com/janelia-flyem/dvid/server"
)

func TestConcurrentElementPostsKeepEveryElement(t *testing.T) {
	if err := server.OpenTest(); err != nil {
		t.Fatalf("can't open test server: %v\n", err)
	}
	defer server.CloseTest()

	uuid, _ := initTestRepo()
	server.CreateTestInstance(t, uuid, "annotation", "syn", dvid.Config{})

	const rounds = 20
	const writers = 8
	lost := 0
	for round := 0; round < rounds; round++ {
		z := round * 64 // one block per round
		var wg sync.WaitGroup
		for i := 0; i < writers; i++ {
			wg.Add(1)
			go func(i int) {
				defer wg.Done()
				body := fmt.Sprintf(`[{"Pos":[%d,1,%d],"Kind":"PostSyn","Tags":["T%d"]}]`, i+1, z+1, round)
				resp := server.TestHTTPResponse(t, "POST", fmt.Sprintf("%snode/%s/syn/elements", server.WebAPIPath, uuid), strings.NewReader(body))
				if resp.Code != 200 {
					t.Errorf("POST %d of round %d: status %d", i, round, resp.Code)
				}
			}(i)
		}
		wg.Wait()

		got := server.TestHTTP(t, "GET", fmt.Sprintf("%snode/%s/syn/elements/64_64_64/0_0_%d", server.WebAPIPath, uuid, z), nil)
		var elems []json.RawMessage
		if err := json.Unmarshal(got, &elems); err != nil {
			t.Fatalf("round %d: %v: %s", round, err, got)
		}
		if len(elems) != writers {
			lost += writers - len(elems)
			t.Logf("round %d: %d acknowledged POSTs into one block, %d elements stored", round, writers, len(elems))
		}
		got = server.TestHTTP(t, "GET", fmt.Sprintf("%snode/%s/syn/tag/T%d", server.WebAPIPath, uuid, round), nil)
		elems = nil
		if err := json.Unmarshal(got, &elems); err != nil {
			t.Fatalf("round %d tag: %v: %s", round, err, got)
		}
		if len(elems) != writers {
			lost += writers - len(elems)
			t.Logf("round %d: tag T%d lists %d of %d elements", round, round, len(elems), writers)
		}
	}
	if lost > 0 {
		t.Errorf("%d acknowledged elements are missing from a block or tag list", lost)
	}
}
