package labelmap

// Demonstration of a C03 defect at the pinned commit (drop into datatype/labelmap, run with
//   go test -vet=off -count=1 -tags "badger filestore" -run TestMappingReadsWhileLogIsReplayed ./datatype/labelmap
//
// After a restart the supervoxel → body mapping is rebuilt from the mutation log by the first
// request that needs it.  Every read must answer as before the restart.  initToVersion marks a
// version as loaded *before* its log (and its ancestors' logs) has been replayed, so a second
// request arriving during the replay takes the "already loaded" shortcut and answers from a
// half-built map: supervoxels come back unmapped.

import (
	"bytes"
	"encoding/json"
	"fmt"
	"sync"
	"testing"

	"github.com/janelia-flyem/dvid/datastore"
	"github.com/janelia-flyem/dvid/datatype/common/labels"
	"github.com/janelia-flyem/dvid/dvid"
	"github.com/janelia-flyem/dvid/server"
)

func TestMappingReadsWhileLogIsReplayed(t *testing.T) {
	if err := server.OpenTest(); err != nil {
		t.Fatalf("can't open test server: %v\n", err)
	}
	defer server.CloseTest()

	uuid, v := initTestRepo()
	var config dvid.Config
	server.CreateTestInstance(t, uuid, "labelmap", "labels", config)
	dataservice, err := datastore.GetDataByUUIDName(uuid, "labels")
	if err != nil {
		t.Fatal(err)
	}
	d := dataservice.(*Data)

	// a long mapping log in the root version: supervoxel 1000+i → body 7
	const ops = 40
	const perOp = 20000
	for i := 0; i < ops; i++ {
		svs := make(labels.Set, perOp)
		for j := 0; j < perOp; j++ {
			svs[uint64(1000+i*perOp+j)] = struct{}{}
		}
		if err := addMergeToMapping(d, v, uint64(i+1), 7, svs); err != nil {
			t.Fatal(err)
		}
	}
	// a child version, so that the queried version's own (empty) log is replayed first
	if err := datastore.Commit(uuid, "root", nil); err != nil {
		t.Fatal(err)
	}
	child, err := datastore.NewVersion(uuid, "child", "", nil)
	if err != nil {
		t.Fatal(err)
	}
	query := fmt.Sprintf(`[%d,%d,%d]`, 1000, 1000+ops*perOp/2, 1000+ops*perOp-1)
	url := fmt.Sprintf("%snode/%s/labels/mapping?nolookup=true", server.WebAPIPath, child)
	before := string(server.TestHTTP(t, "GET", url, bytes.NewBufferString(query)))
	if before != "[7,7,7]" {
		t.Fatalf("before the restart: %s", before)
	}

	// "restart": the in-memory mapping is gone and is rebuilt from the log by the first request
	iMap.Lock()
	iMap.maps = make(map[dvid.UUID]*VCache)
	iMap.Unlock()

	const readers = 8
	answers := make([]string, readers)
	var wg sync.WaitGroup
	for i := 0; i < readers; i++ {
		wg.Add(1)
		go func(i int) {
			defer wg.Done()
			answers[i] = string(server.TestHTTP(t, "GET", url, bytes.NewBufferString(query)))
		}(i)
	}
	wg.Wait()
	wrong := 0
	for i, a := range answers {
		if a != before {
			wrong++
			t.Logf("reader %d after the restart: %s (before the restart: %s)", i, a, before)
		}
	}
	if wrong > 0 {
		var x []uint64
		json.Unmarshal([]byte(answers[0]), &x)
		t.Errorf("%d of %d simultaneous first reads after the restart answered from a half-replayed mapping", wrong, readers)
	}
}
