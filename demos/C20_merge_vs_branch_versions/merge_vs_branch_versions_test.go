package server

// Demonstration for R20.43 / R11.29 (the node map of a DAG).  Drop into server/ and run
//   go test -vet=off -count=1 -tags "badger filestore" -run TestDemoMergeVsBranchVersions ./server
// Before the fix merge stored the new node into dag.nodes under the repo's lock only, while
// GET repo/<uuid>/branch-versions/<branch> iterates the map under the DAG's lock only: the test
// binary dies with "fatal error: concurrent map iteration and map write".

import (
	"bytes"
	"fmt"
	"sync"
	"testing"

	"github.com/janelia-flyem/dvid/datastore"
)

func demoProbe(t *testing.T, method, url string, body string) int {
	resp := TestHTTPResponse(t, method, url, bytes.NewBufferString(body))
	return resp.Code
}

func TestDemoMergeVsBranchVersions(t *testing.T) {
	if err := OpenTest(); err != nil {
		t.Fatalf("can't open test server: %v\n", err)
	}
	defer CloseTest()
	uuid, _ := datastore.NewTestRepo()
	demoProbe(t, "POST", fmt.Sprintf("%snode/%s/commit", WebAPIPath, uuid), `{"note":"x"}`)
	var kids []string
	for _, b := range []string{"a", "b"} {
		resp := TestHTTPResponse(t, "POST", fmt.Sprintf("%snode/%s/branch", WebAPIPath, uuid), bytes.NewBufferString(`{"branch":"`+b+`"}`))
		s := resp.Body.String()
		k := s[len(`{"child": "`) : len(s)-2]
		t.Logf("child %s from %s", k, s)
		kids = append(kids, k)
		demoProbe(t, "POST", fmt.Sprintf("%snode/%s/commit", WebAPIPath, k), `{"note":"x"}`)
	}
	done := make(chan struct{})
	var wg sync.WaitGroup
	for i := 0; i < 8; i++ {
		wg.Add(1)
		go func() {
			defer wg.Done()
			for {
				select {
				case <-done:
					return
				default:
				}
				TestHTTPResponse(t, "GET", fmt.Sprintf("%srepo/%s/branch-versions/master", WebAPIPath, uuid), nil)
			}
		}()
	}
	body := fmt.Sprintf(`{"mergeType":"conflict-free","parents":[%q,%q]}`, kids[0], kids[1])
	for i := 0; i < 1500; i++ {
		r := TestHTTPResponse(t, "POST", fmt.Sprintf("%srepo/%s/merge", WebAPIPath, uuid), bytes.NewBufferString(body))
		if i == 0 {
			t.Logf("merge -> %d %s", r.Code, r.Body.String())
		}
	}
	close(done)
	wg.Wait()
}
