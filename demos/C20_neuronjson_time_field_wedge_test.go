package neuronjson

// Demonstration of a C20 defect at the pinned commit (drop into datatype/neuronjson, run with
//   go test -vet=off -count=1 -tags "badger filestore" -run TestNonStringTimeFieldDoesNotWedge ./datatype/neuronjson
//
// Clients may set <field>_time explicitly.  A value that is not a string must be refused (or stored)
// without taking the instance down: later requests must still be answered.

import (
	"fmt"
	"strings"
	"testing"
	"time"

	"github.com/janelia-flyem/dvid/dvid"
	"github.com/janelia-flyem/dvid/server"
)

func TestNonStringTimeFieldDoesNotWedge(t *testing.T) {
	if err := server.OpenTest(); err != nil {
		t.Fatalf("can't open test server: %v\n", err)
	}
	defer server.CloseTest()

	uuid, _ := initTestRepo()
	server.CreateTestInstance(t, uuid, "neuronjson", "neurons", dvid.Config{})
	server.TestHTTP(t, "POST", fmt.Sprintf("%snode/%s/neurons/key/1?u=frank", server.WebAPIPath, uuid), strings.NewReader(`{"bodyid": 1, "a": "x"}`))

	done := make(chan string, 1)
	go func() {
		defer func() {
			if e := recover(); e != nil {
				done <- fmt.Sprintf("panic reached the caller: %v", e)
			}
		}()
		resp := server.TestHTTPResponse(t, "POST", fmt.Sprintf("%snode/%s/neurons/key/2?u=frank", server.WebAPIPath, uuid), strings.NewReader(`{"bodyid": 2, "a": "y", "a_time": 5}`))
		done <- fmt.Sprintf("status %d", resp.Code)
	}()
	select {
	case s := <-done:
		t.Logf("POST with a numeric a_time: %s", s)
		if strings.HasPrefix(s, "panic") || strings.HasPrefix(s, "status 5") {
			t.Errorf("a request that only carries a wrongly typed field ended in %s", s)
		}
	case <-time.After(10 * time.Second):
		t.Fatalf("POST with a numeric a_time was never answered")
	}

	answered := make(chan int, 1)
	go func() {
		defer func() { recover() }()
		resp := server.TestHTTPResponse(t, "GET", fmt.Sprintf("%snode/%s/neurons/key/1", server.WebAPIPath, uuid), nil)
		answered <- resp.Code
	}()
	select {
	case code := <-answered:
		if code != 200 {
			t.Errorf("GET key/1 after the bad POST: status %d", code)
		}
	case <-time.After(10 * time.Second):
		t.Errorf("GET key/1 is never answered after the POST with a numeric a_time: the instance is wedged")
	}
}
