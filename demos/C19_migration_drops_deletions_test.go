package roi

// Demonstration of a C19 defect at the pinned commit (drop into datatype/roi, run with
//   go test -vet=off -count=1 -tags "badger filestore" -run TestVersionLimitedMigrationKeepsDeletions ./datatype/roi
//
// A version-limited migration (transmit=<uuid>,<uuid>) folds the versions of each key and skips a
// version whose value equals the one written before it.  The test compares value bytes only: a
// deletion (a tombstone, whose value is empty) that follows a stored empty value -- ROI spans are
// stored with an empty value -- counts as a duplicate and is not written.  The migrated instance
// still has the spans at the version that deleted them.

import (
	"fmt"
	"os"
	"path/filepath"
	"testing"
	"time"

	"github.com/janelia-flyem/dvid/datastore"
	"github.com/janelia-flyem/dvid/dvid"
	"github.com/janelia-flyem/dvid/server"
	"github.com/janelia-flyem/dvid/storage"
)

func TestVersionLimitedMigrationKeepsDeletions(t *testing.T) {
	if err := server.OpenTest(); err != nil {
		t.Fatalf("can't open test server: %v\n", err)
	}
	defer server.CloseTest()

	uuid1, _ := initTestRepo()
	dataservice, err := datastore.NewData(uuid1, roitype, "roi", dvid.NewConfig())
	if err != nil {
		t.Fatal(err)
	}
	data := dataservice.(*Data)
	req1 := fmt.Sprintf("%snode/%s/roi/roi", server.WebAPIPath, uuid1)
	server.TestHTTP(t, "POST", req1, getSpansJSON(testSpans))
	datastore.Commit(uuid1, "", nil)
	uuid2, err := datastore.NewVersion(uuid1, "", "", nil)
	if err != nil {
		t.Fatal(err)
	}
	req2 := fmt.Sprintf("%snode/%s/roi/roi", server.WebAPIPath, uuid2)
	server.TestHTTP(t, "DELETE", req2, nil)

	before1 := string(server.TestHTTP(t, "GET", req1, nil))
	before2 := string(server.TestHTTP(t, "GET", req2, nil))

	srcStore, _ := data.KVStore()
	dir := filepath.Join(os.TempDir(), fmt.Sprintf("dvid-c19probe-%d", time.Now().UnixNano()))
	defer os.RemoveAll(dir)
	cfg := dvid.NewConfig()
	cfg.Set("path", dir)
	dstStore, _, err := storage.NewStore(dvid.StoreConfig{Config: cfg, Engine: "badger"})
	if err != nil {
		t.Fatal(err)
	}
	defer dstStore.Close()
	mcfg := dvid.NewConfig()
	mcfg.Set("transmit", string(uuid1)+","+string(uuid2))
	done := make(chan bool)
	if err := datastore.MigrateInstance(uuid1, "roi", srcStore, dstStore, mcfg, done); err != nil {
		t.Fatal(err)
	}
	<-done

	// now serve the instance from the migrated store
	data.SetKVStore(dstStore)
	after1 := string(server.TestHTTP(t, "GET", req1, nil))
	after2 := string(server.TestHTTP(t, "GET", req2, nil))
	data.SetKVStore(srcStore)
	if after1 != before1 {
		t.Errorf("v1 differs: before %s after %s", before1, after1)
	}
	if after2 != before2 {
		t.Errorf("v2 differs:\n before %s\n after %s", before2, after2)
	}
}
