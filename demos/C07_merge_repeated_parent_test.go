package server

// Demonstration of a C07 defect at the pinned commit (drop into server, run with
//   go test -vet=off -count=1 -tags "badger filestore" -run TestMergeRefusesRepeatedParent ./server
//
// A merge whose parent list names one version twice is accepted: the child gets the same parent
// twice and the parent lists the child twice, so the DAG is no longer a simple graph.

import (
	"bytes"
	"encoding/json"
	"fmt"
	"testing"

	"github.com/janelia-flyem/dvid/datastore"
)

func TestMergeRefusesRepeatedParent(t *testing.T) {
	if err := OpenTest(); err != nil {
		t.Fatalf("can't open test server: %v\n", err)
	}
	defer CloseTest()

	root, _ := datastore.NewTestRepo()
	TestHTTP(t, "POST", fmt.Sprintf("%snode/%s/commit", WebAPIPath, root), bytes.NewBufferString(`{"note":"root"}`))
	out := TestHTTP(t, "POST", fmt.Sprintf("%snode/%s/branch", WebAPIPath, root), bytes.NewBufferString(`{"branch":"side"}`))
	var br struct {
		Child string `json:"child"`
	}
	if err := json.Unmarshal(out, &br); err != nil || br.Child == "" {
		t.Fatalf("branch: %s", out)
	}
	TestHTTP(t, "POST", fmt.Sprintf("%snode/%s/commit", WebAPIPath, br.Child), bytes.NewBufferString(`{"note":"side"}`))

	body := fmt.Sprintf(`{"mergeType":"conflict-free","parents":[%q,%q],"note":"twice"}`, br.Child, br.Child)
	resp := TestHTTPResponse(t, "POST", fmt.Sprintf("%srepo/%s/merge", WebAPIPath, root), bytes.NewBufferString(body))
	if resp.Code == 200 {
		info := TestHTTP(t, "GET", fmt.Sprintf("%srepo/%s/info", WebAPIPath, root), nil)
		var parsed struct {
			DAG struct {
				Nodes map[string]struct {
					Parents, Children []int
				}
			}
		}
		json.Unmarshal(info, &parsed)
		t.Errorf("a merge naming one parent twice was accepted (%s); the side node now has children %v", resp.Body.String(), parsed.DAG.Nodes[br.Child].Children)
	}
}
