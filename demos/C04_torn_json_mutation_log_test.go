package server

// Demonstration of a C04 defect at the pinned commit (drop into server, run with
//   go test -vet=off -count=1 -run TestTornJSONMutationLogStaysValidJSON ./server
//
// The JSON mutation log is an append-only protolog file.  After a crash that tears the last record,
// the readers must hand out exactly the records that were completely written.  The read loops only
// leave on io.EOF: the torn record (io.ErrUnexpectedEOF) is counted, a separator is written for it,
// and GET .../mutations answers `[{"a":1},]`, which is not JSON.

import (
	"bytes"
	"encoding/json"
	"os"
	"path"
	"testing"

	"github.com/janelia-flyem/dvid/dvid"
)

func TestTornJSONMutationLogStaysValidJSON(t *testing.T) {
	saved := tc.Mutations.Jsonstore
	defer func() { tc.Mutations.Jsonstore = saved }()
	version, data := dvid.UUID("0123456789abcdef0123456789abcdef"), dvid.UUID("fedcba9876543210fedcba9876543210")
	closeLogs := func() {
		jsonLogFilesMux.Lock()
		for k, lf := range jsonLogFiles {
			lf.f.Close()
			delete(jsonLogFiles, k)
		}
		jsonLogFilesMux.Unlock()
	}
	for cut := int64(1); cut < 16; cut++ {
		dir := t.TempDir()
		tc.Mutations.Jsonstore = dir
		if err := LogJSONMutation(version, data, []byte(`{"a":1}`)); err != nil {
			t.Fatal(err)
		}
		if err := LogJSONMutation(version, data, []byte(`{"b":2}`)); err != nil {
			t.Fatal(err)
		}
		fname := path.Join(dir, string(data)+"-"+string(version)+".plog")
		fi, err := os.Stat(fname)
		if err != nil {
			t.Fatal(err)
		}
		// the crash: the last record is torn; the restart: the file is opened again
		closeLogs()
		if err := os.Truncate(fname, fi.Size()-cut); err != nil {
			t.Fatal(err)
		}
		var buf bytes.Buffer
		err = StreamMutationsForVersion(&buf, version, data)
		var recs []map[string]int
		if jerr := json.Unmarshal(buf.Bytes(), &recs); jerr != nil {
			t.Errorf("last record torn by %d bytes: the mutation log reads as %q (error %v), which is not JSON: %v", cut, buf.String(), err, jerr)
		} else if len(recs) != 1 || recs[0]["a"] != 1 {
			t.Errorf("last record torn by %d bytes: got %v, expected exactly the first record", cut, recs)
		}
		closeLogs()
	}
}
