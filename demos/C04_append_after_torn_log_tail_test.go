package filelog

// Demonstration of a C04 defect at the pinned commit (drop into storage/filelog, run with
//   go test -vet=off -count=1 -run TestAppendAfterTornTail ./storage/filelog
//
// A crash can tear the last record of a log file.  The next process opens the file with O_APPEND and
// never looks at its tail, so the first acknowledged append after the restart is glued to the torn
// record: the reader returns an invented record made of both, and never returns the acknowledged one.

import (
	"bytes"
	"os"
	"path/filepath"
	"testing"

	"github.com/janelia-flyem/dvid/dvid"
	"github.com/janelia-flyem/dvid/storage"
)

func TestAppendAfterTornTail(t *testing.T) {
	dir := t.TempDir()
	var c dvid.Config
	c.SetAll(map[string]interface{}{"path": dir})
	var e Engine
	open := func() *fileLogs {
		store, _, err := e.NewStore(dvid.StoreConfig{Config: c, Engine: "filelog"})
		if err != nil {
			t.Fatalf("can't open filelog: %v", err)
		}
		return store.(*fileLogs)
	}
	dataID := dvid.UUID("11111111111111111111111111111111")
	version := dvid.UUID("22222222222222222222222222222222")
	r1 := storage.LogMessage{EntryType: 1, Data: bytes.Repeat([]byte{0xA1}, 20)}
	r2 := storage.LogMessage{EntryType: 2, Data: bytes.Repeat([]byte{0xA2}, 100)}
	r3 := storage.LogMessage{EntryType: 3, Data: bytes.Repeat([]byte{0xA3}, 60)}

	flogs := open()
	if err := flogs.Append(dataID, version, r1); err != nil {
		t.Fatal(err)
	}
	if err := flogs.Append(dataID, version, r2); err != nil {
		t.Fatal(err)
	}
	flogs.Close()

	// the crash tore r2 in the middle
	fname := filepath.Join(dir, string(dataID+"-"+version))
	if err := os.Truncate(fname, 6+20+6+50); err != nil {
		t.Fatal(err)
	}

	// the restart; r3 is appended and acknowledged
	flogs = open()
	defer flogs.Close()
	if err := flogs.Append(dataID, version, r3); err != nil {
		t.Fatal(err)
	}
	msgs, err := flogs.ReadAll(dataID, version)
	if err != nil {
		t.Fatal(err)
	}
	want := []storage.LogMessage{r1, r3}
	if len(msgs) != len(want) {
		t.Errorf("read %d records, expected %d (r1 and the acknowledged r3)", len(msgs), len(want))
	}
	for i, m := range msgs {
		if i >= len(want) || m.EntryType != want[i].EntryType || !bytes.Equal(m.Data, want[i].Data) {
			t.Errorf("record %d: type %d, %d bytes, starts %x … ends %x: not a record that was written", i, m.EntryType, len(m.Data), m.Data[:4], m.Data[len(m.Data)-4:])
		}
	}
}
