package labelmap

// Demonstration for the fix "a block write the store refuses still signs off": POST .../blocks on a store
// that queues writes (storage.KeyValueRequester, e.g. the cloud back ends) starts one goroutine per block
// that waits for the write's outcome; when the store reported an error the goroutine returned without
// calling Done() on the WaitGroup the request waits on, and the request — holding the instance's voxel
// mutex — never came back.
//
// Drop into datatype/labelmap and run:
//   go test -vet=off -count=1 -tags "badger filestore" -run TestRefusedBlockWriteEndsTheRequest ./datatype/labelmap

import (
	"bytes"
	"fmt"
	"testing"
	"time"

	"github.com/janelia-flyem/dvid/datastore"
	"github.com/janelia-flyem/dvid/dvid"
	"github.com/janelia-flyem/dvid/server"
	"github.com/janelia-flyem/dvid/storage"
)

// refusingStore is the instance's real store plus a request buffer whose queued writes all fail.
type refusingStore struct {
	storage.OrderedKeyValueDB
}

func (s refusingStore) NewBuffer(ctx storage.Context) storage.RequestBuffer {
	return &refusingBuffer{s.OrderedKeyValueDB}
}

type refusingBuffer struct {
	storage.OrderedKeyValueDB
}

func (b *refusingBuffer) ProcessList(ctx storage.Context, tkeys []storage.TKey, op *storage.ChunkOp, f storage.ChunkFunc) error {
	return nil
}

func (b *refusingBuffer) PutCallback(ctx storage.Context, tk storage.TKey, v []byte, ready chan error) error {
	ready <- fmt.Errorf("the back end refused the write")
	return nil
}

func (b *refusingBuffer) Flush() error { return nil }

func TestRefusedBlockWriteEndsTheRequest(t *testing.T) {
	if err := server.OpenTest(); err != nil {
		t.Fatalf("can't open test server: %v\n", err)
	}
	defer server.CloseTest()

	uuid, _ := datastore.NewTestRepo()
	server.CreateTestInstance(t, uuid, "labelmap", "labels", dvid.Config{})
	d, err := GetByUUIDName(uuid, "labels")
	if err != nil {
		t.Fatal(err)
	}
	real, err := datastore.GetOrderedKeyValueDB(d)
	if err != nil {
		t.Fatal(err)
	}
	d.SetKVStore(refusingStore{real})

	var buf bytes.Buffer
	writeTestInt32(t, &buf, 1)
	writeTestInt32(t, &buf, 2)
	writeTestInt32(t, &buf, 3)
	gzipped, err := loadTestData(t, testFiles[0]).b.CompressGZIP()
	if err != nil {
		t.Fatal(err)
	}
	writeTestInt32(t, &buf, int32(len(gzipped)))
	buf.Write(gzipped)

	done := make(chan struct{})
	go func() {
		defer close(done)
		req := fmt.Sprintf("%snode/%s/labels/blocks", server.WebAPIPath, uuid)
		server.TestHTTPResponse(t, "POST", req, &buf)
	}()
	select {
	case <-done:
	case <-time.After(10 * time.Second):
		t.Fatalf("POST blocks did not come back after the store refused the block's write: the request (and the instance's voxel mutex) is held for ever")
	}
}
