package roi

// Demonstration of a C20 defect at the pinned commit (drop into datatype/roi, run with
//   go test -vet=off -count=1 -tags "badger filestore" -run TestRejectedROIPostLeavesTheROI ./datatype/roi
//
// POST roi deletes the stored ROI and then checks each span as it writes it.  A request whose second
// span is malformed (x1 < x0) is answered 400 -- after the old ROI was deleted and before anything
// was committed: the refused request leaves an empty ROI behind.

import (
	"fmt"
	"testing"

	"github.com/janelia-flyem/dvid/datastore"
	"github.com/janelia-flyem/dvid/dvid"
	"github.com/janelia-flyem/dvid/server"
)

func TestRejectedROIPostLeavesTheROI(t *testing.T) {
	if err := server.OpenTest(); err != nil {
		t.Fatalf("can't open test server: %v\n", err)
	}
	defer server.CloseTest()
	uuid, _ := initTestRepo()
	dataservice, err := datastore.NewData(uuid, roitype, "roi", dvid.NewConfig())
	if err != nil {
		t.Fatalf("Error creating new roi instance: %v\n", err)
	}
	data := dataservice.(*Data)

	roiRequest := fmt.Sprintf("%snode/%s/%s/roi", server.WebAPIPath, uuid, data.DataName())
	server.TestHTTP(t, "POST", roiRequest, getSpansJSON(testSpans))
	server.TestBadHTTP(t, "POST", roiRequest, getSpansJSON([]dvid.Span{{0, 0, 0, 1}, {0, 0, 5, 3}}))
	ret := server.TestHTTP(t, "GET", roiRequest, nil)
	spans, err := putSpansJSON(ret)
	if err != nil {
		t.Fatal(err)
	}
	if len(spans) != len(testSpans) {
		t.Errorf("after a POST that was refused with an error the ROI has %d spans (it had %d): %s", len(spans), len(testSpans), string(ret))
	}
}
