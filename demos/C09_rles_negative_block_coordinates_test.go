package labels

// Demonstration of a C09/C20 defect at the pinned commit (drop into datatype/common/labels, run with
//   go test -vet=off -count=1 -run TestWriteRLEsAtNegativeBlockCoordinates ./datatype/common/labels
//
// The run-length view of a compressed block (sparse volumes) locates a voxel inside its sub-block
// with `v % SubBlockSize` on the DVID coordinate.  For a block at negative coordinates that remainder
// is negative, the bit position wraps around as uint32, and the writer panics with an index out of
// range.  The same block at positive coordinates gives the correct run.

import (
	"bytes"
	"testing"

	"github.com/janelia-flyem/dvid/dvid"
)

func TestWriteRLEsAtNegativeBlockCoordinates(t *testing.T) {
	defer func() {
		if r := recover(); r != nil {
			t.Errorf("panic: %v", r)
		}
	}()
	sz := dvid.Point3d{32, 32, 32}
	vol := make([]uint64, 32*32*32)
	// label 5 at x 3..5, y=2, z=1  (sub-block 0 multi label)
	for x := 3; x <= 5; x++ {
		vol[1*32*32+2*32+x] = 5
	}
	b, err := MakeBlock(dvid.AliasUint64ToByte(vol), sz)
	if err != nil {
		t.Fatal(err)
	}
	for _, c := range []dvid.ChunkPoint3d{{1, 1, 1}, {-1, -1, -1}} {
		var buf bytes.Buffer
		op := NewOutputOp(&buf)
		done := make(chan struct{})
		var perr interface{}
		go func() {
			defer func() {
				if r := recover(); r != nil {
					perr = r
					op.errCh <- nil
				}
				close(done)
			}()
			WriteRLEs(Set{5: struct{}{}}, op, dvid.Bounds{})
		}()
		pb := PositionedBlock{Block: *b, BCoord: c.ToIZYXString()}
		op.Process(&pb)
		if err := op.Finish(); err != nil {
			t.Errorf("coord %s: err %v", c, err)
		}
		<-done
		if perr != nil {
			t.Errorf("coord %s: panic in WriteRLEs: %v", c, perr)
			continue
		}
		var rles dvid.RLEs
		if err := rles.UnmarshalBinary(buf.Bytes()); err != nil {
			t.Errorf("coord %s: %v", c, err)
		}
		t.Logf("coord %s: rles %v", c, rles)
		off := dvid.Point3d{c[0] * 32, c[1] * 32, c[2] * 32}
		exp := dvid.NewRLE(dvid.Point3d{off[0] + 3, off[1] + 2, off[2] + 1}, 3)
		if len(rles) != 1 || rles[0] != exp {
			t.Errorf("coord %s: expected [%s], got %v", c, exp, rles)
		}
	}
}

