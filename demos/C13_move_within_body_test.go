package labelsz

// Demonstration of a C13 defect at the pinned commit (drop into datatype/labelsz, run with
//   go test -vet=off -count=1 -tags "badger filestore" -run TestMoveWithinBodyUpdatesLabelIndex ./datatype/labelsz
//
// An annotation synced to a labelmap keeps a per-body list label/<l>.  Moving an element to another
// voxel of the same body must leave that list agreeing with the element store.

import (
	"encoding/json"
	"fmt"
	"strings"
	"testing"

	"github.com/janelia-flyem/dvid/datastore"
	"github.com/janelia-flyem/dvid/datatype/annotation"
	"github.com/janelia-flyem/dvid/dvid"
	"github.com/janelia-flyem/dvid/server"
)

func TestMoveWithinBodyUpdatesLabelIndex(t *testing.T) {
	if err := server.OpenTest(); err != nil {
		t.Fatalf("can't open test server: %v\n", err)
	}
	defer server.CloseTest()

	uuid, _ := datastore.NewTestRepo()
	var config dvid.Config
	server.CreateTestInstance(t, uuid, "labelmap", "labels", config)
	_ = createLabelTestVolume(t, uuid, "labels") // label 100: x<64; 200: x>=64,z<64; 300: x>=64,z>=64
	if err := datastore.BlockOnUpdating(uuid, "labels"); err != nil {
		t.Fatalf("Error blocking on sync of labels: %v\n", err)
	}
	server.CreateTestInstance(t, uuid, "annotation", "mysynapses", config)
	server.CreateTestSync(t, uuid, "mysynapses", "labels")

	elems := annotation.Elements{{
		ElementNR: annotation.ElementNR{Pos: dvid.Point3d{10, 10, 10}, Kind: annotation.PreSyn},
		Rels:      annotation.Relationships{},
	}}
	testJSON, _ := json.Marshal(elems)
	server.TestHTTP(t, "POST", fmt.Sprintf("%snode/%s/mysynapses/elements", server.WebAPIPath, uuid), strings.NewReader(string(testJSON)))
	if err := datastore.BlockOnUpdating(uuid, "mysynapses"); err != nil {
		t.Fatal(err)
	}

	// both voxels are in body 100
	server.TestHTTP(t, "POST", fmt.Sprintf("%snode/%s/mysynapses/move/10_10_10/20_12_14", server.WebAPIPath, uuid), nil)
	if err := datastore.BlockOnUpdating(uuid, "mysynapses"); err != nil {
		t.Fatal(err)
	}

	var inStore, inLabel annotation.Elements
	r := server.TestHTTP(t, "GET", fmt.Sprintf("%snode/%s/mysynapses/elements/64_64_64/0_0_0", server.WebAPIPath, uuid), nil)
	if err := json.Unmarshal(r, &inStore); err != nil || len(inStore) != 1 {
		t.Fatalf("elements: %s (%v)", string(r), err)
	}
	if !inStore[0].Pos.Equals(dvid.Point3d{20, 12, 14}) {
		t.Fatalf("element store has the element at %s, expected 20,12,14", inStore[0].Pos)
	}
	r = server.TestHTTP(t, "GET", fmt.Sprintf("%snode/%s/mysynapses/label/100", server.WebAPIPath, uuid), nil)
	if err := json.Unmarshal(r, &inLabel); err != nil {
		t.Fatalf("label/100: %s (%v)", string(r), err)
	}
	if len(inLabel) != 1 || !inLabel[0].Pos.Equals(inStore[0].Pos) {
		t.Errorf("after a move inside body 100 the element store has the element at %s but label/100 returns %s", inStore[0].Pos, string(r))
	}
}
