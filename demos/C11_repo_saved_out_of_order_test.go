package keyvalue

// Demonstration of a C11/C03 defect at the pinned commit (drop into datatype/keyvalue, run with
//   go test -vet=off -count=3 -tags "badger filestore" -run TestRepoLogSavedInOrder ./datatype/keyvalue
//
// Every change of the repo metadata ends with r.save(), which takes a snapshot of the repo (gob) and
// then writes it, with no lock across the two.  Of two concurrent requests the one with the older
// snapshot can write last: both are acknowledged, and after the next start the change of the other
// is gone.  (The race is narrow: the agent that found it lost lines in 1 to 7 of 25 rounds per run.)
import (
	"bytes"
	"encoding/json"
	"fmt"
	"net/http"
	"net/http/httptest"
	"strings"
	"sync"
	"testing"

	"github.com/janelia-flyem/dvid/datastore"
	"github.com/janelia-flyem/dvid/server"
)

func probeReq(method, url string, body []byte) (int, string) {
	req, err := http.NewRequest(method, url, bytes.NewReader(body))
	if err != nil {
		return -1, err.Error()
	}
	w := httptest.NewRecorder()
	server.ServeSingleHTTP(w, req)
	return w.Code, w.Body.String()
}

func TestRepoLogSavedInOrder(t *testing.T) {
	if err := server.OpenTest(); err != nil {
		t.Fatalf("can't open test server: %v\n", err)
	}
	defer server.CloseTest()
	uuid, _ := initTestRepo()

	const n = 16
	rounds, lostRounds, lostLines := 25, 0, 0
	for round := 0; round < rounds; round++ {
		var wg sync.WaitGroup
		start := make(chan struct{})
		for i := 0; i < n; i++ {
			wg.Add(1)
			go func(i int) {
				defer wg.Done()
				<-start
				var url string
				if i%2 == 0 {
					url = fmt.Sprintf("%srepo/%s/log", server.WebAPIPath, uuid)
				} else {
					url = fmt.Sprintf("%snode/%s/log", server.WebAPIPath, uuid)
				}
				body := []byte(fmt.Sprintf(`{"log":["r%d-line%d"]}`, round, i))
				if code, resp := probeReq("POST", url, body); code != http.StatusOK {
					t.Errorf("POST log: %d %s", code, resp)
				}
			}(i)
		}
		close(start)
		wg.Wait()

		datastore.CloseReopenTest()

		_, repolog := probeReq("GET", fmt.Sprintf("%srepo/%s/log", server.WebAPIPath, uuid), nil)
		_, nodelog := probeReq("GET", fmt.Sprintf("%snode/%s/log", server.WebAPIPath, uuid), nil)
		var rl, nl struct{ Log []string }
		json.Unmarshal([]byte(repolog), &rl)
		json.Unmarshal([]byte(nodelog), &nl)
		all := strings.Join(rl.Log, "\n") + "\n" + strings.Join(nl.Log, "\n") + "\n"
		lost := 0
		for i := 0; i < n; i++ {
			if !strings.Contains(all, fmt.Sprintf("r%d-line%d\n", round, i)) {
				lost++
			}
		}
		if lost != 0 {
			lostRounds++
			lostLines += lost
		}
	}
	t.Logf("concurrent repo/node log POSTs then restart: %d rounds of %d acknowledged lines, %d rounds lost lines (%d lines in all)", rounds, n, lostRounds, lostLines)
	if lostRounds != 0 {
		t.Errorf("acknowledged log lines missing after reload")
	}
}

