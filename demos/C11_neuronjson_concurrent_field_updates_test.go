package neuronjson

// Demonstration of a C11 defect at the pinned commit (drop into datatype/neuronjson, run with
//   go test -vet=off -count=1 -tags "badger filestore" -run TestConcurrentFieldUpdatesOneBody ./datatype/neuronjson
//
// Eight acknowledged POSTs to one body id, each setting a different field, must all be in the
// record afterwards, in memory (head) and in the store alike.

import (
	"encoding/json"
	"fmt"
	"strings"
	"sync"
	"testing"

	"github.com/janelia-flyem/dvid/datastore"
	"github.com/janelia-flyem/dvid/dvid"
	"github.com/janelia-flyem/dvid/server"
)

func TestConcurrentFieldUpdatesOneBody(t *testing.T) {
	if err := server.OpenTest(); err != nil {
		t.Fatalf("can't open test server: %v\n", err)
	}
	defer server.CloseTest()

	uuid, _ := initTestRepo()
	server.CreateTestInstance(t, uuid, "neuronjson", "neurons", dvid.Config{})
	const N = 8
	for round := 0; round < 30 && !t.Failed(); round++ {
		id := 100 + round
		server.TestHTTP(t, "POST", fmt.Sprintf("%snode/%s/neurons/key/%d?u=frank", server.WebAPIPath, uuid, id), strings.NewReader(fmt.Sprintf(`{"bodyid": %d}`, id)))
		start := make(chan struct{})
		var wg sync.WaitGroup
		for i := 0; i < N; i++ {
			wg.Add(1)
			go func(i int) {
				defer wg.Done()
				<-start
				body := fmt.Sprintf(`{"bodyid": %d, "f%d": "v%d"}`, id, i, i)
				resp := server.TestHTTPResponse(t, "POST", fmt.Sprintf("%snode/%s/neurons/key/%d?u=frank", server.WebAPIPath, uuid, id), strings.NewReader(body))
				if resp.Code != 200 {
					t.Errorf("POST: %d %s", resp.Code, resp.Body.String())
				}
			}(i)
		}
		close(start)
		wg.Wait()
		r := server.TestHTTP(t, "GET", fmt.Sprintf("%snode/%s/neurons/key/%d", server.WebAPIPath, uuid, id), nil)
		var rec map[string]interface{}
		if err := json.Unmarshal(r, &rec); err != nil {
			t.Fatal(err)
		}
		missing := 0
		for i := 0; i < N; i++ {
			if rec[fmt.Sprintf("f%d", i)] != fmt.Sprintf("v%d", i) {
				missing++
			}
		}
		if missing > 0 {
			t.Errorf("round %d: %d of %d acknowledged field updates of body %d are not in the record: %s", round, missing, N, id, string(r))
		}
	}
	_ = datastore.Commit
}
