package keyvalue

// Demonstration of a C01 defect at the pinned commit (drop into datatype/keyvalue, run with
//   go test -vet=off -count=1 -tags "badger filestore" -run TestC01ThreeParentMergeDeletedCandidate ./datatype/keyvalue
//
//          R
//        / | 
//       A  B           A: key = "a"      B: key = "b"
//       |  | \
//       |  E  D        D: key deleted    E: nothing written (inherits B)
//        \ | /
//          M           merge of (A, E, D)
//
// At M the candidates are "a"@A and "b"@B; D's lineage deleted "b", so the one live value
// that no other lineage has superseded or deleted is "a".

import (
	"fmt"
	"strings"
	"testing"

	"github.com/janelia-flyem/dvid/datastore"
	"github.com/janelia-flyem/dvid/dvid"
	"github.com/janelia-flyem/dvid/server"
)

func TestC01ThreeParentMergeDeletedCandidate(t *testing.T) {
	if err := server.OpenTest(); err != nil {
		t.Fatalf("can't open test server: %v\n", err)
	}
	defer server.CloseTest()

	root, _ := initTestRepo()
	dataservice, err := datastore.NewData(root, kvtype, "c01tpm", dvid.NewConfig())
	if err != nil {
		t.Fatalf("Error creating new keyvalue instance: %v\n", err)
	}
	name := dataservice.DataName()
	keyURL := func(uuid dvid.UUID) string {
		return fmt.Sprintf("%snode/%s/%s/key/thekey", server.WebAPIPath, uuid, name)
	}
	if err = datastore.Commit(root, "root", nil); err != nil {
		t.Fatalf("commit root: %v", err)
	}
	newv := func(parent dvid.UUID, branch string) dvid.UUID {
		u, err := datastore.NewVersion(parent, "v", branch, nil)
		if err != nil {
			t.Fatalf("new version on %s: %v", parent, err)
		}
		return u
	}
	commit := func(u dvid.UUID) {
		if err := datastore.Commit(u, "c", nil); err != nil {
			t.Fatalf("commit %s: %v", u, err)
		}
	}
	uuidA := newv(root, "")
	server.TestHTTP(t, "POST", keyURL(uuidA), strings.NewReader("a"))
	commit(uuidA)
	uuidB := newv(root, "b")
	server.TestHTTP(t, "POST", keyURL(uuidB), strings.NewReader("b"))
	commit(uuidB)
	uuidE := newv(uuidB, "")
	commit(uuidE)
	uuidD := newv(uuidB, "d")
	server.TestHTTP(t, "DELETE", keyURL(uuidD), nil)
	commit(uuidD)

	if got := string(server.TestHTTP(t, "GET", keyURL(uuidE), nil)); got != "b" {
		t.Fatalf("read at E: expected b, got %q", got)
	}
	if resp := server.TestHTTPResponse(t, "GET", keyURL(uuidD), nil); resp.Code != 404 {
		t.Fatalf("read at D: expected 404, got %d %q", resp.Code, resp.Body.String())
	}

	for _, parents := range [][]dvid.UUID{{uuidA, uuidE, uuidD}, {uuidE, uuidA, uuidD}, {uuidD, uuidE, uuidA}, {uuidD, uuidA, uuidE}, {uuidE, uuidD, uuidA}, {uuidA, uuidD, uuidE}} {
		m, err := datastore.Merge(parents, "merge", datastore.MergeConflictFree)
		if err != nil {
			t.Fatalf("merge %v: %v", parents, err)
		}
		resp := server.TestHTTPResponse(t, "GET", keyURL(m), nil)
		if resp.Code == 200 && resp.Body.String() == "b" {
			t.Errorf("read at merge of %v succeeded with the deleted value \"b\"", parents)
		} else if resp.Code != 200 || resp.Body.String() != "a" {
			t.Errorf("read at merge of %v: expected a, got %d %q", parents, resp.Code, resp.Body.String())
		}
	}
}
