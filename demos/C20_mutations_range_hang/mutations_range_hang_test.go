package keyvalue

// Demonstration for R20.46 (the producer of a ranged-over channel closes it on every exit).  Drop
// into datatype/keyvalue and run
//   go test -vet=off -count=1 -tags "badger filestore" -run TestDemoMutationsRangeHang ./datatype/keyvalue
// Before the fix GET <instance>/mutations-range/<uuid>/<uuid> never answered on a server without a
// [mutations] jsonstore (the default): sendMutations returned its error without closing the channel
// that StreamMutationsForSequence ranges over.

import (
	"fmt"
	"net/http"
	"net/http/httptest"
	"testing"
	"time"

	"github.com/janelia-flyem/dvid/dvid"
	"github.com/janelia-flyem/dvid/server"
)

func TestDemoMutationsRangeHang(t *testing.T) {
	if err := server.OpenTest(); err != nil {
		t.Fatalf("can't open test server: %v\n", err)
	}
	defer server.CloseTest()
	uuid, _ := initTestRepo()
	server.CreateTestInstance(t, uuid, "keyvalue", "kv", dvid.NewConfig())
	base := fmt.Sprintf("%snode/%s/kv/", server.WebAPIPath, uuid)

	done := make(chan int, 1)
	go func() {
		req, _ := http.NewRequest("GET", base+"mutations-range/"+string(uuid)+"/"+string(uuid), nil)
		w := httptest.NewRecorder()
		server.ServeSingleHTTP(w, req)
		done <- w.Code
	}()
	select {
	case code := <-done:
		t.Logf("request returned %d", code)
	case <-time.After(5 * time.Second):
		t.Errorf("mutations-range request still blocked after 5 seconds")
	}
}
