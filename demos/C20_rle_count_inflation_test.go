package dvid

// Demonstration of a C20 defect at the pinned commit (drop into dvid, run with
//   go test -vet=off -count=1 -run TestRLECountInflation ./dvid
//
// The binary sparse-volume payload (POST split/<label>, split-supervoxel, …) starts with a span count.
// A 12-byte body that claims 2^32−1 spans must be refused as truncated, not answered by allocating
// 64 GiB (on the unrepaired tree the runtime aborts the process with "out of memory", or the
// machine starts swapping, depending on its overcommit setting).

import (
	"bytes"
	"encoding/binary"
	"runtime"
	"testing"
)

func TestRLECountInflation(t *testing.T) {
	var buf bytes.Buffer
	buf.Write([]byte{EncodingBinary, 3, 0, 0, 0, 0, 0, 0})
	binary.Write(&buf, binary.LittleEndian, uint32(0xFFFFFFFF))
	var before, after runtime.MemStats
	runtime.ReadMemStats(&before)
	_, err := ReadRLEs(&buf)
	runtime.ReadMemStats(&after)
	if err == nil {
		t.Fatalf("a 12-byte payload claiming 2^32-1 spans was accepted")
	}
	if grown := after.TotalAlloc - before.TotalAlloc; grown > 1<<30 {
		t.Errorf("decoding a 12-byte payload allocated %d MiB", grown>>20)
	}
}
