package labelmap

// Demonstration of a C20 defect at the pinned commit (drop into datatype/labelmap, run with
//   go test -vet=off -count=1 -tags "badger filestore" -run TestWriteAfterRaisingMaxDownresLevel ./datatype/labelmap
//
// POST .../info {"MaxDownresLevel": "2"} on an instance created with one down-res level changes the
// level but not the table of per-scale update counters, which was sized for the old level.  The next
// voxel write indexes the table at scale 2: index out of range, answered as a 500 by the recover
// middleware (and a crash where it happens in a worker goroutine).

import (
	"bytes"
	"fmt"
	"testing"

	"github.com/janelia-flyem/dvid/datatype/common/downres"
	"github.com/janelia-flyem/dvid/dvid"
	"github.com/janelia-flyem/dvid/server"
)

func TestWriteAfterRaisingMaxDownresLevel(t *testing.T) {
	if err := server.OpenTest(); err != nil {
		t.Fatalf("can't open test server: %v\n", err)
	}
	defer server.CloseTest()

	uuid, _ := initTestRepo()
	var config dvid.Config
	config.Set("MaxDownresLevel", "1")
	config.Set("BlockSize", "32,32,32")
	server.CreateTestInstance(t, uuid, "labelmap", "labels", config)

	vol := newTestVolume(64, 64, 64)
	vol.addSubvol(dvid.Point3d{0, 0, 0}, dvid.Point3d{64, 64, 64}, 7)
	post := func(x int) (code int) {
		defer func() {
			if e := recover(); e != nil {
				t.Errorf("the voxel write at x=%d panicked: %v", x, e)
				code = 500
			}
		}()
		url := fmt.Sprintf("%snode/%s/labels/raw/0_1_2/64_64_64/%d_0_0", server.WebAPIPath, uuid, x)
		return server.TestHTTPResponse(t, "POST", url, bytes.NewBuffer(vol.data)).Code
	}
	if code := post(0); code != 200 {
		t.Fatalf("first write: %d", code)
	}
	if err := downres.BlockOnUpdating(uuid, "labels"); err != nil {
		t.Fatal(err)
	}
	server.TestHTTP(t, "POST", fmt.Sprintf("%snode/%s/labels/info", server.WebAPIPath, uuid), bytes.NewBufferString(`{"MaxDownresLevel":"2"}`))
	if code := post(64); code != 200 {
		t.Errorf("a voxel write after MaxDownresLevel was raised from 1 to 2 is answered with status %d", code)
	}
}
