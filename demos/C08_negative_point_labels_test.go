package labelmap

// Demonstration of a C08/C20 defect at the pinned commit (drop into datatype/labelmap, run with
//   go test -vet=off -count=1 -tags "badger filestore" -run TestNegativeCoordinatePointLabels ./datatype/labelmap
//
// A 128x64x64 label volume is stored at offset (-64,0,0): block (-1,0,0) is label 7 except for a
// two-label sub-block, block (0,0,0) is label 9.  GET label/<pt> (single point) resolves negative
// coordinates with Chunk/PointInChunk; GET labels (many points) must agree with it.

import (
	"bytes"
	"encoding/json"
	"fmt"
	"testing"

	"github.com/janelia-flyem/dvid/datastore"
	"github.com/janelia-flyem/dvid/dvid"
	"github.com/janelia-flyem/dvid/server"
)

func TestNegativeCoordinatePointLabels(t *testing.T) {
	if err := server.OpenTest(); err != nil {
		t.Fatalf("can't open test server: %v\n", err)
	}
	defer server.CloseTest()

	uuid, _ := initTestRepo()
	var config dvid.Config
	server.CreateTestInstance(t, uuid, "labelmap", "labels", config)

	vol := newTestVolume(128, 64, 64)
	vol.addSubvol(dvid.Point3d{0, 0, 0}, dvid.Point3d{64, 64, 64}, 7)
	vol.addSubvol(dvid.Point3d{64, 0, 0}, dvid.Point3d{64, 64, 64}, 9)
	vol.addSubvol(dvid.Point3d{0, 0, 0}, dvid.Point3d{4, 8, 8}, 5)   // makes sub-block 0 of block (-1,0,0) two-label
	vol.addSubvol(dvid.Point3d{56, 8, 0}, dvid.Point3d{4, 8, 8}, 6)  // voxels x=-8..-5, y=8..15
	apiStr := fmt.Sprintf("%snode/%s/labels/raw/0_1_2/128_64_64/-64_0_0", server.WebAPIPath, uuid)
	server.TestHTTP(t, "POST", apiStr, bytes.NewBuffer(vol.data))
	if err := datastore.BlockOnUpdating(uuid, "labels"); err != nil {
		t.Fatalf("Error blocking on sync of labels: %v\n", err)
	}

	pts := [][3]int32{{-1, 5, 5}, {-64, 0, 0}, {-60, 3, 3}, {-1, 8, 0}, {-7, 9, 1}, {-3, 9, 1}, {3, 3, 3}}
	expected := []uint64{7, 5, 7, 7, 6, 7, 9}
	for i, pt := range pts {
		r := server.TestHTTP(t, "GET", fmt.Sprintf("%snode/%s/labels/label/%d_%d_%d", server.WebAPIPath, uuid, pt[0], pt[1], pt[2]), nil)
		var one struct{ Label uint64 }
		if err := json.Unmarshal(r, &one); err != nil || one.Label != expected[i] {
			t.Fatalf("GET label/%v: expected %d, got %s (%v)", pt, expected[i], string(r), err)
		}
	}
	body, _ := json.Marshal(pts)
	resp := server.TestHTTPResponse(t, "GET", fmt.Sprintf("%snode/%s/labels/labels", server.WebAPIPath, uuid), bytes.NewBuffer(body))
	if resp.Code != 200 {
		t.Fatalf("GET labels %s: status %d: %s", string(body), resp.Code, resp.Body.String())
	}
	var got []uint64
	if err := json.Unmarshal(resp.Body.Bytes(), &got); err != nil {
		t.Fatalf("GET labels: bad response %s", resp.Body.String())
	}
	for i := range pts {
		if i >= len(got) || got[i] != expected[i] {
			t.Errorf("GET labels: point %v: expected label %d (what GET label/%d_%d_%d returns), got %v", pts[i], expected[i], pts[i][0], pts[i][1], pts[i][2], got)
			break
		}
	}
}
