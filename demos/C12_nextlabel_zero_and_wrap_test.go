package labelmap

// Demonstration of a C12 defect at the pinned commit (drop into datatype/labelmap, run with
//   go test -vet=off -count=1 -tags "badger filestore" -run TestNextLabelZeroAndWrap ./datatype/labelmap
//
// POST nextlabel/0 and a count that overflows the 64-bit label space must be refused; in no case may
// the label counter move backwards (labels already in the volume would be issued again).

import (
	"encoding/json"
	"fmt"
	"testing"

	"github.com/janelia-flyem/dvid/datastore"
	"github.com/janelia-flyem/dvid/dvid"
	"github.com/janelia-flyem/dvid/server"
)

func TestNextLabelZeroAndWrap(t *testing.T) {
	if err := server.OpenTest(); err != nil {
		t.Fatalf("can't open test server: %v\n", err)
	}
	defer server.CloseTest()

	uuid, _ := initTestRepo()
	var config dvid.Config
	server.CreateTestInstance(t, uuid, "labelmap", "labels", config)
	vol := newTestVolume(64, 64, 64)
	vol.addSubvol(dvid.Point3d{0, 0, 0}, dvid.Point3d{64, 64, 64}, 500)
	vol.put(t, uuid, "labels")
	if err := datastore.BlockOnUpdating(uuid, "labels"); err != nil {
		t.Fatal(err)
	}
	next := func(n string) (int, uint64, uint64) {
		resp := server.TestHTTPResponse(t, "POST", fmt.Sprintf("%snode/%s/labels/nextlabel/%s", server.WebAPIPath, uuid, n), nil)
		var nl struct {
			Start uint64 `json:"start"`
			End   uint64 `json:"end"`
		}
		json.Unmarshal(resp.Body.Bytes(), &nl)
		return resp.Code, nl.Start, nl.End
	}
	if code, s, e := next("0"); code == 200 {
		t.Errorf("POST nextlabel/0 answered 200 with the range [%d, %d]", s, e)
	}
	if code, s, e := next("18446744073709551615"); code == 200 {
		t.Errorf("POST nextlabel/18446744073709551615 answered 200 with the range [%d, %d]", s, e)
	}
	if code, s, _ := next("1"); code != 200 || s <= 500 {
		t.Errorf("after the two requests above POST nextlabel/1 answers %d with label %d although label 500 is in the volume", code, s)
	}
}
