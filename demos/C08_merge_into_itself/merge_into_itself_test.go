package labelmap

// Demonstration for R8.21 / R20.52.  Drop into datatype/labelmap and run
//   go test -vet=off -count=1 -tags "badger filestore" -run TestDemoMergeIntoItself ./datatype/labelmap
// Before the fix POST merge [1,2,1] was refused (400) by the index step only after supervoxel 2 had
// been remapped to body 1: the request failed, yet label/<point of body 2> answered 1 while index 2
// still held its blocks.

import (
	"bytes"
	"fmt"
	"testing"

	"github.com/janelia-flyem/dvid/datastore"
	"github.com/janelia-flyem/dvid/dvid"
	"github.com/janelia-flyem/dvid/server"
)

func TestDemoMergeIntoItself(t *testing.T) {
	if err := server.OpenTest(); err != nil {
		t.Fatalf("can't open test server: %v\n", err)
	}
	defer server.CloseTest()
	uuid, _ := initTestRepo()
	server.CreateTestInstance(t, uuid, "labelmap", "labels", dvid.NewConfig())
	vol := newTestVolume(128, 128, 128)
	vol.addSubvol(dvid.Point3d{40, 40, 40}, dvid.Point3d{20, 20, 20}, 1)
	vol.addSubvol(dvid.Point3d{70, 40, 40}, dvid.Point3d{20, 20, 20}, 2)
	vol.put(t, uuid, "labels")
	if err := datastore.BlockOnUpdating(uuid, "labels"); err != nil {
		t.Fatalf("block on updating: %v", err)
	}
	base := fmt.Sprintf("%snode/%s/labels/", server.WebAPIPath, uuid)
	before := string(server.TestHTTP(t, "GET", base+"label/75_45_45", nil))
	resp := server.TestHTTPResponse(t, "POST", base+"merge", bytes.NewBufferString("[1, 2, 1]"))
	if resp.Code == 200 {
		t.Fatalf("merge of body 1 into itself was accepted")
	}
	after := string(server.TestHTTP(t, "GET", base+"label/75_45_45", nil))
	if before != after {
		t.Errorf("the merge was refused (%d) but the voxel of body 2 now reads %s (was %s)", resp.Code, after, before)
	}
}
