package neuronjson

// Demonstration for the loadFromKV repair (R16.2 with the narrowed loader exception).  Drop into
// datatype/neuronjson and run
//   go test -vet=off -count=1 -tags "badger filestore" -run TestDemoImportKV ./datatype/neuronjson
// Before the fix an import from a keyvalue instance (RPC import-kv) listed a body id twice when the
// annotation already existed, stored values that cannot be decoded as annotations (so the store held
// what the in-memory head did not), and changed the in-memory database without its lock.

import (
	"bytes"
	"fmt"
	"strings"
	"testing"

	"github.com/janelia-flyem/dvid/datastore"
	"github.com/janelia-flyem/dvid/datatype/keyvalue"
	"github.com/janelia-flyem/dvid/dvid"
	"github.com/janelia-flyem/dvid/server"
)

func TestDemoImportKV(t *testing.T) {
	if err := server.OpenTest(); err != nil {
		t.Fatalf("can't open test server: %v\n", err)
	}
	defer server.CloseTest()
	uuid, v := initTestRepo()
	server.CreateTestInstance(t, uuid, "keyvalue", "src", dvid.NewConfig())
	server.CreateTestInstance(t, uuid, "neuronjson", "ann", dvid.NewConfig())
	kvbase := fmt.Sprintf("%snode/%s/src/", server.WebAPIPath, uuid)
	njbase := fmt.Sprintf("%snode/%s/ann/", server.WebAPIPath, uuid)
	server.TestHTTP(t, "POST", kvbase+"key/10", bytes.NewBufferString(`{"bodyid": 10, "status": "imported"}`))
	server.TestHTTP(t, "POST", kvbase+"key/20", bytes.NewBufferString(`this is not JSON`))
	server.TestHTTP(t, "POST", njbase+"key/10?u=demo", bytes.NewBufferString(`{"bodyid": 10, "status": "old"}`))

	ds, err := datastore.GetDataByUUIDName(uuid, "ann")
	if err != nil {
		t.Fatal(err)
	}
	src, err := keyvalue.GetByUUIDName(uuid, "src")
	if err != nil {
		t.Fatal(err)
	}
	ds.(*Data).loadFromKV(v, src)

	keys := string(server.TestHTTP(t, "GET", njbase+"keys", nil))
	if strings.Count(keys, `"10"`) != 1 {
		t.Errorf("body 10 should be listed once after the import, got %s", keys)
	}
	// what the store holds: visible after a restart
	datastore.CloseReopenTest()
	keys = string(server.TestHTTP(t, "GET", njbase+"keys", nil))
	if strings.Contains(keys, `"20"`) {
		t.Errorf("the value of key 20 cannot be decoded as an annotation but was stored: keys after restart %s", keys)
	}
}
