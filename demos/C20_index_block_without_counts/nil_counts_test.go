package labels

// Demonstration for R20.56 / R8.22.  Drop into datatype/common/labels and run
//   go test -vet=off -count=1 -run TestDemoModifyBlocksNilCounts ./datatype/common/labels
// A label index can hold a block entry without counts (POST index accepts one; the protobuf decodes it to
// a nil map).  Before the fix the next voxel change in that block panicked in Index.ModifyBlocks with
// "assignment to entry in nil map".

import (
	"testing"

	"github.com/janelia-flyem/dvid/datatype/common/proto"
	"github.com/janelia-flyem/dvid/dvid"
)

func TestDemoModifyBlocksNilCounts(t *testing.T) {
	defer func() {
		if r := recover(); r != nil {
			t.Fatalf("ModifyBlocks panicked: %v", r)
		}
	}()
	izyx := dvid.ChunkPoint3d{1, 2, 3}.ToIZYXString()
	zyx, err := IZYXStringToBlockIndex(izyx)
	if err != nil {
		t.Fatal(err)
	}
	idx := new(Index)
	idx.Label = 7
	idx.Blocks = map[uint64]*proto.SVCount{zyx: {}} // entry without counts, as decoded from a posted index
	sc := SupervoxelChanges{7: {izyx: 5}}
	if err := idx.ModifyBlocks(7, sc); err != nil {
		t.Fatalf("ModifyBlocks: %v", err)
	}
	if got := idx.Blocks[zyx].Counts[7]; got != 5 {
		t.Errorf("expected 5 voxels of supervoxel 7 in the block, got %d", got)
	}
}
