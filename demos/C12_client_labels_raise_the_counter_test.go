package labelmap

// Demonstration of a C12 defect at the pinned commit (drop into datatype/labelmap, run with
//   go test -vet=off -count=1 -tags "badger filestore" -run TestClientChosenBodyLabelsRaiseTheCounter ./datatype/labelmap
//
// A label the server hands out (nextlabel, cleave, split) must not be in use.  Body labels chosen by
// a client enter through POST mappings and POST renumber; when they lie above the label counter the
// counter must be raised, or the server later hands the same label out as "new".

import (
	"bytes"
	"encoding/json"
	"fmt"
	"testing"

	pb "google.golang.org/protobuf/proto"

	"github.com/janelia-flyem/dvid/datastore"
	"github.com/janelia-flyem/dvid/datatype/common/proto"
	"github.com/janelia-flyem/dvid/dvid"
	"github.com/janelia-flyem/dvid/server"
)

func TestClientChosenBodyLabelsRaiseTheCounter(t *testing.T) {
	if err := server.OpenTest(); err != nil {
		t.Fatalf("can't open test server: %v\n", err)
	}
	defer server.CloseTest()

	uuid, _ := initTestRepo()
	var config dvid.Config
	config.Set("BlockSize", "32,32,32")
	server.CreateTestInstance(t, uuid, "labelmap", "labels", config)
	api := fmt.Sprintf("%snode/%s/labels/", server.WebAPIPath, uuid)

	vol := newTestVolume(128, 32, 32)
	for i := int32(0); i < 4; i++ {
		vol.addSubvol(dvid.Point3d{32 * i, 0, 0}, dvid.Point3d{32, 32, 32}, uint64(i+1))
	}
	vol.put(t, uuid, "labels")
	if err := datastore.BlockOnUpdating(uuid, "labels"); err != nil {
		t.Fatal(err)
	}
	next := func() uint64 {
		resp := server.TestHTTP(t, "POST", api+"nextlabel/1", nil)
		var r struct {
			Start uint64 `json:"start"`
		}
		if err := json.Unmarshal(resp, &r); err != nil {
			t.Fatalf("nextlabel: %v: %s", err, resp)
		}
		return r.Start
	}

	// POST mappings: supervoxels 1 and 2 become body 1000
	ops := proto.MappingOps{Mappings: []*proto.MappingOp{{Mutid: 1, Mapped: 1000, Original: []uint64{1, 2}}}}
	ser, err := pb.Marshal(&ops)
	if err != nil {
		t.Fatal(err)
	}
	server.TestHTTP(t, "POST", api+"mappings", bytes.NewBuffer(ser))
	if got := next(); got <= 1000 {
		t.Errorf("after POST mappings made body 1000, nextlabel handed out %d", got)
	}

	// POST renumber: body 3 becomes body 5000
	server.TestHTTP(t, "POST", api+"renumber", bytes.NewBufferString("[5000, 3]"))
	if got := next(); got <= 5000 {
		t.Errorf("after POST renumber made body 5000, nextlabel handed out %d", got)
	}
}
