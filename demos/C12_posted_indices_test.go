package labelmap

// Demonstration of two defects at the pinned commit (drop into datatype/labelmap, run with
//   go test -vet=off -count=1 -tags "badger filestore" -run "TestRefusedIndexBatchStoresNothing|TestPostedIndexRaisesCounterAboveItsSupervoxels" ./datatype/labelmap
//
// C20/C12: POST indices validates each index just before it stores it.  A batch whose second index
// is malformed (label 0) is refused with 400 after the first index was stored -- and the label
// counter, which is raised after the loop, never hears of the stored label.
//
// C12: supervoxel ids and body labels come from one counter.  POST indices (and POST index/<label>)
// raise it to the body label only, so a supervoxel id inside the posted index can later be handed out
// as a "new" label.

import (
	"bytes"
	"encoding/json"
	"fmt"
	"testing"

	pb "google.golang.org/protobuf/proto"

	"github.com/janelia-flyem/dvid/datatype/common/proto"
	"github.com/janelia-flyem/dvid/dvid"
	"github.com/janelia-flyem/dvid/server"
)

func demoIndex(label, supervoxel uint64) *proto.LabelIndex {
	return &proto.LabelIndex{
		Label:  label,
		Blocks: map[uint64]*proto.SVCount{0: {Counts: map[uint64]uint32{supervoxel: 10}}},
	}
}

func TestRefusedIndexBatchStoresNothing(t *testing.T) {
	if err := server.OpenTest(); err != nil {
		t.Fatalf("can't open test server: %v\n", err)
	}
	defer server.CloseTest()
	uuid, _ := initTestRepo()
	var config dvid.Config
	server.CreateTestInstance(t, uuid, "labelmap", "labels", config)
	api := fmt.Sprintf("%snode/%s/labels/", server.WebAPIPath, uuid)

	batch := proto.LabelIndices{Indices: []*proto.LabelIndex{demoIndex(9999, 9999), demoIndex(0, 5)}}
	ser, err := pb.Marshal(&batch)
	if err != nil {
		t.Fatal(err)
	}
	resp := server.TestHTTPResponse(t, "POST", api+"indices", bytes.NewBuffer(ser))
	if resp.Code == 200 {
		t.Fatalf("a batch with an index for the reserved label 0 was accepted")
	}
	if got := server.TestHTTPResponse(t, "GET", api+"index/9999", nil); got.Code == 200 {
		t.Errorf("the batch was refused with %d, yet its first index is stored (GET index/9999 = 200)", resp.Code)
	}
}

func TestPostedIndexRaisesCounterAboveItsSupervoxels(t *testing.T) {
	if err := server.OpenTest(); err != nil {
		t.Fatalf("can't open test server: %v\n", err)
	}
	defer server.CloseTest()
	uuid, _ := initTestRepo()
	var config dvid.Config
	server.CreateTestInstance(t, uuid, "labelmap", "labels", config)
	api := fmt.Sprintf("%snode/%s/labels/", server.WebAPIPath, uuid)

	batch := proto.LabelIndices{Indices: []*proto.LabelIndex{demoIndex(20, 7777)}}
	ser, err := pb.Marshal(&batch)
	if err != nil {
		t.Fatal(err)
	}
	server.TestHTTP(t, "POST", api+"indices", bytes.NewBuffer(ser))
	out := server.TestHTTP(t, "POST", api+"nextlabel/1", nil)
	var r struct {
		Start uint64 `json:"start"`
	}
	if err := json.Unmarshal(out, &r); err != nil {
		t.Fatal(err)
	}
	if r.Start <= 7777 {
		t.Errorf("an index with supervoxel 7777 was stored; nextlabel then handed out %d, so 7777 will be handed out as new", r.Start)
	}
}
