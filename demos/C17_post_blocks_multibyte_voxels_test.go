package imageblk

// Demonstration of a C17 defect at the pinned commit (drop into datatype/imageblk, run with
//   go test -vet=off -count=1 -tags "badger filestore" -run TestPostBlocksOnSixteenBitVoxels ./datatype/imageblk
//
// POST blocks/<coord>/<span> sizes a block as BlockSize.Prod() bytes -- the number of voxels, without
// the bytes per voxel that every other reader and writer of the package multiplies in.  On a uint16blk
// instance the request is acknowledged but half blocks are stored: GET blocks returns zeros (the
// stored length does not match the block length), and a later GET raw over these blocks slices past
// the stored bytes in a block goroutine.

import (
	"bytes"
	"fmt"
	"testing"

	"github.com/janelia-flyem/dvid/datastore"
	"github.com/janelia-flyem/dvid/server"
)

func TestPostBlocksOnSixteenBitVoxels(t *testing.T) {
	if err := server.OpenTest(); err != nil {
		t.Fatal(err)
	}
	defer server.CloseTest()
	uuid, _ := datastore.NewTestRepo()
	metadata := `{"typename": "uint16blk", "dataname": "u16", "blocksize": "8,8,8"}`
	server.TestHTTP(t, "POST", fmt.Sprintf("%srepo/%s/instance", server.WebAPIPath, uuid), bytes.NewBufferString(metadata))
	const blockBytes = 8 * 8 * 8 * 2
	data := make([]byte, 2*blockBytes)
	for i := range data {
		data[i] = byte(i%250) + 1
	}
	url := fmt.Sprintf("%snode/%s/u16/blocks/1_2_3/2", server.WebAPIPath, uuid)
	server.TestHTTP(t, "POST", url, bytes.NewBuffer(data))
	got := server.TestHTTP(t, "GET", url, nil)
	if !bytes.Equal(got, data) {
		nz := 0
		for _, b := range got {
			if b != 0 {
				nz++
			}
		}
		t.Errorf("two 16-bit blocks were posted and acknowledged; GET blocks returns %d bytes of which %d are non-zero (posted %d bytes, all non-zero)", len(got), nz, len(data))
	}
}
