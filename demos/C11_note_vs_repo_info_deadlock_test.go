package datastore

// Demonstration of a C11/C20 defect at the pinned commit (drop into datastore, run with
//   go test -vet=off -count=1 -tags "badger filestore" -run TestNodeNoteVsRepoInfo ./datastore
//
// POST node note takes the node's lock and then the repo's; serialising the repo (GET repo info,
// and every save) takes the repo's lock and then each node's.  Two such requests at once must both
// finish.

import (
	"fmt"
	"testing"
	"time"
)

func TestNodeNoteVsRepoInfo(t *testing.T) {
	OpenTest()
	defer CloseTest()

	root, _ := NewTestRepo()
	done := make(chan string, 2)
	go func() {
		for i := 0; i < 3000; i++ {
			if err := SetNodeNote(root, fmt.Sprintf("note %d", i)); err != nil {
				done <- "note: " + err.Error()
				return
			}
		}
		done <- ""
	}()
	go func() {
		for i := 0; i < 3000; i++ {
			if _, err := GetRepoJSON(root); err != nil {
				done <- "info: " + err.Error()
				return
			}
		}
		done <- ""
	}()
	for k := 0; k < 2; k++ {
		select {
		case msg := <-done:
			if msg != "" {
				t.Fatalf("unexpected error: %s", msg)
			}
		case <-time.After(60 * time.Second):
			t.Fatalf("POST note and GET repo info running at the same time never finish: the two requests hold the node's and the repo's lock in opposite orders")
		}
	}
}
