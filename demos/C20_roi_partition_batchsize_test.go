package roi

// Demonstration of a C20 defect at the pinned commit (drop into datatype/roi, run with
//   go test -vet=off -count=1 -tags "badger filestore" -run TestPartitionZeroBatchsize ./datatype/roi
//
// GET partition?batchsize=0 is a syntactically hostile URL: it must be answered with a client error,
// not with a recovered integer-divide-by-zero panic.

import (
	"bytes"
	"fmt"
	"testing"

	"github.com/janelia-flyem/dvid/datastore"
	"github.com/janelia-flyem/dvid/dvid"
	"github.com/janelia-flyem/dvid/server"
)

func TestPartitionZeroBatchsize(t *testing.T) {
	if err := server.OpenTest(); err != nil {
		t.Fatalf("can't open test server: %v\n", err)
	}
	defer server.CloseTest()

	uuid, _ := initTestRepo()
	ds, err := datastore.NewData(uuid, roitype, "proi", dvid.NewConfig())
	if err != nil {
		t.Fatal(err)
	}
	name := ds.DataName()
	server.TestHTTP(t, "POST", fmt.Sprintf("%snode/%s/%s/roi", server.WebAPIPath, uuid, name), bytes.NewBufferString("[[1,1,1,3],[1,2,1,3],[2,1,1,3]]"))
	for _, q := range []string{"batchsize=0", "batchsize=0&optimized=true", "batchsize=-2"} {
		func() {
			defer func() {
				if e := recover(); e != nil {
					t.Errorf("GET partition?%s panicked: %v", q, e)
				}
			}()
			resp := server.TestHTTPResponse(t, "GET", fmt.Sprintf("%snode/%s/%s/partition?%s", server.WebAPIPath, uuid, name, q), nil)
			if resp.Code < 400 || resp.Code >= 500 {
				t.Errorf("GET partition?%s: expected a client error, got status %d: %s", q, resp.Code, resp.Body.String())
			}
		}()
	}
}
