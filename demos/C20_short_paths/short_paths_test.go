package labelmap

// Demonstration for R20.53 (a path element is read only where the path is known to be long enough).
// Drop into datatype/labelmap and run
//   go test -vet=off -count=1 -tags "badger filestore" -run TestDemoShortPaths ./datatype/labelmap
// Before the fix these URLs ended in a recovered index panic (500 "Panic detected ... index out of range").

import (
	"fmt"
	"net/http"
	"testing"

	"github.com/janelia-flyem/dvid/dvid"
	"github.com/janelia-flyem/dvid/server"
)

func TestDemoShortPaths(t *testing.T) {
	if err := server.OpenTest(); err != nil {
		t.Fatalf("can't open test server: %v\n", err)
	}
	defer server.CloseTest()
	uuid, _ := initTestRepo()
	server.CreateTestInstance(t, uuid, "labelmap", "labels", dvid.NewConfig())
	base := fmt.Sprintf("%snode/%s/labels/", server.WebAPIPath, uuid)
	for _, u := range []string{"proximity", "proximity/1", "index", "mutations-range", "mutations-range/" + string(uuid)} {
		resp := server.TestHTTPResponse(t, "GET", base+u, nil)
		if resp.Code != http.StatusBadRequest {
			t.Errorf("GET %s: expected 400, got %d: %s", u, resp.Code, resp.Body.String())
		}
	}
}
