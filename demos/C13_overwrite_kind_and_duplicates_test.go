package labelsz

// Demonstration of two C13 defects at the pinned commit (drop into datatype/labelsz, run with
//   go test -vet=off -count=1 -tags "badger filestore" -run TestOverwriteKindAndDuplicatePositions ./datatype/labelsz
//
// (a) POST of an element at an existing position with another Kind: label/<l> shows the new kind,
//     so the per-kind counts of the synced labelsz must follow.
// (b) one POST carrying the same position twice stores one element in every view.

import (
	"encoding/json"
	"fmt"
	"strings"
	"testing"

	"github.com/janelia-flyem/dvid/datastore"
	"github.com/janelia-flyem/dvid/datatype/annotation"
	"github.com/janelia-flyem/dvid/dvid"
	"github.com/janelia-flyem/dvid/server"
)

func TestOverwriteKindAndDuplicatePositions(t *testing.T) {
	if err := server.OpenTest(); err != nil {
		t.Fatalf("can't open test server: %v\n", err)
	}
	defer server.CloseTest()

	uuid, _ := datastore.NewTestRepo()
	var config dvid.Config
	server.CreateTestInstance(t, uuid, "labelmap", "labels", config)
	_ = createLabelTestVolume(t, uuid, "labels") // label 100: x<64
	if err := datastore.BlockOnUpdating(uuid, "labels"); err != nil {
		t.Fatal(err)
	}
	server.CreateTestInstance(t, uuid, "annotation", "syn", config)
	server.CreateTestSync(t, uuid, "syn", "labels")
	server.CreateTestInstance(t, uuid, "labelsz", "sz", config)
	server.CreateTestSync(t, uuid, "sz", "syn")

	post := func(elems annotation.Elements) {
		b, _ := json.Marshal(elems)
		server.TestHTTP(t, "POST", fmt.Sprintf("%snode/%s/syn/elements", server.WebAPIPath, uuid), strings.NewReader(string(b)))
		for _, n := range []dvid.InstanceName{"syn", "sz"} {
			if err := datastore.BlockOnUpdating(uuid, n); err != nil {
				t.Fatal(err)
			}
		}
	}
	count := func(kind string) int {
		r := server.TestHTTP(t, "GET", fmt.Sprintf("%snode/%s/sz/count/100/%s", server.WebAPIPath, uuid, kind), nil)
		var c map[string]int
		if err := json.Unmarshal(r, &c); err != nil {
			t.Fatalf("count: %s", string(r))
		}
		return c[kind]
	}
	mk := func(x, y, z int32, kind annotation.ElementType) annotation.Element {
		return annotation.Element{ElementNR: annotation.ElementNR{Pos: dvid.Point3d{x, y, z}, Kind: kind}, Rels: annotation.Relationships{}}
	}

	// (a)
	post(annotation.Elements{mk(40, 40, 40, annotation.PostSyn)})
	post(annotation.Elements{mk(40, 40, 40, annotation.PreSyn)})
	if pre, postn := count("PreSyn"), count("PostSyn"); pre != 1 || postn != 0 {
		t.Errorf("after overwriting the PostSyn at (40,40,40) with a PreSyn: label/100 shows a PreSyn, but labelsz counts PreSyn=%d PostSyn=%d", pre, postn)
	}

	// (b)
	post(annotation.Elements{mk(44, 44, 44, annotation.PostSyn), mk(44, 44, 44, annotation.PostSyn)})
	var inLabel annotation.Elements
	r := server.TestHTTP(t, "GET", fmt.Sprintf("%snode/%s/syn/label/100", server.WebAPIPath, uuid), nil)
	if err := json.Unmarshal(r, &inLabel); err != nil {
		t.Fatal(err)
	}
	n := 0
	for _, e := range inLabel {
		if e.Pos.Equals(dvid.Point3d{44, 44, 44}) {
			n++
		}
	}
	var inStore annotation.Elements
	r = server.TestHTTP(t, "GET", fmt.Sprintf("%snode/%s/syn/elements/64_64_64/0_0_0", server.WebAPIPath, uuid), nil)
	if err := json.Unmarshal(r, &inStore); err != nil {
		t.Fatal(err)
	}
	m := 0
	for _, e := range inStore {
		if e.Pos.Equals(dvid.Point3d{44, 44, 44}) {
			m++
		}
	}
	if n != 1 || m != 1 || count("PostSyn") != 1 {
		t.Errorf("one POST with position (44,44,44) twice: %d copies in the element store, %d in label/100, PostSyn count %d", m, n, count("PostSyn"))
	}
}
