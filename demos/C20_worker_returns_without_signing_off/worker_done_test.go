package labelmap

// Demonstration for R20.66.  Drop into datatype/labelmap and run
//   go test -vet=off -count=1 -tags "badger filestore" -run TestDemoWorkerSignsOffOnEveryExit ./datatype/labelmap
// Workers that are handed a WaitGroup returned early on an error without Done() (loadLabelIDs and its
// labelarray/labelvol twins on a store error; loadVersionMapping on an empty ancestry): whoever waited on
// the group — the start-up load, a mapping request — blocked for ever.

import (
	"sync"
	"testing"
	"time"

	"github.com/janelia-flyem/dvid/storage"
)

func TestDemoWorkerSignsOffOnEveryExit(t *testing.T) {
	vc := newVCache(1)
	ch := make(chan storage.LogMessage)
	wg := new(sync.WaitGroup)
	wg.Add(1)
	go vc.loadVersionMapping(nil, "labels", ch, wg)
	done := make(chan struct{})
	go func() { wg.Wait(); close(done) }()
	select {
	case <-done:
	case <-time.After(3 * time.Second):
		t.Fatalf("the worker returned (nothing to load) without calling Done: the waiter is blocked for ever")
	}
}
