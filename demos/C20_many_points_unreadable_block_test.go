package labelmap

// Demonstration of a C20 defect at the pinned commit (drop into datatype/labelmap, run with
//   go test -vet=off -count=1 -tags "badger filestore" -run TestManyPointsWithUnreadableBlock ./datatype/labelmap
//
// GET labels with 100 or more points uses reader goroutines.  When a block cannot be read (here: its
// stored bytes are damaged) the request must be answered with an error, not hang for ever.

import (
	"bytes"
	"encoding/json"
	"fmt"
	"testing"
	"time"

	"github.com/janelia-flyem/dvid/datastore"
	"github.com/janelia-flyem/dvid/dvid"
	"github.com/janelia-flyem/dvid/server"
)

func TestManyPointsWithUnreadableBlock(t *testing.T) {
	if err := server.OpenTest(); err != nil {
		t.Fatalf("can't open test server: %v\n", err)
	}
	defer server.CloseTest()

	uuid, v := initTestRepo()
	var config dvid.Config
	server.CreateTestInstance(t, uuid, "labelmap", "labels", config)
	vol := newTestVolume(64, 64, 64)
	vol.addSubvol(dvid.Point3d{0, 0, 0}, dvid.Point3d{64, 64, 64}, 7)
	vol.put(t, uuid, "labels")
	if err := datastore.BlockOnUpdating(uuid, "labels"); err != nil {
		t.Fatal(err)
	}
	d, err := GetByUUIDName(uuid, "labels")
	if err != nil {
		t.Fatal(err)
	}
	store, err := datastore.GetOrderedKeyValueDB(d)
	if err != nil {
		t.Fatal(err)
	}
	index := dvid.IndexZYX{0, 0, 0}
	if err := store.Put(datastore.NewVersionedCtx(d, v), NewBlockTKey(0, &index), []byte{0xFF, 0xFF, 0xFF, 0xFF}); err != nil {
		t.Fatal(err)
	}
	var pts [][3]int32
	for i := int32(0); i < 120; i++ {
		pts = append(pts, [3]int32{i % 64, (i / 2) % 64, 5})
	}
	body, _ := json.Marshal(pts)
	done := make(chan int, 1)
	go func() {
		defer func() { recover() }()
		resp := server.TestHTTPResponse(t, "GET", fmt.Sprintf("%snode/%s/labels/labels", server.WebAPIPath, uuid), bytes.NewBuffer(body))
		done <- resp.Code
	}()
	select {
	case code := <-done:
		if code == 200 {
			t.Errorf("GET labels over an unreadable block answered 200")
		}
	case <-time.After(15 * time.Second):
		t.Errorf("GET labels with %d points is never answered when a block cannot be read", len(pts))
	}
}
