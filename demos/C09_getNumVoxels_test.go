package labels

import (
	"encoding/binary"
	"testing"

	"github.com/janelia-flyem/dvid/dvid"
)

func TestZZNumVoxelsSkipsForeignSubBlocks(t *testing.T) {
	size := dvid.Point3d{16, 16, 16}
	arr := make([]byte, 16*16*16*8)
	truth := map[uint64]uint64{}
	for z := 0; z < 16; z++ {
		for y := 0; y < 16; y++ {
			for x := 0; x < 16; x++ {
				var lbl uint64
				if x < 8 && y < 8 && z < 8 { // first sub-block: labels 1,2,3 (3 labels -> 2 bits)
					lbl = uint64(1 + (x+y+z)%3)
				} else { // other sub-blocks: labels 7 and 9 mixed
					lbl = 7
					if (x*3+y*5+z*7)%4 == 0 {
						lbl = 9
					}
				}
				binary.LittleEndian.PutUint64(arr[(z*256+y*16+x)*8:], lbl)
				truth[lbl]++
			}
		}
	}
	b, err := MakeBlock(arr, size)
	if err != nil {
		t.Fatal(err)
	}
	for i, lbl := range b.Labels {
		if got := b.getNumVoxels(uint32(i)); got != truth[lbl] {
			t.Errorf("label %d: getNumVoxels=%d, array has %d", lbl, got, truth[lbl])
		}
	}
}
