package keyvalue

// Demonstration for R5.21 / R20.62.  Drop into datatype/keyvalue and run
//   go test -vet=off -count=1 -tags "badger filestore" -run TestDemoKeyWithExtraPath ./datatype/keyvalue
// Before the fix POST key/a/b/c was acknowledged (200) and overwrote the value of key "a".

import (
	"bytes"
	"fmt"
	"testing"

	"github.com/janelia-flyem/dvid/dvid"
	"github.com/janelia-flyem/dvid/server"
)

func TestDemoKeyWithExtraPath(t *testing.T) {
	if err := server.OpenTest(); err != nil {
		t.Fatalf("can't open test server: %v\n", err)
	}
	defer server.CloseTest()
	uuid, _ := initTestRepo()
	server.CreateTestInstance(t, uuid, "keyvalue", "kv", dvid.NewConfig())
	base := fmt.Sprintf("%snode/%s/kv/", server.WebAPIPath, uuid)
	server.TestHTTP(t, "POST", base+"key/a", bytes.NewBufferString("value of a"))
	resp := server.TestHTTPResponse(t, "POST", base+"key/a/b/c", bytes.NewBufferString("something else"))
	got := string(server.TestHTTP(t, "GET", base+"key/a", nil))
	if got != "value of a" {
		t.Errorf("POST key/a/b/c answered %d and changed key \"a\" to %q", resp.Code, got)
	}
}
