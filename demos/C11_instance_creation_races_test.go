package keyvalue

// Demonstration of two C11/C20 defects at the pinned commit (drop into datatype/keyvalue, run with
//   go test -vet=off -count=1 -tags "badger filestore" -run 'TestSameNameInstanceCreation|TestSaveWhileCreatingInstances' ./datatype/keyvalue
//
// (1) newData tests the instance name under the repo's read lock and inserts under the write lock
//     without testing again: of 8 simultaneous creations of one name more than one is acknowledged,
//     and the later instance silently replaces the earlier.
// (2) repoT.GobEncode takes the repo's read lock and releases it at once (`r.RLock(); r.RUnlock()`),
//     then encodes the data map, the log and the properties unlocked.  An instance creation (a map
//     insert) during any save ends the process with "fatal error: concurrent map iteration and map
//     write" -- run the second test alone; it kills the test binary within seconds.
import (
	"bytes"
	"fmt"
	"net/http"
	"net/http/httptest"
	"sync"
	"sync/atomic"
	"testing"
	"time"

	"github.com/janelia-flyem/dvid/server"
)

func probeReq(method, url string, body []byte) (int, string) {
	req, err := http.NewRequest(method, url, bytes.NewReader(body))
	if err != nil {
		return -1, err.Error()
	}
	w := httptest.NewRecorder()
	server.ServeSingleHTTP(w, req)
	return w.Code, w.Body.String()
}

func TestSameNameInstanceCreation(t *testing.T) {
	if err := server.OpenTest(); err != nil {
		t.Fatalf("can't open test server: %v\n", err)
	}
	defer server.CloseTest()
	uuid, _ := initTestRepo()

	trials, bothOK := 300, 0
	for trial := 0; trial < trials; trial++ {
		name := fmt.Sprintf("dup%d", trial)
		body := []byte(fmt.Sprintf(`{"typename":"keyvalue","dataname":%q}`, name))
		url := fmt.Sprintf("%srepo/%s/instance", server.WebAPIPath, uuid)
		codes := make([]int, 8)
		var wg sync.WaitGroup
		start := make(chan struct{})
		for i := 0; i < 8; i++ {
			wg.Add(1)
			go func(i int) {
				defer wg.Done()
				<-start
				codes[i], _ = probeReq("POST", url, body)
			}(i)
		}
		close(start)
		wg.Wait()
		numOK := 0
		for _, c := range codes {
			if c == http.StatusOK {
				numOK++
			}
		}
		if numOK > 1 {
			bothOK++
		}
	}
	t.Logf("same-name instance creation x8: %d trials, %d in which MORE THAN ONE was acknowledged 200 (one instance silently replaces the other)", trials, bothOK)
	if bothOK != 0 {
		t.Errorf("both creations of one name acknowledged in %d of %d trials", bothOK, trials)
	}
}

// Instance creations (map insert into r.data) run against repo-log POSTs (each one saves = iterates r.data).
// The Go runtime kills the whole process with "fatal error: concurrent map iteration and map write" (or gob
// fails / encodes a torn log slice) when the two meet.  Run alone:  -run TestSaveWhileCreatingInstances
func TestSaveWhileCreatingInstances(t *testing.T) {
	if err := server.OpenTest(); err != nil {
		t.Fatalf("can't open test server: %v\n", err)
	}
	defer server.CloseTest()
	uuid, _ := initTestRepo()

	stop := make(chan struct{})
	var wg sync.WaitGroup
	var created int64
	for g := 0; g < 4; g++ {
		wg.Add(1)
		go func(g int) {
			defer wg.Done()
			for i := 0; ; i++ {
				select {
				case <-stop:
					return
				default:
				}
				body := []byte(fmt.Sprintf(`{"typename":"keyvalue","dataname":"inst-%d-%d"}`, g, i))
				probeReq("POST", fmt.Sprintf("%srepo/%s/instance", server.WebAPIPath, uuid), body)
				atomic.AddInt64(&created, 1)
			}
		}(g)
	}
	for g := 0; g < 8; g++ {
		wg.Add(1)
		go func(g int) {
			defer wg.Done()
			for i := 0; ; i++ {
				select {
				case <-stop:
					return
				default:
				}
				probeReq("POST", fmt.Sprintf("%srepo/%s/log", server.WebAPIPath, uuid), []byte(`{"log":["x"]}`))
			}
		}(g)
	}
	time.Sleep(10 * time.Second)
	close(stop)
	wg.Wait()
	t.Logf("survived 20 s (%d instances created) without the runtime detecting the unsynchronised map access", atomic.LoadInt64(&created))
}
