package labelmap

// Demonstration for R20.48 / R20.49 / R20.50.  Drop into datatype/labelmap and run
//   go test -vet=off -count=1 -tags "badger filestore" -run TestDemoMaxDownres255 ./datatype/labelmap
// Before the fix an instance created with the documented-legal MaxDownresLevel=255 got an empty table of
// per-scale counters (uint8 255+1 = 0): the first voxel write panicked in StartScaleUpdate with updateMu
// held (500), and the second write blocked for ever on that mutex while holding the voxel mutex.

import (
	"bytes"
	"fmt"
	"net/http"
	"net/http/httptest"
	"testing"
	"time"

	"github.com/janelia-flyem/dvid/dvid"
	"github.com/janelia-flyem/dvid/server"
)

func TestDemoMaxDownres255(t *testing.T) {
	if err := server.OpenTest(); err != nil {
		t.Fatalf("can't open test server: %v\n", err)
	}
	defer server.CloseTest()
	uuid, _ := initTestRepo()
	config := dvid.NewConfig()
	config.Set("MaxDownresLevel", "255")
	server.CreateTestInstance(t, uuid, "labelmap", "lm255", config)
	url := fmt.Sprintf("%snode/%s/lm255/raw/0_1_2/64_64_64/0_0_0", server.WebAPIPath, uuid)
	for i := 0; i < 2; i++ {
		done := make(chan int, 1)
		go func() {
			req, _ := http.NewRequest("POST", url, bytes.NewReader(make([]byte, 64*64*64*8)))
			w := httptest.NewRecorder()
			server.ServeSingleHTTP(w, req)
			done <- w.Code
		}()
		select {
		case code := <-done:
			if code != http.StatusOK {
				t.Errorf("POST raw #%d on an instance with MaxDownresLevel=255 returned %d", i+1, code)
			}
		case <-time.After(60 * time.Second):
			t.Fatalf("POST raw #%d still blocked after 60 seconds", i+1)
		}
	}
}
