package annotation

// Demonstration for R13.27 / R20.60.  Drop into datatype/annotation and run
//   go test -vet=off -count=1 -tags "badger filestore" -run TestDemoPostedLabelListNotAList ./datatype/annotation
// Before the fix POST labels {"100":"garbage"} was acknowledged (200) and stored as the element list
// of body 100: GET label/100 then answered 400, and so did every later element request touching body 100.

import (
	"bytes"
	"fmt"
	"net/http"
	"testing"

	"github.com/janelia-flyem/dvid/dvid"
	"github.com/janelia-flyem/dvid/server"
)

func TestDemoPostedLabelListNotAList(t *testing.T) {
	if err := server.OpenTest(); err != nil {
		t.Fatalf("can't open test server: %v\n", err)
	}
	defer server.CloseTest()
	uuid, _ := initTestRepo()
	server.CreateTestInstance(t, uuid, "annotation", "syn", dvid.NewConfig())
	base := fmt.Sprintf("%snode/%s/syn/", server.WebAPIPath, uuid)
	resp := server.TestHTTPResponse(t, "POST", base+"labels", bytes.NewBufferString(`{"100":"garbage"}`))
	read := server.TestHTTPResponse(t, "GET", base+"label/100", nil)
	if read.Code != http.StatusOK {
		t.Errorf("POST labels with a value that is no element list answered %d; GET label/100 now answers %d: %s", resp.Code, read.Code, read.Body.String())
	}
}
