package neuronjson

// Demonstration of a C16 defect at the pinned commit (drop into datatype/neuronjson, run with
//   go test -vet=off -count=1 -tags "badger filestore" -run TestLeadingZeroKeys ./datatype/neuronjson
//
// Keys are body ids.  The in-memory path of the branch head addresses an annotation by the parsed
// number, the store by the key string as it was spelled in the URL.  "007" therefore names body 7 in
// memory and a different, non-existent key in the store: a DELETE removes the annotation from the
// head's answers only, and a POST creates a second stored record for the same body.

import (
	"fmt"
	"strings"
	"testing"

	"github.com/janelia-flyem/dvid/datastore"
	"github.com/janelia-flyem/dvid/dvid"
	"github.com/janelia-flyem/dvid/server"
)

func TestLeadingZeroKeys(t *testing.T) {
	if err := server.OpenTest(); err != nil {
		t.Fatalf("can't open test server: %v\n", err)
	}
	defer server.CloseTest()

	uuid, _ := initTestRepo()
	server.CreateTestInstance(t, uuid, "neuronjson", "neurons", dvid.Config{})
	api := func(u dvid.UUID, path string) string {
		return fmt.Sprintf("%snode/%s/neurons/%s", server.WebAPIPath, u, path)
	}
	server.TestHTTP(t, "POST", api(uuid, "key/7?u=frank"), strings.NewReader(`{"bodyid": 7, "type": "A"}`))
	server.TestHTTP(t, "POST", api(uuid, "key/10?u=frank"), strings.NewReader(`{"bodyid": 10, "type": "B"}`))

	// a partial update spelled with leading zeros merges into the same annotation
	server.TestHTTP(t, "POST", api(uuid, "key/0010?u=frank"), strings.NewReader(`{"bodyid": 10, "extra": "E"}`))
	// and a delete spelled with leading zeros deletes it everywhere
	server.TestHTTP(t, "DELETE", api(uuid, "key/007"), nil)

	if err := datastore.Commit(uuid, "done", nil); err != nil {
		t.Fatal(err)
	}
	child, err := datastore.NewVersion(uuid, "child", "", nil)
	if err != nil {
		t.Fatal(err)
	}
	// the committed parent is answered from the store, the child (head) from memory
	for _, q := range []string{"keys", "key/10", "all"} {
		fromStore := string(server.TestHTTP(t, "GET", api(uuid, q), nil))
		fromMemory := string(server.TestHTTP(t, "GET", api(child, q), nil))
		if fromStore != fromMemory {
			t.Errorf("GET %s: the store says %s, the in-memory head says %s", q, fromStore, fromMemory)
		}
	}
	store := server.TestHTTPResponse(t, "GET", api(uuid, "key/7"), nil)
	memory := server.TestHTTPResponse(t, "GET", api(child, "key/7"), nil)
	if store.Code != memory.Code {
		t.Errorf("GET key/7 after DELETE key/007: status %d from the store, %d from the in-memory head", store.Code, memory.Code)
	}
}
