package server

// Demonstration for R20.47 (stored or posted text is never a format string).  Drop into server/ and run
//   go test -vet=off -count=1 -tags "badger filestore" -run TestDemoPercentInNote ./server
// Before the fix the JSON answers were written with fmt.Fprintf(w, json): a note "100% done" was read
// back as "100%!d(MISSING)one"-style text.

import (
	"bytes"
	"encoding/json"
	"fmt"
	"testing"

	"github.com/janelia-flyem/dvid/datastore"
)

func TestDemoPercentInNote(t *testing.T) {
	if err := OpenTest(); err != nil {
		t.Fatalf("can't open test server: %v\n", err)
	}
	defer CloseTest()
	uuid, _ := datastore.NewTestRepo()
	const note = "100% done, 50%s left"
	body, _ := json.Marshal(map[string]string{"note": note})
	TestHTTP(t, "POST", fmt.Sprintf("%snode/%s/note", WebAPIPath, uuid), bytes.NewReader(body))
	got := TestHTTP(t, "GET", fmt.Sprintf("%snode/%s/note", WebAPIPath, uuid), nil)
	var resp struct {
		Note string `json:"note"`
	}
	if err := json.Unmarshal(got, &resp); err != nil {
		t.Fatalf("GET note is not JSON: %v: %s", err, got)
	}
	if resp.Note != note {
		t.Errorf("posted note %q, read back %q", note, resp.Note)
	}
	alias, _ := json.Marshal(map[string]string{"alias": "a%db%s"})
	TestHTTP(t, "POST", fmt.Sprintf("%srepo/%s/info", WebAPIPath, uuid), bytes.NewReader(alias))
	info := TestHTTP(t, "GET", fmt.Sprintf("%srepo/%s/info", WebAPIPath, uuid), nil)
	var ri struct{ Alias string }
	if err := json.Unmarshal(info, &ri); err != nil {
		t.Fatalf("GET repo info is not JSON: %v", err)
	}
	if ri.Alias != "a%db%s" {
		t.Errorf("posted alias %q, read back %q", "a%db%s", ri.Alias)
	}
}
