package neuronjson

// Demonstration of a C20 defect at the pinned commit (drop into datatype/neuronjson, run with
//   go test -vet=off -count=1 -tags "badger filestore" -run TestConcurrentPostsWithUncompilableSchema ./datatype/neuronjson
//
// A JSON schema that does not compile is accepted and stored (POST json_schema answers 200).  From then
// on every annotation POST at the head version re-reads the schema and caches its bytes.  Concurrent,
// well-formed POSTs must not take the server down (on the unrepaired tree the Go runtime aborts the whole
// process with "fatal error: concurrent map writes", so this test binary dies instead of failing).

import (
	"fmt"
	"strings"
	"sync"
	"testing"

	"github.com/janelia-flyem/dvid/dvid"
	"github.com/janelia-flyem/dvid/server"
)

func TestConcurrentPostsWithUncompilableSchema(t *testing.T) {
	if err := server.OpenTest(); err != nil {
		t.Fatalf("can't open test server: %v\n", err)
	}
	defer server.CloseTest()

	uuid, _ := initTestRepo()
	server.CreateTestInstance(t, uuid, "neuronjson", "neurons", dvid.Config{})
	server.TestHTTP(t, "POST", fmt.Sprintf("%snode/%s/neurons/json_schema?u=frank", server.WebAPIPath, uuid), strings.NewReader(`{"type": 5}`))

	var wg sync.WaitGroup
	for g := 0; g < 16; g++ {
		wg.Add(1)
		go func(g int) {
			defer wg.Done()
			for i := 0; i < 300; i++ {
				id := g*1000 + i + 1
				body := fmt.Sprintf(`{"bodyid": %d, "a": "x"}`, id)
				server.TestHTTPResponse(t, "POST", fmt.Sprintf("%snode/%s/neurons/key/%d?u=frank", server.WebAPIPath, uuid, id), strings.NewReader(body))
			}
		}(g)
	}
	wg.Wait()
}
