package roi

// Demonstration for R18.19.  Drop into datatype/roi and run
//   go test -vet=off -count=1 -tags "badger filestore" -run TestDemoPartitionZGap ./datatype/roi
// Both partitioners advanced exactly one layer when the next span's Z lay past the current layer: with a
// gap in Z larger than the batch size a span was filed under a layer that does not contain it, and the
// returned subvolumes did not cover the ROI block.

import (
	"encoding/json"
	"fmt"
	"testing"

	"github.com/janelia-flyem/dvid/datastore"
	"github.com/janelia-flyem/dvid/dvid"
	"github.com/janelia-flyem/dvid/server"
)

func demoNewROI(t *testing.T, name string) (dvid.UUID, *Data) {
	uuid, _ := initTestRepo()
	dataservice, err := datastore.NewData(uuid, roitype, dvid.InstanceName(name), dvid.NewConfig())
	if err != nil {
		t.Fatalf("Error creating new roi instance: %v\n", err)
	}
	return uuid, dataservice.(*Data)
}

func TestDemoPartitionZGap(t *testing.T) {
	if err := server.OpenTest(); err != nil {
		t.Fatalf("can't open test server: %v\n", err)
	}
	defer server.CloseTest()
	uuid, data := demoNewROI(t, "roi")

	roiRequest := fmt.Sprintf("%snode/%s/%s/roi", server.WebAPIPath, uuid, data.DataName())
	server.TestHTTP(t, "POST", roiRequest, getSpansJSON([]dvid.Span{{0, 0, 0, 1}, {10, 0, 0, 1}}))

	for _, opt := range []string{"false", "true"} {
		req := fmt.Sprintf("%snode/%s/%s/partition?batchsize=2&optimized=%s", server.WebAPIPath, uuid, data.DataName(), opt)
		ret := server.TestHTTP(t, "GET", req, nil)
		var sv subvolumesT
		if err := json.Unmarshal(ret, &sv); err != nil {
			t.Fatalf("bad partition JSON: %v\n%s", err, string(ret))
		}
		covered := false
		for _, s := range sv.Subvolumes {
			if s.MinChunk[2] <= 10 && s.MaxChunk[2] >= 10 {
				covered = true
			}
		}
		if !covered {
			t.Errorf("optimized=%s: ROI has blocks at z=10 but no partition subvolume covers block z=10: %s", opt, string(ret))
		}
	}
}
