package labelmap

// Demonstration for R12.21 / R20.57.  Drop into datatype/labelmap and run
//   go test -vet=off -count=1 -tags "badger filestore" -run TestDemoLabelCounterWraps ./datatype/labelmap
// Before the fix, after POST maxlabel/18446744073709551615 a cleave answered {"CleavedLabel": 0}: the
// counter wrapped and the cleaved supervoxel was mapped to the background label.

import (
	"bytes"
	"encoding/json"
	"fmt"
	"testing"

	"github.com/janelia-flyem/dvid/datastore"
	"github.com/janelia-flyem/dvid/dvid"
	"github.com/janelia-flyem/dvid/server"
)

func TestDemoLabelCounterWraps(t *testing.T) {
	if err := server.OpenTest(); err != nil {
		t.Fatalf("can't open test server: %v\n", err)
	}
	defer server.CloseTest()
	uuid, _ := initTestRepo()
	server.CreateTestInstance(t, uuid, "labelmap", "labels", dvid.NewConfig())
	vol := newTestVolume(128, 128, 128)
	vol.addSubvol(dvid.Point3d{40, 40, 40}, dvid.Point3d{20, 20, 20}, 1)
	vol.addSubvol(dvid.Point3d{70, 40, 40}, dvid.Point3d{20, 20, 20}, 2)
	vol.put(t, uuid, "labels")
	if err := datastore.BlockOnUpdating(uuid, "labels"); err != nil {
		t.Fatalf("block on updating: %v", err)
	}
	base := fmt.Sprintf("%snode/%s/labels/", server.WebAPIPath, uuid)
	server.TestHTTP(t, "POST", base+"merge", bytes.NewBufferString("[1, 2]"))
	server.TestHTTP(t, "POST", base+"maxlabel/18446744073709551615", nil)
	resp := server.TestHTTPResponse(t, "POST", base+"cleave/1", bytes.NewBufferString("[2]"))
	if resp.Code == 200 {
		var out struct{ CleavedLabel uint64 }
		json.Unmarshal(resp.Body.Bytes(), &out)
		if out.CleavedLabel == 0 {
			t.Errorf("cleave at the end of the label space was accepted and created body 0: %s", resp.Body.String())
		}
	}
	got := string(server.TestHTTP(t, "GET", base+"label/75_45_45", nil))
	if got == `{"Label": 0}` {
		t.Errorf("the voxel of supervoxel 2 now reads as background: %s", got)
	}
}
