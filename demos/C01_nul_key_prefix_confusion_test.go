package keyvalue

// Demonstration of a C01/C05/C06 defect at the pinned commit (drop into datatype/keyvalue, run with
//   go test -vet=off -count=1 -tags "badger filestore" -run TestZeroByteInKey ./datatype/keyvalue
//
// Stored keys are the key string plus a zero terminator, and all versions of a key are collected by
// byte prefix.  A key that contains a zero byte makes a shorter key a prefix of it: reading the
// never-written key "a" must not return the value of "a\x00b".

import (
	"fmt"
	"strings"
	"testing"

	"github.com/janelia-flyem/dvid/datastore"
	"github.com/janelia-flyem/dvid/dvid"
	"github.com/janelia-flyem/dvid/server"
)

func TestZeroByteInKey(t *testing.T) {
	if err := server.OpenTest(); err != nil {
		t.Fatalf("can't open test server: %v\n", err)
	}
	defer server.CloseTest()

	uuid, _ := initTestRepo()
	ds, err := datastore.NewData(uuid, kvtype, "kv", dvid.NewConfig())
	if err != nil {
		t.Fatal(err)
	}
	name := ds.DataName()
	post := server.TestHTTPResponse(t, "POST", fmt.Sprintf("%snode/%s/%s/key/a%%00b", server.WebAPIPath, uuid, name), strings.NewReader("nul-value"))
	resp := server.TestHTTPResponse(t, "GET", fmt.Sprintf("%snode/%s/%s/key/a", server.WebAPIPath, uuid, name), nil)
	if resp.Code == 200 {
		t.Errorf("POST key/a%%00b answered %d; afterwards GET key/a (never written) answers 200 with %q", post.Code, resp.Body.String())
	}
}
