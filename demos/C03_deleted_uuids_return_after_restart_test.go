//go:build !clustered && !gcloud
// +build !clustered,!gcloud

package datastore

// Demonstration of a C03/C07 defect at the pinned commit (drop into datastore, run with
//   go test -vet=off -count=1 -tags "badger filestore" -run TestDeletedAndHiddenUUIDsStayGoneAfterRestart ./datastore
//
// Deleting a repo and hiding a branch take the UUIDs of the removed nodes out of the uuid <-> version
// maps in memory but never persist the pruned maps.  After a restart the UUIDs resolve again
// although no node or repo stands behind them, and a repo cannot be created with the old root UUID.

import (
	"testing"
)

func TestDeletedAndHiddenUUIDsStayGoneAfterRestart(t *testing.T) {
	OpenTest()
	defer CloseTest()

	// a repo with a child, deleted
	root, _ := NewTestRepo()
	if err := Commit(root, "root", nil); err != nil {
		t.Fatal(err)
	}
	child, err := NewVersion(root, "child", "", nil)
	if err != nil {
		t.Fatal(err)
	}
	// a second repo with a side branch, hidden
	root2, _ := NewTestRepo()
	if err := Commit(root2, "root", nil); err != nil {
		t.Fatal(err)
	}
	side, err := NewVersion(root2, "side", "tmp", nil)
	if err != nil {
		t.Fatal(err)
	}
	if err := DeleteRepo(root, "foobar"); err != nil {
		t.Fatal(err)
	}
	if err := HideBranch(root2, "tmp"); err != nil {
		t.Fatal(err)
	}
	resolves := func(u string) bool {
		_, _, err := MatchingUUID(u)
		return err == nil
	}
	before := []bool{resolves(string(root)), resolves(string(child)), resolves(string(side))}

	CloseReopenTest()

	after := []bool{resolves(string(root)), resolves(string(child)), resolves(string(side))}
	names := []string{"deleted root", "deleted child", "hidden branch node"}
	for i := range names {
		if before[i] != after[i] {
			t.Errorf("UUID of the %s resolves: %v before the restart, %v after it", names[i], before[i], after[i])
		}
	}
}
