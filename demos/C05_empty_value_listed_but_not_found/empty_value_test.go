package keyvalue

// Demonstration for the fix "a key stored with an empty value is found by a point read": a POST with an empty
// body stores zero bytes; the Badger engine's Get copied the value with ValueCopy(nil), which yields nil for
// an empty value, and every caller takes a nil value for "no such key" — GET key/k answered 404 while
// /keys, /keyrange and HEAD key/k reported the key.
//
// Drop into datatype/keyvalue and run:
//   go test -vet=off -count=1 -tags "badger filestore" -run TestEmptyValueIsFoundByPointRead ./datatype/keyvalue

import (
	"bytes"
	"fmt"
	"net/http"
	"testing"

	"github.com/janelia-flyem/dvid/datastore"
	"github.com/janelia-flyem/dvid/dvid"
	"github.com/janelia-flyem/dvid/server"
)

func TestEmptyValueIsFoundByPointRead(t *testing.T) {
	if err := server.OpenTest(); err != nil {
		t.Fatalf("can't open test server: %v\n", err)
	}
	defer server.CloseTest()

	uuid, _ := datastore.NewTestRepo()
	server.CreateTestInstance(t, uuid, "keyvalue", "kv", dvid.Config{})

	base := fmt.Sprintf("%snode/%s/kv/", server.WebAPIPath, uuid)
	server.TestHTTP(t, "POST", base+"key/full", bytes.NewBufferString("some value"))
	server.TestHTTP(t, "POST", base+"key/hollow", bytes.NewBuffer(nil))

	listed := string(server.TestHTTP(t, "GET", base+"keys", nil))
	if listed != `["full","hollow"]` {
		t.Fatalf("expected both keys to be listed, got %s\n", listed)
	}
	resp := server.TestHTTPResponse(t, "GET", base+"key/hollow", nil)
	if resp.Code != http.StatusOK {
		t.Fatalf("key %q is listed by /keys but its point read answers %d: %s\n", "hollow", resp.Code, resp.Body.String())
	}
	if resp.Body.Len() != 0 {
		t.Fatalf("expected the empty value back, got %q\n", resp.Body.String())
	}
	ranged := string(server.TestHTTP(t, "GET", base+"keyrangevalues/a/z?json=true", nil))
	if ranged != `{"full":some value,"hollow":{}}` && ranged != `{"full":"some value","hollow":{}}` {
		t.Logf("keyrangevalues: %s", ranged)
	}
}
