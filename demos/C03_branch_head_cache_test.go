package datastore

// Demonstration of a C03 defect at the pinned commit (drop into datastore, run with
//   go test -vet=off -count=1 -tags "badger filestore" -run TestBranchHeadsAcrossRestart ./datastore
//
// "<uuid>:<branch>" references are resolved from a live cache of branch heads that a restart rebuilds
// from the DAG.  What a reference resolves to must not change across a restart.

import (
	"testing"

	"github.com/janelia-flyem/dvid/dvid"
)

func TestBranchHeadsAcrossRestart(t *testing.T) {
	OpenTest()
	defer CloseTest()

	root, _ := NewTestRepo()
	if err := Commit(root, "root", nil); err != nil {
		t.Fatal(err)
	}
	a, err := NewVersion(root, "a", "", nil)
	if err != nil {
		t.Fatal(err)
	}
	if err := Commit(a, "a", nil); err != nil {
		t.Fatal(err)
	}
	b, err := NewVersion(root, "b", "side", nil)
	if err != nil {
		t.Fatal(err)
	}
	if err := Commit(b, "b", nil); err != nil {
		t.Fatal(err)
	}
	m, err := Merge([]dvid.UUID{a, b}, "merge", MergeConflictFree)
	if err != nil {
		t.Fatal(err)
	}
	heads := func() map[string]dvid.UUID {
		out := map[string]dvid.UUID{}
		for _, br := range []string{"master", "side"} {
			u, _, err := GetBranchHead(root, br)
			if err != nil {
				out[br] = dvid.UUID("error: " + err.Error())
			} else {
				out[br] = u
			}
		}
		return out
	}
	before := heads()
	CloseReopenTest()
	after := heads()
	for br := range before {
		if before[br] != after[br] {
			t.Errorf("branch %q: head is %s before the restart and %s after it (merge child is %s, a=%s, b=%s)", br, before[br], after[br], m, a, b)
		}
	}
	if after["master"] != m {
		t.Errorf("master head after restart is %s, expected the merge child %s", after["master"], m)
	}
}
