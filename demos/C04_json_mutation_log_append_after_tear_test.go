package server

// Demonstration of a C04 defect at the pinned commit (drop into server, run with
//   go test -vet=off -count=1 -run TestJSONMutationLogAppendAfterTornTail ./server
//
// After a crash tore the last record of a JSON mutation log, the next process appends to the file
// as it is.  The acknowledged record lands behind the torn one and can never be read back.

import (
	"bytes"
	"os"
	"path"
	"testing"

	"github.com/janelia-flyem/dvid/dvid"
)

func TestJSONMutationLogAppendAfterTornTail(t *testing.T) {
	dir := t.TempDir()
	saved := tc.Mutations.Jsonstore
	tc.Mutations.Jsonstore = dir
	defer func() { tc.Mutations.Jsonstore = saved }()

	version, data := dvid.UUID("0123456789abcdef0123456789abcdef"), dvid.UUID("fedcba9876543210fedcba9876543210")
	for _, rec := range []string{`{"a":1}`, `{"b":2}`} {
		if err := LogJSONMutation(version, data, []byte(rec)); err != nil {
			t.Fatal(err)
		}
	}
	fname := path.Join(dir, string(data)+"-"+string(version)+".plog")
	fi, err := os.Stat(fname)
	if err != nil {
		t.Fatal(err)
	}
	// the crash tears the second record; the restart opens the file again
	jsonLogFilesMux.Lock()
	for k, lf := range jsonLogFiles {
		lf.f.Close()
		delete(jsonLogFiles, k)
	}
	jsonLogFilesMux.Unlock()
	if err := os.Truncate(fname, fi.Size()-3); err != nil {
		t.Fatal(err)
	}
	if err := LogJSONMutation(version, data, []byte(`{"c":3}`)); err != nil {
		t.Fatal(err)
	}
	var buf bytes.Buffer
	if err := StreamMutationsForVersion(&buf, version, data); err != nil {
		t.Fatal(err)
	}
	if buf.String() != `[{"a":1},{"c":3}]` {
		t.Errorf("after a torn record and an acknowledged append the log reads %s, expected [{\"a\":1},{\"c\":3}]", buf.String())
	}
}
