package keyvalue

// Demonstration for R6.19 / R20.61.  Drop into datatype/keyvalue and run
//   go test -vet=off -count=1 -tags "badger filestore" -run TestDemoUnaddressableInstanceName ./datatype/keyvalue
// Before the fix POST repo/<uuid>/instance accepted the datanames "" and "a/b" (200): the instances were
// created and persisted but no URL can address them.

import (
	"bytes"
	"fmt"
	"net/http"
	"testing"

	"github.com/janelia-flyem/dvid/server"
)

func TestDemoUnaddressableInstanceName(t *testing.T) {
	if err := server.OpenTest(); err != nil {
		t.Fatalf("can't open test server: %v\n", err)
	}
	defer server.CloseTest()
	uuid, _ := initTestRepo()
	for _, name := range []string{"", "a/b"} {
		body := fmt.Sprintf(`{"typename":"keyvalue","dataname":%q}`, name)
		resp := server.TestHTTPResponse(t, "POST", fmt.Sprintf("%srepo/%s/instance", server.WebAPIPath, uuid), bytes.NewBufferString(body))
		if resp.Code == http.StatusOK {
			t.Errorf("an instance named %q was created: %s", name, resp.Body.String())
		}
	}
}
