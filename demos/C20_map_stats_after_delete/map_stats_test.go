package labelmap

// Demonstration for the map-stats repair (R20.41 table entry instanceMaps.maps).  Drop into
// datatype/labelmap and run
//   go test -vet=off -count=1 -tags "badger filestore" -run TestDemoMapStatsAfterDelete ./datatype/labelmap
// Before the fix GET <labelmap>/map-stats answered 400 on every labelmap instance once any labelmap
// instance had been deleted (its cache entry stayed behind and could not be resolved), until restart.

import (
	"bytes"
	"fmt"
	"net/http"
	"testing"
	"time"

	"github.com/janelia-flyem/dvid/datastore"
	"github.com/janelia-flyem/dvid/dvid"
	"github.com/janelia-flyem/dvid/server"
)

func TestDemoMapStatsAfterDelete(t *testing.T) {
	if err := server.OpenTest(); err != nil {
		t.Fatalf("can't open test server: %v\n", err)
	}
	defer server.CloseTest()
	uuid, _ := initTestRepo()
	server.CreateTestInstance(t, uuid, "labelmap", "keep", dvid.NewConfig())
	server.CreateTestInstance(t, uuid, "labelmap", "gone", dvid.NewConfig())
	for _, name := range []string{"keep", "gone"} {
		server.TestHTTP(t, "GET", fmt.Sprintf("%snode/%s/%s/mapping", server.WebAPIPath, uuid, name), bytes.NewBufferString("[1]"))
	}
	if err := datastore.DeleteDataByName(uuid, "gone", "foobar"); err != nil {
		t.Fatalf("delete instance: %v", err)
	}
	time.Sleep(500 * time.Millisecond)
	resp := server.TestHTTPResponse(t, "GET", fmt.Sprintf("%snode/%s/keep/map-stats", server.WebAPIPath, uuid), nil)
	if resp.Code != http.StatusOK {
		t.Errorf("GET keep/map-stats after deleting another labelmap instance: %d %s", resp.Code, resp.Body.String())
	}
}
