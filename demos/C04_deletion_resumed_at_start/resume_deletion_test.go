package datastore

// Demonstration for R4.17 / R3.29.  Drop into datastore/ and run
//   go test -vet=off -count=1 -tags "badger filestore" -run TestDemoDeletionResumedAtStart ./datastore
// A crash after an instance was marked deleted (and the mark persisted) but before its key-values and its
// entry were removed is repaired at the next start: the load resumes the deletion.  Before the fix the
// resume went through repoT.save(), which answers "cannot use repo.save() before manager is
// initialized" during the load of a fresh process: the instance stayed, marked deleted, for ever.

import (
	"encoding/gob"
	"net/http"
	"testing"
	"time"

	"github.com/janelia-flyem/dvid/dvid"
)

type demoType struct {
	Type
}

func (t *demoType) Help() string { return "" }

func (t *demoType) NewDataService(uuid dvid.UUID, id dvid.InstanceID, name dvid.InstanceName, c dvid.Config) (DataService, error) {
	basedata, err := NewDataService(t, uuid, id, name, c)
	if err != nil {
		return nil, err
	}
	return &demoData{basedata}, nil
}

type demoData struct {
	*Data
}

func (d *demoData) GobDecode(b []byte) error {
	d.Data = new(Data)
	return d.Data.GobDecode(b)
}
func (d *demoData) GobEncode() ([]byte, error)                   { return d.Data.GobEncode() }
func (d *demoData) DoRPC(request Request, reply *Response) error { return nil }
func (d *demoData) Help() string                                 { return "" }
func (d *demoData) ServeHTTP(uuid dvid.UUID, ctx *VersionedCtx, w http.ResponseWriter, r *http.Request) map[string]interface{} {
	return nil
}

func init() {
	gob.Register(&demoType{})
	gob.Register(&demoData{})
}

func TestDemoDeletionResumedAtStart(t *testing.T) {
	OpenTest()
	defer CloseTest()

	tt := &demoType{Type{Name: "demotype", URL: "github.com/janelia-flyem/dvid/datastore/demotype", Version: "0.1"}}
	Register(tt)

	uuid, _ := NewTestRepo()
	if _, err := NewData(uuid, tt, "doomed", dvid.NewConfig()); err != nil {
		t.Fatalf("creating instance: %v", err)
	}
	// the state a crash leaves behind: the mark is set and saved, nothing else happened yet
	r, err := manager.repoFromUUID(uuid)
	if err != nil {
		t.Fatal(err)
	}
	r.RLock()
	data := r.data["doomed"]
	r.RUnlock()
	data.SetDeleted(true)
	if err := r.save(); err != nil {
		t.Fatal(err)
	}

	// a new process starts with no manager
	manager = nil
	CloseReopenTest()

	deadline := time.Now().Add(10 * time.Second)
	for {
		r, err := manager.repoFromUUID(uuid)
		if err != nil {
			t.Fatal(err)
		}
		r.RLock()
		_, found := r.data["doomed"]
		r.RUnlock()
		if !found {
			return
		}
		if time.Now().After(deadline) {
			t.Fatalf("the instance marked deleted before the restart is still in the repo 10 s after it: the deletion was not resumed")
		}
		time.Sleep(100 * time.Millisecond)
	}
}
