package labelmap

// Demonstration for R20.64 / R8.25.  Drop into datatype/labelmap and run
//   go test -vet=off -count=1 -tags "badger filestore" -run TestDemoHistoryOfMergedBody ./datatype/labelmap
// GetLabelMutationHistory copied the body's supervoxels into a slice with an index it never advanced: only
// one supervoxel was looked up at the 'from' version, and the merges of the bodies that held the others
// were left out of GET history/<label>/<from>/<to>.

import (
	"bytes"
	"encoding/json"
	"fmt"
	"strings"
	"testing"

	"github.com/janelia-flyem/dvid/datastore"
	"github.com/janelia-flyem/dvid/dvid"
	"github.com/janelia-flyem/dvid/server"
)

func TestDemoHistoryOfMergedBody(t *testing.T) {
	if err := server.OpenTest(); err != nil {
		t.Fatalf("can't open test server: %v\n", err)
	}
	defer server.CloseTest()
	uuid, _ := initTestRepo()
	server.CreateTestInstance(t, uuid, "labelmap", "labels", dvid.NewConfig())
	vol := newTestVolume(128, 128, 128)
	vol.addSubvol(dvid.Point3d{10, 40, 40}, dvid.Point3d{20, 20, 20}, 1)
	vol.addSubvol(dvid.Point3d{40, 40, 40}, dvid.Point3d{20, 20, 20}, 2)
	vol.addSubvol(dvid.Point3d{70, 40, 40}, dvid.Point3d{20, 20, 20}, 3)
	vol.put(t, uuid, "labels")
	if err := datastore.BlockOnUpdating(uuid, "labels"); err != nil {
		t.Fatalf("block on updating: %v", err)
	}
	server.TestHTTP(t, "POST", fmt.Sprintf("%snode/%s/commit", server.WebAPIPath, uuid), bytes.NewBufferString(`{"note":"root"}`))
	resp := server.TestHTTP(t, "POST", fmt.Sprintf("%snode/%s/newversion", server.WebAPIPath, uuid), nil)
	var nv struct{ Child string }
	if err := json.Unmarshal(resp, &nv); err != nil || nv.Child == "" {
		t.Fatalf("newversion: %s", resp)
	}
	base := fmt.Sprintf("%snode/%s/labels/", server.WebAPIPath, nv.Child)
	server.TestHTTP(t, "POST", base+"merge", bytes.NewBufferString("[2, 3]"))
	server.TestHTTP(t, "POST", base+"merge", bytes.NewBufferString("[1, 2]"))

	out := string(server.TestHTTP(t, "GET", fmt.Sprintf("%shistory/1/%s/%s", base, uuid, nv.Child), nil))
	if n := strings.Count(out, `"merge"`); n != 2 {
		t.Errorf("history of body 1 should list the two merges that built it, lists %d: %s", n, out)
	}
}
