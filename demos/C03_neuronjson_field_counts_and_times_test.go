package neuronjson

// Demonstration of two C03/C16 defects at the pinned commit (drop into datatype/neuronjson, run with
//   go test -vet=off -count=1 -tags "badger filestore" -run TestFieldCountsAndTimesSurviveRestart ./datatype/neuronjson
//
// fields?counts=true and fieldtimes are served from tables kept beside the in-memory database of
// the head.  Updates maintain them differently from the way a restart rebuilds them:
//  - a count that drops to zero stays in the table as "field":0 (a restart, and the store path of a
//    committed version, do not list the field at all);
//  - an update writes every carried-forward <field>_time into the time table, so an older time
//    replaces a newer one (a restart takes the maximum over all annotations).

import (
	"fmt"
	"strings"
	"testing"

	"github.com/janelia-flyem/dvid/datastore"
	"github.com/janelia-flyem/dvid/dvid"
	"github.com/janelia-flyem/dvid/server"
)

func TestFieldCountsAndTimesSurviveRestart(t *testing.T) {
	if err := server.OpenTest(); err != nil {
		t.Fatalf("can't open test server: %v\n", err)
	}
	defer server.CloseTest()
	uuid, _ := initTestRepo()
	server.CreateTestInstance(t, uuid, "neuronjson", "neurons", dvid.Config{})
	api := fmt.Sprintf("%snode/%s/neurons/", server.WebAPIPath, uuid)
	post := func(key, body string) {
		server.TestHTTP(t, "POST", api+"key/"+key+"?u=frank", strings.NewReader(body))
	}
	post("1", `{"bodyid": 1, "a": "x", "a_time": "2020-01-01T00:00:00Z"}`)
	post("2", `{"bodyid": 2, "a": "y", "a_time": "2021-01-01T00:00:00Z"}`)
	post("1", `{"bodyid": 1, "b": "z", "b_time": "2019-01-01T00:00:00Z"}`) // carries a and a_time of body 1 forward
	post("3", `{"bodyid": 3, "zzz": 1, "zzz_time": "2018-01-01T00:00:00Z"}`)
	server.TestHTTP(t, "DELETE", api+"key/3", nil)

	countsBefore := string(server.TestHTTP(t, "GET", api+"fields?counts=true", nil))
	timesBefore := string(server.TestHTTP(t, "GET", api+"fieldtimes", nil))
	datastore.CloseReopenTest()
	countsAfter := string(server.TestHTTP(t, "GET", api+"fields?counts=true", nil))
	timesAfter := string(server.TestHTTP(t, "GET", api+"fieldtimes", nil))
	if countsBefore != countsAfter {
		t.Errorf("fields?counts=true before the restart: %s\n                      after the restart: %s", countsBefore, countsAfter)
	}
	if !strings.Contains(timesBefore, `"a":"2021-01-01T00:00:00Z"`) {
		t.Errorf("fieldtimes before the restart does not give the latest change of field a (2021): %s (after the restart: %s)", timesBefore, timesAfter)
	}
}
