package roi

// Demonstration of a C18 defect at the pinned commit (drop into datatype/roi, run with
//   go test -vet=off -count=1 -tags "badger filestore" -run TestROIMaskNegativeCoordinates ./datatype/roi
//
// The ROI is the single span z=-1, y=0, x=-1..0 (block size 32): voxels x in [-32,31], y in [0,31],
// z in [-32,-1].  ptquery and mask must agree on every voxel of a requested subvolume.

import (
	"bytes"
	"encoding/json"
	"fmt"
	"testing"

	"github.com/janelia-flyem/dvid/datastore"
	"github.com/janelia-flyem/dvid/dvid"
	"github.com/janelia-flyem/dvid/server"
)

func TestROIMaskNegativeCoordinates(t *testing.T) {
	if err := server.OpenTest(); err != nil {
		t.Fatalf("can't open test server: %v\n", err)
	}
	defer server.CloseTest()

	uuid, _ := initTestRepo()
	config := dvid.NewConfig()
	dataservice, err := datastore.NewData(uuid, roitype, "negroi", config)
	if err != nil {
		t.Fatalf("Error creating new roi instance: %v\n", err)
	}
	name := dataservice.DataName()
	server.TestHTTP(t, "POST", fmt.Sprintf("%snode/%s/%s/roi", server.WebAPIPath, uuid, name), bytes.NewBufferString("[[-1,0,-1,0]]"))

	for _, sv := range []struct{ size, offset [3]int32 }{
		{[3]int32{8, 8, 8}, [3]int32{-20, 4, -20}},   // wholly inside the ROI, not block aligned
		{[3]int32{16, 8, 8}, [3]int32{-40, 4, -20}},  // crosses the ROI's lower X edge at -32
		{[3]int32{8, 8, 16}, [3]int32{-8, 4, -8}},    // crosses the ROI's upper Z edge at -1/0
	} {
		req := fmt.Sprintf("%snode/%s/%s/mask/0_1_2/%d_%d_%d/%d_%d_%d", server.WebAPIPath, uuid, name,
			sv.size[0], sv.size[1], sv.size[2], sv.offset[0], sv.offset[1], sv.offset[2])
		mask := server.TestHTTP(t, "GET", req, nil)
		if len(mask) != int(sv.size[0]*sv.size[1]*sv.size[2]) {
			t.Fatalf("mask %v: got %d bytes", sv, len(mask))
		}
		var pts [][3]int32
		for z := int32(0); z < sv.size[2]; z++ {
			for y := int32(0); y < sv.size[1]; y++ {
				for x := int32(0); x < sv.size[0]; x++ {
					pts = append(pts, [3]int32{sv.offset[0] + x, sv.offset[1] + y, sv.offset[2] + z})
				}
			}
		}
		body, _ := json.Marshal(pts)
		r := server.TestHTTP(t, "POST", fmt.Sprintf("%snode/%s/%s/ptquery", server.WebAPIPath, uuid, name), bytes.NewBuffer(body))
		var inside []bool
		if err := json.Unmarshal(r, &inside); err != nil || len(inside) != len(pts) {
			t.Fatalf("ptquery: bad response %q (%v)", string(r), err)
		}
		bad := 0
		for i := range pts {
			x, y, z := pts[i][0], pts[i][1], pts[i][2]
			want := x >= -32 && x <= 31 && y >= 0 && y <= 31 && z >= -32 && z <= -1
			if inside[i] != want {
				t.Fatalf("ptquery %v: got %v, the span says %v", pts[i], inside[i], want)
			}
			if (mask[i] != 0) != want {
				if bad == 0 {
					t.Errorf("mask size %v offset %v: voxel %v is %d in the mask, but ptquery and the span say inside=%v", sv.size, sv.offset, pts[i], mask[i], want)
				}
				bad++
			}
		}
		if bad > 0 {
			t.Errorf("mask size %v offset %v: %d of %d voxels disagree with the spans", sv.size, sv.offset, bad, len(pts))
		}
	}
}
