package neuronjson

// Demonstration of a C16 defect at the pinned commit (drop into datatype/neuronjson, run with
//   go test -vet=off -count=1 -tags "badger filestore" -run TestFieldsAfterNullingLastUse ./datatype/neuronjson
//
// GET fields on the head is answered from counts kept in memory, on committed versions by scanning
// the store.  After the only annotation carrying a field has that field nulled, both must agree.

import (
	"encoding/json"
	"fmt"
	"sort"
	"strings"
	"testing"

	"github.com/janelia-flyem/dvid/datastore"
	"github.com/janelia-flyem/dvid/dvid"
	"github.com/janelia-flyem/dvid/server"
)

func TestFieldsAfterNullingLastUse(t *testing.T) {
	if err := server.OpenTest(); err != nil {
		t.Fatalf("can't open test server: %v\n", err)
	}
	defer server.CloseTest()

	uuid, _ := initTestRepo()
	server.CreateTestInstance(t, uuid, "neuronjson", "neurons", dvid.Config{})
	post := func(u dvid.UUID, id int, body string) {
		server.TestHTTP(t, "POST", fmt.Sprintf("%snode/%s/neurons/key/%d?u=frank", server.WebAPIPath, u, id), strings.NewReader(body))
	}
	post(uuid, 1, `{"bodyid": 1, "a": "x", "rare": "only here"}`)
	post(uuid, 2, `{"bodyid": 2, "a": "y"}`)
	post(uuid, 1, `{"bodyid": 1, "rare": null}`)

	fields := func(u dvid.UUID) []string {
		r := server.TestHTTP(t, "GET", fmt.Sprintf("%snode/%s/neurons/fields", server.WebAPIPath, u), nil)
		var f []string
		if err := json.Unmarshal(r, &f); err != nil {
			t.Fatalf("fields: %s: %v", string(r), err)
		}
		sort.Strings(f)
		return f
	}
	head := fields(uuid)
	if err := datastore.Commit(uuid, "c", nil); err != nil {
		t.Fatal(err)
	}
	if _, err := datastore.NewVersion(uuid, "child", "", nil); err != nil {
		t.Fatal(err)
	}
	committed := fields(uuid) // same content, now answered from the store
	if strings.Join(head, ",") != strings.Join(committed, ",") {
		t.Errorf("fields of the same content: answered %v from memory (as the head) and %v from the store (once committed)", head, committed)
	}
	for _, f := range head {
		if f == "rare" {
			t.Errorf("field \"rare\" is still listed on the head after its only use was nulled")
		}
	}
}
