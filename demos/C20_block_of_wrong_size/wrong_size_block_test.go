package labelmap

// Demonstration for R20.59 / R17.14.  Drop into datatype/labelmap and run
//   go test -vet=off -count=1 -tags "badger filestore" -run TestDemoBlockOfWrongSize ./datatype/labelmap
// Before the fix a well-formed solid 32^3 block POSTed to the blocks endpoint of a 64^3 instance was
// acknowledged (200); GET raw/0_1/64_64/0_0_40 then sliced the short block out of range in the readChunk
// goroutine, which no recover handler covers: the process ended.

import (
	"bytes"
	"compress/gzip"
	"encoding/binary"
	"fmt"
	"net/http"
	"testing"

	"github.com/janelia-flyem/dvid/datatype/common/labels"
	"github.com/janelia-flyem/dvid/dvid"
	"github.com/janelia-flyem/dvid/server"
)

func TestDemoBlockOfWrongSize(t *testing.T) {
	if err := server.OpenTest(); err != nil {
		t.Fatalf("can't open test server: %v\n", err)
	}
	defer server.CloseTest()
	uuid, _ := initTestRepo()
	server.CreateTestInstance(t, uuid, "labelmap", "labels", dvid.NewConfig()) // 64^3 blocks

	block := labels.MakeSolidBlock(7, dvid.Point3d{32, 32, 32})
	serialization, err := block.MarshalBinary()
	if err != nil {
		t.Fatal(err)
	}
	var gz bytes.Buffer
	zw := gzip.NewWriter(&gz)
	zw.Write(serialization)
	zw.Close()
	var body bytes.Buffer
	for _, c := range []int32{0, 0, 0} {
		binary.Write(&body, binary.LittleEndian, c)
	}
	binary.Write(&body, binary.LittleEndian, uint32(gz.Len()))
	body.Write(gz.Bytes())

	base := fmt.Sprintf("%snode/%s/labels/", server.WebAPIPath, uuid)
	resp := server.TestHTTPResponse(t, "POST", base+"blocks", &body)
	if resp.Code == http.StatusOK {
		t.Errorf("a 32^3 block was accepted by an instance with 64^3 blocks")
		// the read that ends the process when the block was stored
		server.TestHTTPResponse(t, "GET", base+"raw/0_1/64_64/0_0_40", nil)
	}
}
