package neuronjson

// Demonstration of a C16 defect at the pinned commit (drop into datatype/neuronjson, run with
//   go test -vet=off -count=1 -tags "badger filestore" -run TestKeyrangeStoreVsMemory ./datatype/neuronjson
//
// The head version is answered from memory (ids in numeric order), committed versions from the
// store (keys are decimal strings, in lexicographic order).  A key range must mean the same ids.

import (
	"encoding/json"
	"fmt"
	"reflect"
	"strings"
	"testing"

	"github.com/janelia-flyem/dvid/datastore"
	"github.com/janelia-flyem/dvid/dvid"
	"github.com/janelia-flyem/dvid/server"
)

func TestKeyrangeStoreVsMemory(t *testing.T) {
	if err := server.OpenTest(); err != nil {
		t.Fatalf("can't open test server: %v\n", err)
	}
	defer server.CloseTest()

	uuid, _ := initTestRepo()
	server.CreateTestInstance(t, uuid, "neuronjson", "neurons", dvid.Config{})
	for _, id := range []int{9, 10, 50, 100, 200, 1000} {
		server.TestHTTP(t, "POST", fmt.Sprintf("%snode/%s/neurons/key/%d?u=frank", server.WebAPIPath, uuid, id), strings.NewReader(fmt.Sprintf(`{"bodyid": %d, "a": "x"}`, id)))
	}
	if err := datastore.Commit(uuid, "c", nil); err != nil {
		t.Fatal(err)
	}
	child, err := datastore.NewVersion(uuid, "child", "", nil)
	if err != nil {
		t.Fatal(err)
	}
	for _, rng := range []string{"9/100", "10/200", "50/1000"} {
		head := string(server.TestHTTP(t, "GET", fmt.Sprintf("%snode/%s/neurons/keyrange/%s", server.WebAPIPath, child, rng), nil))
		committed := string(server.TestHTTP(t, "GET", fmt.Sprintf("%snode/%s/neurons/keyrange/%s", server.WebAPIPath, uuid, rng), nil))
		if head != committed {
			t.Errorf("keyrange/%s: the head (memory) answers %s, the committed parent with the same content (store) answers %s", rng, head, committed)
		}
		headV := string(server.TestHTTP(t, "GET", fmt.Sprintf("%snode/%s/neurons/keyrangevalues/%s?json=true", server.WebAPIPath, child, rng), nil))
		committedV := string(server.TestHTTP(t, "GET", fmt.Sprintf("%snode/%s/neurons/keyrangevalues/%s?json=true", server.WebAPIPath, uuid, rng), nil))
		var hm, cm map[string]interface{}
		if err := json.Unmarshal([]byte(headV), &hm); err != nil {
			t.Fatal(err)
		}
		if err := json.Unmarshal([]byte(committedV), &cm); err != nil {
			t.Fatal(err)
		}
		if !reflect.DeepEqual(hm, cm) {
			t.Errorf("keyrangevalues/%s: head answers %s, committed parent answers %s", rng, headV, committedV)
		}
	}
}
