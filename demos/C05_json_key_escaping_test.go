package keyvalue

// Demonstration of a C05 defect at the pinned commit (drop into datatype/keyvalue, run with
//   go test -vet=off -count=1 -tags "badger filestore" -run TestJSONRangeEscapesKeys ./datatype/keyvalue
//
// The JSON forms of keyrangevalues and keyvalues must return every key of the interval with the
// value its individual read returns; a key with a double quote must not break the document.

import (
	"encoding/json"
	"fmt"
	"strings"
	"testing"

	"github.com/janelia-flyem/dvid/datastore"
	"github.com/janelia-flyem/dvid/dvid"
	"github.com/janelia-flyem/dvid/server"
)

func TestJSONRangeEscapesKeys(t *testing.T) {
	if err := server.OpenTest(); err != nil {
		t.Fatalf("can't open test server: %v\n", err)
	}
	defer server.CloseTest()

	uuid, _ := initTestRepo()
	ds, err := datastore.NewData(uuid, kvtype, "kv", dvid.NewConfig())
	if err != nil {
		t.Fatal(err)
	}
	name := ds.DataName()
	server.TestHTTP(t, "POST", fmt.Sprintf("%snode/%s/%s/key/q%%22x", server.WebAPIPath, uuid, name), strings.NewReader(`"v"`))
	server.TestHTTP(t, "POST", fmt.Sprintf("%snode/%s/%s/key/qa", server.WebAPIPath, uuid, name), strings.NewReader(`"w"`))
	r := server.TestHTTP(t, "GET", fmt.Sprintf("%snode/%s/%s/keyrangevalues/q/r?json=true", server.WebAPIPath, uuid, name), nil)
	var got map[string]string
	if err := json.Unmarshal(r, &got); err != nil {
		t.Fatalf("keyrangevalues/q/r?json=true is not a JSON document: %s (%v)", string(r), err)
	}
	if got[`q"x`] != "v" || got["qa"] != "w" || len(got) != 2 {
		t.Errorf("keyrangevalues/q/r?json=true: got %v", got)
	}
	r = server.TestHTTP(t, "GET", fmt.Sprintf("%snode/%s/%s/keyvalues?json=true", server.WebAPIPath, uuid, name), strings.NewReader(`["q\"x", "qa"]`))
	got = nil
	if err := json.Unmarshal(r, &got); err != nil {
		t.Fatalf("keyvalues?json=true is not a JSON document: %s (%v)", string(r), err)
	}
	if got[`q"x`] != "v" || got["qa"] != "w" {
		t.Errorf("keyvalues?json=true: got %v", got)
	}
}
