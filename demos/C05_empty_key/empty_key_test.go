package keyvalue

// Demonstration for R5.20 / R6.18 / R20.54.  Drop into datatype/keyvalue and run
//   go test -vet=off -count=1 -tags "badger filestore" -run TestDemoEmptyKey ./datatype/keyvalue
// Before the fix POST key// was acknowledged (200) and GET keys then answered 400 "empty key".

import (
	"bytes"
	"fmt"
	"net/http"
	"testing"

	"github.com/janelia-flyem/dvid/dvid"
	"github.com/janelia-flyem/dvid/server"
)

func TestDemoEmptyKey(t *testing.T) {
	if err := server.OpenTest(); err != nil {
		t.Fatalf("can't open test server: %v\n", err)
	}
	defer server.CloseTest()
	uuid, _ := initTestRepo()
	server.CreateTestInstance(t, uuid, "keyvalue", "kv", dvid.NewConfig())
	base := fmt.Sprintf("%snode/%s/kv/", server.WebAPIPath, uuid)
	server.TestHTTP(t, "POST", base+"key/a", bytes.NewBufferString("va"))
	resp := server.TestHTTPResponse(t, "POST", base+"key//", bytes.NewBufferString("v"))
	listing := server.TestHTTPResponse(t, "GET", base+"keys", nil)
	if listing.Code != http.StatusOK {
		t.Errorf("POST key// answered %d; GET keys now answers %d: %s", resp.Code, listing.Code, listing.Body.String())
	}
}
