package labelarray

// Demonstration of a C20 defect at the pinned commit (drop into datatype/labelarray, run with
//   go test -vet=off -count=1 -tags "badger filestore" -run TestBlocksPostWithFailingBodyIsAnswered ./datatype/labelarray
//
// A client that goes away in the middle of POST blocks makes every further read of the request body
// fail with an error that is not io.EOF.  The read loop of ReceiveBlocks only leaves on io.EOF, so
// when the failure falls on a block boundary (no header byte read) it reads again, forever: the
// request is never answered and the goroutine spins.

import (
	"fmt"
	"io"
	"testing"
	"time"

	"github.com/janelia-flyem/dvid/dvid"
	"github.com/janelia-flyem/dvid/server"
)

type goneClient struct{}

func (goneClient) Read(p []byte) (int, error) { return 0, io.ErrUnexpectedEOF }

func TestBlocksPostWithFailingBodyIsAnswered(t *testing.T) {
	if err := server.OpenTest(); err != nil {
		t.Fatalf("can't open test server: %v\n", err)
	}
	defer server.CloseTest()

	uuid, _ := initTestRepo()
	var config dvid.Config
	server.CreateTestInstance(t, uuid, "labelarray", "labels", config)

	done := make(chan int, 1)
	go func() {
		resp := server.TestHTTPResponse(t, "POST", fmt.Sprintf("%snode/%s/labels/blocks", server.WebAPIPath, uuid), goneClient{})
		done <- resp.Code
	}()
	select {
	case code := <-done:
		if code == 200 {
			t.Errorf("a POST whose body could not be read was acknowledged with 200")
		}
	case <-time.After(5 * time.Second):
		t.Fatalf("POST blocks with a body that fails to read was not answered within 5 s: the read loop never ends")
	}
}
