package neuronjson

// Demonstration of a C20 defect at the pinned commit (drop into datatype/neuronjson, run with
//   go test -vet=off -count=1 -tags "badger filestore" -run TestKeyrangeValuesWhileDeleting ./datatype/neuronjson
//
// GET keyrangevalues on the head walks the in-memory id list in a goroutine; DELETE key shrinks that
// list.  The two at once must not take the process down (on the unrepaired tree: "index out of
// range" in a goroutine nothing recovers; this test binary dies).

import (
	"fmt"
	"strings"
	"sync"
	"testing"

	"github.com/janelia-flyem/dvid/dvid"
	"github.com/janelia-flyem/dvid/server"
)

func TestKeyrangeValuesWhileDeleting(t *testing.T) {
	if err := server.OpenTest(); err != nil {
		t.Fatalf("can't open test server: %v\n", err)
	}
	defer server.CloseTest()

	uuid, _ := initTestRepo()
	server.CreateTestInstance(t, uuid, "neuronjson", "neurons", dvid.Config{})
	const N = 3000
	for round := 0; round < 3; round++ {
		for id := 1; id <= N; id++ {
			server.TestHTTP(t, "POST", fmt.Sprintf("%snode/%s/neurons/key/%d?u=frank", server.WebAPIPath, uuid, id), strings.NewReader(fmt.Sprintf(`{"bodyid": %d, "a": "x"}`, id)))
		}
		var wg sync.WaitGroup
		wg.Add(2)
		go func() {
			defer wg.Done()
			for i := 0; i < 40; i++ {
				server.TestHTTPResponse(t, "GET", fmt.Sprintf("%snode/%s/neurons/keyrangevalues/1/%d?json=true", server.WebAPIPath, uuid, N), nil)
			}
		}()
		go func() {
			defer wg.Done()
			for id := N; id >= 1; id-- {
				server.TestHTTPResponse(t, "DELETE", fmt.Sprintf("%snode/%s/neurons/key/%d?u=frank", server.WebAPIPath, uuid, id), nil)
			}
		}()
		wg.Wait()
	}
}
