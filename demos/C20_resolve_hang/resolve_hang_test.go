package keyvalue

// Demonstration for R20.45 (a consumer that ends on a nil sentinel ends on every path).  Drop into
// datatype/keyvalue and run
//   go test -vet=off -count=1 -tags "badger filestore" -run TestDemoResolveHang ./datatype/keyvalue
// Before the fix POST repo/<uuid>/resolve never answered when a parent was a conflicted merge node.

import (
	"bytes"
	"encoding/json"
	"fmt"
	"strings"
	"testing"
	"time"

	"github.com/janelia-flyem/dvid/datastore"
	"github.com/janelia-flyem/dvid/server"
)

func demoChild(t *testing.T, body []byte) string {
	resp := struct {
		Child string `json:"child"`
	}{}
	if err := json.Unmarshal(body, &resp); err != nil {
		t.Fatalf("bad child response %s", string(body))
	}
	return resp.Child
}

// POST /api/repo/<uuid>/resolve whose first parent is a (conflicted) merge node: the background
// goroutine of datastore.DeleteConflicts does `continue` after FindConflicts fails on the final
// flush and then blocks for ever on the channel, so wg.Wait() in the request never returns.
func TestDemoResolveHang(t *testing.T) {
	datastore.OpenTest()
	defer datastore.CloseTest()

	uuid, _ := datastore.NewTestRepo()
	api := server.WebAPIPath
	var config = `{"typename":"keyvalue","dataname":"kv"}`
	server.TestHTTP(t, "POST", fmt.Sprintf("%srepo/%s/instance", api, uuid), strings.NewReader(config))
	server.TestHTTP(t, "POST", fmt.Sprintf("%snode/%s/commit", api, uuid), strings.NewReader(`{"note":"root"}`))

	a := demoChild(t, server.TestHTTP(t, "POST", fmt.Sprintf("%snode/%s/branch", api, uuid), strings.NewReader(`{"branch":"a"}`)))
	b := demoChild(t, server.TestHTTP(t, "POST", fmt.Sprintf("%snode/%s/branch", api, uuid), strings.NewReader(`{"branch":"b"}`)))
	c := demoChild(t, server.TestHTTP(t, "POST", fmt.Sprintf("%snode/%s/branch", api, uuid), strings.NewReader(`{"branch":"c"}`)))
	server.TestHTTP(t, "POST", fmt.Sprintf("%snode/%s/kv/key/k", api, a), strings.NewReader("from a"))
	server.TestHTTP(t, "POST", fmt.Sprintf("%snode/%s/kv/key/k", api, b), strings.NewReader("from b"))
	server.TestHTTP(t, "POST", fmt.Sprintf("%snode/%s/kv/key/k", api, c), strings.NewReader("from c"))
	for _, u := range []string{a, b, c} {
		server.TestHTTP(t, "POST", fmt.Sprintf("%snode/%s/commit", api, u), strings.NewReader(`{"note":"x"}`))
	}
	merge := fmt.Sprintf(`{"mergeType":"conflict-free","parents":[%q,%q],"note":"m"}`, a, b)
	m := demoChild(t, server.TestHTTP(t, "POST", fmt.Sprintf("%srepo/%s/merge", api, uuid), strings.NewReader(merge)))
	server.TestHTTP(t, "POST", fmt.Sprintf("%snode/%s/commit", api, m), strings.NewReader(`{"note":"x"}`))

	done := make(chan int, 1)
	go func() {
		body := fmt.Sprintf(`{"data":["kv"],"parents":[%q,%q],"note":"resolve"}`, m, c)
		resp := server.TestHTTPResponse(t, "POST", fmt.Sprintf("%srepo/%s/resolve", api, uuid), bytes.NewBufferString(body))
		t.Logf("resolve -> %d %s", resp.Code, resp.Body.String())
		done <- resp.Code
	}()
	select {
	case code := <-done:
		t.Logf("resolve returned %d", code)
	case <-time.After(10 * time.Second):
		t.Errorf("resolve request still blocked after 10 seconds")
	}
}
