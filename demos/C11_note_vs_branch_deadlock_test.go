package server

// Demonstration of a C11/C20 defect at the pinned commit (drop into server, run with
//   go test -vet=off -count=1 -tags "badger filestore" -run TestNoteAndBranchRequestsDoNotDeadlock ./server
//
// newVersion holds the parent node's write lock and then takes the DAG's lock (to look at the
// siblings and to insert the child).  Every save of the repo serialises the DAG: it holds the DAG's
// read lock and takes each node's read lock.  A note request (which saves) and a branch request on
// the same repo can therefore wait for each other for ever, and every later request on the repo
// with them.

import (
	"bytes"
	"fmt"
	"sync"
	"testing"
	"time"

	"github.com/janelia-flyem/dvid/datastore"
)

func TestNoteAndBranchRequestsDoNotDeadlock(t *testing.T) {
	if err := OpenTest(); err != nil {
		t.Fatalf("can't open test server: %v\n", err)
	}
	defer CloseTest()

	root, _ := datastore.NewTestRepo()
	TestHTTP(t, "POST", fmt.Sprintf("%snode/%s/commit", WebAPIPath, root), bytes.NewBufferString(`{"note":"root"}`))
	leaf, err := datastore.NewVersion(root, "leaf", "", nil)
	if err != nil {
		t.Fatal(err)
	}

	done := make(chan struct{})
	go func() {
		var wg sync.WaitGroup
		wg.Add(2)
		go func() {
			defer wg.Done()
			for i := 0; i < 300; i++ {
				TestHTTPResponse(t, "POST", fmt.Sprintf("%snode/%s/note", WebAPIPath, leaf), bytes.NewBufferString(fmt.Sprintf(`{"note":"n%d"}`, i)))
			}
		}()
		go func() {
			defer wg.Done()
			for i := 0; i < 300; i++ {
				TestHTTPResponse(t, "POST", fmt.Sprintf("%snode/%s/branch", WebAPIPath, root), bytes.NewBufferString(fmt.Sprintf(`{"branch":"b%d"}`, i)))
			}
		}()
		wg.Wait()
		close(done)
	}()
	select {
	case <-done:
	case <-time.After(60 * time.Second):
		t.Fatalf("300 note requests and 300 branch requests on one repo did not finish within 60 s: the two kinds of request wait for each other's locks")
	}
}
