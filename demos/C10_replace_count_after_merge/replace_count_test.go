package labels

// Demonstration for the fix "the voxel count of a table slot counts every position that refers to it":
// after MergeLabels a sub-block's index list can name the same block-level slot twice; getNumVoxels
// remembered only the last matching position, so ReplaceLabel (labelarray's merge/split bookkeeping reads
// its count) reported fewer voxels than it replaced.
//
// Drop into datatype/common/labels and run:
//   go test -vet=off -count=1 -run TestReplaceCountAfterMerge ./datatype/common/labels

import (
	"encoding/binary"
	"testing"

	"github.com/janelia-flyem/dvid/dvid"
)

func TestReplaceCountAfterMerge(t *testing.T) {
	size := dvid.Point3d{32, 32, 32}
	n := int(size.Prod())
	vol := make([]byte, n*8)
	for i := 0; i < n; i++ {
		binary.LittleEndian.PutUint64(vol[i*8:], uint64(1+i%2)) // labels 1 and 2 alternate
	}
	block, err := MakeBlock(vol, size)
	if err != nil {
		t.Fatal(err)
	}
	merged, err := block.MergeLabels(MergeOp{Target: 1, Merged: Set{2: struct{}{}}})
	if err != nil {
		t.Fatal(err)
	}
	replaced, count, err := merged.ReplaceLabel(1, 9)
	if err != nil {
		t.Fatal(err)
	}
	out, _ := replaced.MakeLabelVolume()
	var nines uint64
	for i := 0; i < n; i++ {
		if binary.LittleEndian.Uint64(out[i*8:]) == 9 {
			nines++
		}
	}
	if nines != uint64(n) {
		t.Fatalf("expected all %d voxels to carry the new label, %d do\n", n, nines)
	}
	if count != nines {
		t.Fatalf("ReplaceLabel replaced %d voxels but reports %d\n", nines, count)
	}
}
