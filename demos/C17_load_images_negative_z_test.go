package imageblk

// Demonstration of a C17 defect at the pinned commit (drop into datatype/imageblk, run with
//   go test -vet=off -count=1 -tags "badger filestore" -run TestLoadImagesNegativeZ ./datatype/imageblk
//
// Four 32x32 XY slices are bulk-loaded (the RPC "load" path) at z = -2..1: two slices end block
// z=-1, two start block z=0.  Reading the voxels back must give what was loaded.

import (
	"fmt"
	"image"
	"image/png"
	"os"
	"path/filepath"
	"testing"

	"github.com/janelia-flyem/dvid/datastore"
	"github.com/janelia-flyem/dvid/dvid"
	"github.com/janelia-flyem/dvid/server"
)

func TestLoadImagesNegativeZ(t *testing.T) {
	if err := server.OpenTest(); err != nil {
		t.Fatalf("can't open test server: %v\n", err)
	}
	defer server.CloseTest()

	uuid, v := initTestRepo()
	d := makeGrayscale(uuid, t, "negz")

	dir, err := os.MkdirTemp("", "dvidload")
	if err != nil {
		t.Fatal(err)
	}
	defer os.RemoveAll(dir)
	var files []string
	for i := 0; i < 4; i++ {
		img := image.NewGray(image.Rect(0, 0, 32, 32))
		for j := range img.Pix {
			img.Pix[j] = uint8(10 + i)
		}
		fn := filepath.Join(dir, fmt.Sprintf("slice%02d.png", i))
		f, err := os.Create(fn)
		if err != nil {
			t.Fatal(err)
		}
		if err := png.Encode(f, img); err != nil {
			t.Fatal(err)
		}
		f.Close()
		files = append(files, fn)
	}
	if err := d.LoadImages(v, dvid.Point3d{0, 0, -2}, files); err != nil {
		t.Fatalf("LoadImages: %v", err)
	}
	if err := datastore.BlockOnUpdating(uuid, "negz"); err != nil {
		t.Fatalf("Error blocking on sync: %v\n", err)
	}
	req := fmt.Sprintf("%snode/%s/negz/raw/0_1_2/32_32_4/0_0_-2", server.WebAPIPath, uuid)
	got := server.TestHTTP(t, "GET", req, nil)
	if len(got) != 32*32*4 {
		t.Fatalf("expected %d bytes, got %d", 32*32*4, len(got))
	}
	for i := 0; i < 4; i++ {
		if got[i*32*32+100] != uint8(10+i) {
			t.Errorf("slice z=%d: loaded value %d, read back %d", i-2, 10+i, got[i*32*32+100])
		}
	}
}
